//! E1: stateless choice-point explorer with a deviation bound.
//!
//! A *case* is a deterministic function of the answers it gets from `Ctx::choose`
//! (deviation-counted, answer 0 is the default) and `Ctx::pick` (free, bounded by
//! the enumeration itself).  The explorer runs the case with a prefix of fixed
//! answers and 0 afterwards, and schedules every alternative answer at every
//! point reached after the prefix as a child, as long as the number of
//! non-default deviation-counted answers stays within the bound.  Every case of
//! the bounded space is therefore executed exactly once.
//!
//! Cases are executed in worker subprocesses (allocation failure, stack overflow
//! and endless loops cannot be caught in-process); the parent only schedules.

pub mod json;

use std::collections::{BTreeMap, HashSet, VecDeque};
use std::io::{BufRead, BufReader, Write};
use std::process::{Child, ChildStdin, ChildStdout, Command, Stdio};
use std::sync::{Arc, Condvar, Mutex};
use std::time::{Duration, Instant};

// ------------------------------------------------------------------------------------------
// hashing (FNV-1a 64, deterministic across processes)

#[derive(Clone, Copy)]
pub struct Fnv(pub u64);
impl Default for Fnv {
    fn default() -> Self {
        Fnv(0xcbf29ce484222325)
    }
}
impl Fnv {
    pub fn bytes(&mut self, b: &[u8]) {
        for &x in b {
            self.0 ^= x as u64;
            self.0 = self.0.wrapping_mul(0x100000001b3);
        }
    }
    pub fn u64(&mut self, v: u64) {
        self.bytes(&v.to_le_bytes());
    }
    pub fn str(&mut self, s: &str) {
        self.u64(s.len() as u64);
        self.bytes(s.as_bytes());
    }
}
pub fn fnv(b: &[u8]) -> u64 {
    let mut f = Fnv::default();
    f.bytes(b);
    f.0
}

// ------------------------------------------------------------------------------------------
// case side

#[derive(Clone, Debug)]
pub struct Violation {
    /// canonical class of the failure (matched against known findings)
    pub sig: String,
    pub detail: String,
}

struct Inner {
    prefix: Vec<u32>,
    expect_chain: u64,
    choices: Vec<u32>,
    arity: Vec<u32>,
    free: Vec<bool>,
    chain: Vec<u64>,
    cur_chain: Fnv,
    machinery_error: Option<String>,
    obs: Fnv,
    nontrivial: bool,
    ops: u64,
    evals: u64,
    counters: BTreeMap<String, u64>,
    violations: Vec<Violation>,
    desc: String,
}

/// Handle to the execution context of one case.  Cheap to clone (shared, single-threaded), so
/// instrumented devices can keep a handle and ask for choices in the middle of an API call.
#[derive(Clone)]
pub struct Ctx {
    inner: std::rc::Rc<std::cell::RefCell<Inner>>,
    pub want_desc: bool,
    pub trace_on: bool,
    pub tier_thorough: bool,
    pub seed: u64,
}

impl Ctx {
    pub fn new(prefix: Vec<u32>, expect_chain: u64) -> Self {
        Ctx {
            inner: std::rc::Rc::new(std::cell::RefCell::new(Inner {
                prefix,
                expect_chain,
                choices: Vec::new(),
                arity: Vec::new(),
                free: Vec::new(),
                chain: Vec::new(),
                cur_chain: Fnv::default(),
                machinery_error: None,
                obs: Fnv::default(),
                nontrivial: false,
                ops: 0,
                evals: 0,
                counters: BTreeMap::new(),
                violations: Vec::new(),
                desc: String::new(),
            })),
            want_desc: false,
            trace_on: false,
            tier_thorough: false,
            seed: 0,
        }
    }
    fn point(&self, label: &str, arity: usize, free: bool) -> usize {
        assert!(arity >= 1, "choice point '{label}' with arity 0");
        let mut g = self.inner.borrow_mut();
        let s = &mut *g;
        let i = s.choices.len();
        s.cur_chain.str(label);
        s.cur_chain.u64(arity as u64);
        s.cur_chain.u64(free as u64);
        let c = if i < s.prefix.len() {
            let c = s.prefix[i];
            if c as usize >= arity && s.machinery_error.is_none() {
                s.machinery_error = Some(format!(
                    "nondeterminism: replayed choice {c} out of range at point {i} '{label}' (arity {arity})"
                ));
            }
            if i + 1 == s.prefix.len() && s.cur_chain.0 != s.expect_chain && s.expect_chain != 0 && s.machinery_error.is_none() {
                s.machinery_error = Some(format!(
                    "nondeterminism: label/arity chain differs at point {i} '{label}' while replaying a prefix"
                ));
            }
            (c as usize).min(arity - 1)
        } else {
            0
        };
        s.choices.push(c as u32);
        s.arity.push(arity as u32);
        s.free.push(free);
        let ch = s.cur_chain.0;
        s.chain.push(ch);
        if self.trace_on {
            eprintln!("  [choice {i}] {label}{} = {c} of {arity}", if free { " (free)" } else { "" });
        }
        c
    }
    /// deviation-counted choice: answer 0 is the default behaviour
    pub fn choose(&self, label: &str, arity: usize) -> usize {
        self.point(label, arity, false)
    }
    /// free choice: part of the enumerated product, not a deviation
    pub fn pick(&self, label: &str, arity: usize) -> usize {
        self.point(label, arity, true)
    }
    pub fn flag(&self, label: &str) -> bool {
        self.choose(label, 2) == 1
    }
    pub fn observe(&self, b: &[u8]) {
        let mut g = self.inner.borrow_mut();
        g.obs.u64(b.len() as u64);
        g.obs.bytes(b);
    }
    pub fn observe_u64(&self, v: u64) {
        self.inner.borrow_mut().obs.u64(v);
    }
    pub fn observe_str(&self, s: &str) {
        self.inner.borrow_mut().obs.str(s);
    }
    pub fn count(&self, key: impl Into<String>) {
        *self.inner.borrow_mut().counters.entry(key.into()).or_insert(0) += 1;
    }
    pub fn count_n(&self, key: impl Into<String>, n: u64) {
        *self.inner.borrow_mut().counters.entry(key.into()).or_insert(0) += n;
    }
    pub fn op(&self) {
        self.inner.borrow_mut().ops += 1;
    }
    pub fn ops(&self, n: u64) {
        self.inner.borrow_mut().ops += n;
    }
    pub fn evals(&self, n: u64) {
        self.inner.borrow_mut().evals += n;
    }
    pub fn nontrivial(&self) {
        self.inner.borrow_mut().nontrivial = true;
    }
    pub fn machinery_error(&self, m: impl Into<String>) {
        let mut g = self.inner.borrow_mut();
        if g.machinery_error.is_none() {
            g.machinery_error = Some(m.into());
        }
    }
    pub fn violation(&self, sig: impl Into<String>, detail: impl Into<String>) {
        let v = Violation { sig: sig.into(), detail: detail.into() };
        if self.trace_on {
            eprintln!("  !! VIOLATION {}: {}", v.sig, v.detail);
        }
        let mut g = self.inner.borrow_mut();
        g.obs.str(&v.sig);
        if g.violations.len() < 16 {
            g.violations.push(v);
        }
    }
    pub fn has_violation(&self) -> bool {
        !self.inner.borrow().violations.is_empty()
    }
    pub fn trace(&self, f: impl FnOnce() -> String) {
        if self.trace_on {
            eprintln!("  {}", f());
        }
    }
    pub fn describe(&self, f: impl FnOnce() -> String) {
        if self.want_desc || self.trace_on {
            let d = f();
            if self.trace_on {
                eprintln!("  case: {d}");
            }
            self.inner.borrow_mut().desc = d;
        }
    }
    pub fn choices(&self) -> Vec<u32> {
        self.inner.borrow().choices.clone()
    }
}

pub type CaseFn = fn(&Ctx);

pub struct Reply {
    pub status: u8, // 0 ok, 1 violation, 2 machinery error
    pub obs: u64,
    pub nontrivial: bool,
    pub ops: u64,
    pub evals: u64,
    pub npoints: u32,
    pub counters: Vec<(String, u64)>,
    pub children: Vec<String>,
    pub violations: Vec<Violation>,
    pub desc: String,
    pub err: String,
}

fn esc(s: &str) -> String {
    let mut o = String::with_capacity(s.len());
    for c in s.chars() {
        match c {
            '\\' => o.push_str("\\\\"),
            '\t' => o.push_str("\\t"),
            '\n' => o.push_str("\\n"),
            '\r' => o.push_str("\\r"),
            '\x1e' => o.push_str("\\e"),
            '\x1f' => o.push_str("\\f"),
            c => o.push(c),
        }
    }
    o
}
fn unesc(s: &str) -> String {
    let mut o = String::with_capacity(s.len());
    let mut it = s.chars();
    while let Some(c) = it.next() {
        if c == '\\' {
            match it.next() {
                Some('t') => o.push('\t'),
                Some('n') => o.push('\n'),
                Some('r') => o.push('\r'),
                Some('e') => o.push('\x1e'),
                Some('f') => o.push('\x1f'),
                Some(x) => o.push(x),
                None => {}
            }
        } else {
            o.push(c);
        }
    }
    o
}

pub fn parse_choices(s: &str) -> Vec<u32> {
    if s.is_empty() {
        return Vec::new();
    }
    s.split(',').filter_map(|x| x.parse().ok()).collect()
}
pub fn fmt_choices(c: &[u32]) -> String {
    let mut s = String::new();
    for (i, x) in c.iter().enumerate() {
        if i > 0 {
            s.push(',');
        }
        s.push_str(&x.to_string());
    }
    s
}

/// child spec: "<devs>|<chain hex>|<choices>"
pub fn root_spec() -> String {
    "0|0|".to_string()
}
fn parse_spec(spec: &str) -> (u32, u64, Vec<u32>) {
    let mut it = spec.splitn(3, '|');
    let d = it.next().unwrap_or("0").parse().unwrap_or(0);
    let h = u64::from_str_radix(it.next().unwrap_or("0"), 16).unwrap_or(0);
    let c = parse_choices(it.next().unwrap_or(""));
    (d, h, c)
}
pub fn spec_level(spec: &str) -> usize {
    spec.split('|').next().and_then(|x| x.parse().ok()).unwrap_or(0)
}
pub fn spec_choices(spec: &str) -> Vec<u32> {
    parse_spec(spec).2
}

/// Classifier for panics that escape a case function (see `run_case`).
pub static ESCAPED_PANIC: std::sync::OnceLock<fn(&str) -> Option<(String, String)>> = std::sync::OnceLock::new();

pub struct RunOpts {
    pub bound: u32,
    pub want_desc: bool,
    pub trace: bool,
    pub thorough: bool,
    pub seed: u64,
}

/// Execute one case (in this process) and compute its children within `bound`.
pub fn run_case(f: CaseFn, spec: &str, o: &RunOpts) -> Reply {
    let (_d, chain, prefix) = parse_spec(spec);
    let plen = prefix.len();
    let mut ctx = Ctx::new(prefix, chain);
    ctx.want_desc = o.want_desc;
    ctx.trace_on = o.trace;
    ctx.tier_thorough = o.thorough;
    ctx.seed = o.seed;
    let res = std::panic::catch_unwind(std::panic::AssertUnwindSafe(|| f(&ctx)));
    if let Err(p) = res {
        let msg = panic_msg(&p);
        // A panic that escapes the case function is a harness bug - unless it was raised by the code
        // under test in a call the harness had not wrapped: the binary may register a classifier that
        // turns such a panic into a violation (signature, detail) of the property being checked.
        match ESCAPED_PANIC.get().and_then(|c| c(&msg)) {
            Some((sig, detail)) => ctx.violation(sig, detail),
            None => ctx.machinery_error(format!("harness panic: {msg}")),
        }
    }
    let mut guard = ctx.inner.borrow_mut();
    let c = &mut *guard;
    if c.choices.len() < plen && c.machinery_error.is_none() {
        c.machinery_error = Some(format!(
            "nondeterminism: case consumed only {} of {} replayed choices",
            c.choices.len(),
            plen
        ));
    }
    let mut children = Vec::new();
    if c.machinery_error.is_none() {
        let mut devs: u32 = 0;
        for i in 0..plen.min(c.choices.len()) {
            if !c.free[i] && c.choices[i] != 0 {
                devs += 1;
            }
        }
        for i in plen..c.choices.len() {
            let nd = if c.free[i] { devs } else { devs + 1 };
            if nd > o.bound {
                continue;
            }
            let head = fmt_choices(&c.choices[..i]);
            for alt in 1..c.arity[i] {
                let mut s = format!("{nd}|{:x}|", c.chain[i]);
                s.push_str(&head);
                if i > 0 {
                    s.push(',');
                }
                s.push_str(&alt.to_string());
                children.push(s);
            }
        }
    }
    let status = if c.machinery_error.is_some() {
        2
    } else if !c.violations.is_empty() {
        1
    } else {
        0
    };
    Reply {
        status,
        obs: c.obs.0,
        nontrivial: c.nontrivial,
        ops: c.ops,
        evals: c.evals.max(1),
        npoints: c.choices.len() as u32,
        counters: std::mem::take(&mut c.counters).into_iter().collect(),
        children,
        violations: std::mem::take(&mut c.violations),
        desc: std::mem::take(&mut c.desc),
        err: c.machinery_error.clone().unwrap_or_default(),
    }
}

pub fn panic_msg(p: &Box<dyn std::any::Any + Send>) -> String {
    if let Some(s) = p.downcast_ref::<&str>() {
        s.to_string()
    } else if let Some(s) = p.downcast_ref::<String>() {
        s.clone()
    } else {
        "<non-string panic>".to_string()
    }
}

fn encode_reply(r: &Reply) -> String {
    let mut s = String::with_capacity(256);
    s.push_str("R\t");
    s.push_str(&r.status.to_string());
    s.push('\t');
    s.push_str(&format!("{:x}", r.obs));
    s.push('\t');
    s.push_str(if r.nontrivial { "1" } else { "0" });
    s.push('\t');
    s.push_str(&r.ops.to_string());
    s.push('\t');
    s.push_str(&r.evals.to_string());
    s.push('\t');
    s.push_str(&r.npoints.to_string());
    s.push('\t');
    for (i, (k, v)) in r.counters.iter().enumerate() {
        if i > 0 {
            s.push(';');
        }
        s.push_str(&esc(k));
        s.push('=');
        s.push_str(&v.to_string());
    }
    s.push('\t');
    for (i, c) in r.children.iter().enumerate() {
        if i > 0 {
            s.push(' ');
        }
        s.push_str(c);
    }
    s.push('\t');
    for (i, v) in r.violations.iter().enumerate() {
        if i > 0 {
            s.push('\x1e');
        }
        s.push_str(&esc(&v.sig));
        s.push('\x1f');
        s.push_str(&esc(&v.detail));
    }
    s.push('\t');
    s.push_str(&esc(&r.desc));
    s.push('\t');
    s.push_str(&esc(&r.err));
    s
}

fn decode_reply(line: &str) -> Option<Reply> {
    let f: Vec<&str> = line.split('\t').collect();
    if f.len() != 12 || f[0] != "R" {
        return None;
    }
    let counters = if f[7].is_empty() {
        Vec::new()
    } else {
        f[7].split(';')
            .filter_map(|kv| {
                let (k, v) = kv.rsplit_once('=')?;
                Some((unesc(k), v.parse().ok()?))
            })
            .collect()
    };
    let children = if f[8].is_empty() { Vec::new() } else { f[8].split(' ').map(|s| s.to_string()).collect() };
    let violations = if f[9].is_empty() {
        Vec::new()
    } else {
        f[9].split('\x1e')
            .map(|v| {
                let (a, b) = v.split_once('\x1f').unwrap_or((v, ""));
                Violation { sig: unesc(a), detail: unesc(b) }
            })
            .collect()
    };
    Some(Reply {
        status: f[1].parse().ok()?,
        obs: u64::from_str_radix(f[2], 16).ok()?,
        nontrivial: f[3] == "1",
        ops: f[4].parse().ok()?,
        evals: f[5].parse().ok()?,
        npoints: f[6].parse().ok()?,
        counters,
        children,
        violations,
        desc: unesc(f[10]),
        err: unesc(f[11]),
    })
}

/// Worker loop: reads "<space>\t<bound>\t<wantdesc>\t<thorough>\t<seed>\t<spec>" lines, answers with reply lines.
pub fn worker_loop(lookup: &dyn Fn(&str) -> Option<CaseFn>) {
    let stdin = std::io::stdin();
    let stdout = std::io::stdout();
    let mut out = std::io::BufWriter::new(stdout.lock());
    for line in stdin.lock().lines() {
        let Ok(line) = line else { break };
        let f: Vec<&str> = line.splitn(6, '\t').collect();
        if f.len() != 6 {
            let _ = writeln!(out, "E\tbad request");
            let _ = out.flush();
            continue;
        }
        let Some(case) = lookup(f[0]) else {
            let _ = writeln!(out, "E\tunknown space {}", f[0]);
            let _ = out.flush();
            continue;
        };
        let o = RunOpts {
            bound: f[1].parse().unwrap_or(0),
            want_desc: f[2] == "1",
            trace: false,
            thorough: f[3] == "1",
            seed: f[4].parse().unwrap_or(0),
        };
        let r = run_case(case, f[5], &o);
        let _ = writeln!(out, "{}", encode_reply(&r));
        let _ = out.flush();
    }
}

// ------------------------------------------------------------------------------------------
// parent side

#[derive(Clone)]
pub struct ExploreCfg {
    pub space: String,
    pub bound: u32,
    pub workers: usize,
    /// argv of the worker process (e.g. [sh, -c, "ulimit -v N; exec mc worker"])
    pub worker_cmd: Vec<String>,
    pub case_timeout: Duration,
    pub deadline: Option<Instant>,
    pub max_cases: u64,
    pub n_samples: usize,
    pub max_violations: usize,
    pub thorough: bool,
    pub seed: u64,
    pub recheck_every: u64,
    /// keep (choices, observation hash) of every case (for cross-build comparisons)
    pub record_obs: bool,
    /// when the property itself demands deterministic behaviour of the code under test: report a
    /// case whose two executions differ as a violation with this signature (default: the run is
    /// aborted as a machinery error, because nothing else it reports could be trusted)
    pub nondeterminism_signature: Option<String>,
}

#[derive(Clone, Debug)]
pub struct ViolationRec {
    pub choices: Vec<u32>,
    pub sig: String,
    pub detail: String,
    pub desc: String,
    pub kind: &'static str, // "oracle" | "crash" | "timeout"
}

#[derive(Default, Debug)]
pub struct ExploreResult {
    pub space: String,
    pub bound: u32,
    pub executions: u64,
    pub evals: u64,
    pub ops: u64,
    pub points: u64,
    pub max_points: u32,
    pub distinct_obs: u64,
    pub distinct_nontrivial: u64,
    pub counters: BTreeMap<String, u64>,
    pub violations: Vec<ViolationRec>,
    pub violations_total: u64,
    pub samples: Vec<(Vec<u32>, String)>,
    pub per_level: Vec<u64>,
    pub completed_bound: i64,
    pub capped: bool,
    pub machinery_errors: Vec<String>,
    pub rechecked: u64,
    pub flaky_crashes: u64,
    pub wall_s: f64,
    pub obs_by_case: Vec<(String, u64)>,
}

struct Shared {
    levels: Vec<VecDeque<String>>,
    inflight: Vec<u64>,
    outstanding: u64,
    stop: bool,
    res: ExploreResult,
    obs: HashSet<u64>,
    obs_nt: HashSet<u64>,
    dispatched: u64,
}

struct Worker {
    child: Arc<Mutex<Child>>,
    stdin: ChildStdin,
    stdout: BufReader<ChildStdout>,
}

fn spawn_worker(cmd: &[String]) -> std::io::Result<Worker> {
    let mut c = Command::new(&cmd[0]);
    c.args(&cmd[1..]).stdin(Stdio::piped()).stdout(Stdio::piped()).stderr(Stdio::null());
    let mut child = c.spawn()?;
    let stdin = child.stdin.take().expect("stdin");
    let stdout = BufReader::with_capacity(1 << 16, child.stdout.take().expect("stdout"));
    Ok(Worker { child: Arc::new(Mutex::new(child)), stdin, stdout })
}

struct Slot {
    since: Option<Instant>,
    child: Option<Arc<Mutex<Child>>>,
    timed_out: bool,
    /// processor time of the worker process sampled by the watchdog for the case that started at `.0`
    cpu_mark: Option<(Instant, f64)>,
}

/// user + system time of a process in seconds (Linux /proc, 10 ms ticks); None where unavailable
fn process_cpu_seconds(pid: u32) -> Option<f64> {
    let s = std::fs::read_to_string(format!("/proc/{pid}/stat")).ok()?;
    let rest = &s[s.rfind(')')? + 1..];
    let f: Vec<&str> = rest.split_whitespace().collect();
    let utime: u64 = f.get(11)?.parse().ok()?;
    let stime: u64 = f.get(12)?.parse().ok()?;
    Some((utime + stime) as f64 / 100.0)
}

fn request_line(cfg: &ExploreCfg, want_desc: bool, spec: &str) -> String {
    format!(
        "{}\t{}\t{}\t{}\t{}\t{}\n",
        cfg.space,
        cfg.bound,
        if want_desc { 1 } else { 0 },
        if cfg.thorough { 1 } else { 0 },
        cfg.seed,
        spec
    )
}

enum Rx {
    Reply(Reply),
    Dead(String),
    Proto(String),
}

fn read_reply(w: &mut Worker) -> Rx {
    let mut line = String::new();
    match w.stdout.read_line(&mut line) {
        Ok(0) | Err(_) => {
            let st = w.child.lock().map(|mut c| c.wait().map(|s| s.to_string()).unwrap_or_default()).unwrap_or_default();
            Rx::Dead(st)
        }
        Ok(_) => {
            let t = line.trim_end_matches('\n');
            match decode_reply(t) {
                Some(r) => Rx::Reply(r),
                None => Rx::Proto(t.chars().take(200).collect()),
            }
        }
    }
}

pub fn explore(cfg: &ExploreCfg) -> ExploreResult {
    let t0 = Instant::now();
    let nlev = cfg.bound as usize + 1;
    let mut levels = vec![VecDeque::new(); nlev];
    levels[0].push_back(root_spec());
    let shared = Arc::new((
        Mutex::new(Shared {
            levels,
            inflight: vec![0; nlev],
            outstanding: 1,
            stop: false,
            res: ExploreResult { space: cfg.space.clone(), bound: cfg.bound, per_level: vec![0; nlev], ..Default::default() },
            obs: HashSet::new(),
            obs_nt: HashSet::new(),
            dispatched: 0,
        }),
        Condvar::new(),
    ));
    let slots: Arc<Vec<Mutex<Slot>>> =
        Arc::new((0..cfg.workers).map(|_| Mutex::new(Slot { since: None, child: None, timed_out: false, cpu_mark: None })).collect());
    let done_flag = Arc::new(Mutex::new(false));

    // watchdog
    let wd = {
        let slots = slots.clone();
        let done = done_flag.clone();
        let to = cfg.case_timeout;
        std::thread::spawn(move || loop {
            std::thread::sleep(Duration::from_millis(100));
            if *done.lock().unwrap() {
                break;
            }
            for s in slots.iter() {
                let mut s = s.lock().unwrap();
                if let (Some(t), Some(ch)) = (s.since, s.child.clone()) {
                    // The limit is meant for the work of the case, not for the machine: on a crowded
                    // machine a case may wait for the processor most of the time. A worker is killed
                    // when the limit has passed on the wall clock AND the worker itself has used that
                    // much processor time since the case started - or, as a guard against workers
                    // that sleep forever, after eight times the limit whatever it used.
                    let pid = ch.lock().map(|c| c.id()).unwrap_or(0);
                    let now_cpu = process_cpu_seconds(pid);
                    match s.cpu_mark {
                        Some((t0, _)) if t0 == t => {}
                        _ => s.cpu_mark = now_cpu.map(|c| (t, c)),
                    }
                    let used = match (s.cpu_mark, now_cpu) {
                        (Some((_, c0)), Some(c1)) => Some(c1 - c0),
                        _ => None,
                    };
                    let wall = t.elapsed();
                    let over = wall > to && (used.map_or(true, |u| u > to.as_secs_f64()) || wall > to * 8);
                    if over {
                        let _ = ch.lock().map(|mut c| c.kill());
                        s.timed_out = true;
                        s.since = None;
                        s.cpu_mark = None;
                    }
                } else {
                    s.cpu_mark = None;
                }
            }
        })
    };

    let mut handles = Vec::new();
    for wi in 0..cfg.workers {
        let shared = shared.clone();
        let slots = slots.clone();
        let cfg = cfg.clone();
        handles.push(std::thread::spawn(move || parent_thread(wi, &cfg, &shared, &slots)));
    }
    for h in handles {
        let _ = h.join();
    }
    *done_flag.lock().unwrap() = true;
    let _ = wd.join();

    let mut g = shared.0.lock().unwrap();
    let mut res = std::mem::take(&mut g.res);
    res.distinct_obs = g.obs.len() as u64;
    res.distinct_nontrivial = g.obs_nt.len() as u64;
    // completed bound: highest level such that all levels up to it are drained
    let mut cb: i64 = -1;
    for l in 0..nlev {
        if g.levels[l].is_empty() && g.inflight[l] == 0 {
            cb = l as i64;
        } else {
            break;
        }
    }
    res.completed_bound = cb;
    res.capped = cb < cfg.bound as i64;
    res.violations.sort_by(|a, b| (a.choices.len(), &a.choices, &a.sig).cmp(&(b.choices.len(), &b.choices, &b.sig)));
    res.samples.sort();
    res.obs_by_case.sort();
    res.wall_s = t0.elapsed().as_secs_f64();
    res
}

fn parent_thread(wi: usize, cfg: &ExploreCfg, shared: &Arc<(Mutex<Shared>, Condvar)>, slots: &Arc<Vec<Mutex<Slot>>>) {
    let (mx, cv) = (&shared.0, &shared.1);
    let mut worker: Option<Worker> = None;
    loop {
        // fetch a batch
        let mut batch: Vec<(usize, String, bool)> = Vec::new();
        {
            let mut g = mx.lock().unwrap();
            loop {
                if g.stop || g.outstanding == 0 {
                    cv.notify_all();
                    drop(g);
                    if let Some(w) = worker.take() {
                        drop(w.stdin);
                        let _ = w.child.lock().map(|mut c| c.wait());
                    }
                    return;
                }
                if let Some(dl) = cfg.deadline {
                    if Instant::now() > dl {
                        g.stop = true;
                        continue;
                    }
                }
                if g.dispatched >= cfg.max_cases {
                    g.stop = true;
                    continue;
                }
                let queued: usize = g.levels.iter().map(|l| l.len()).sum();
                if queued == 0 {
                    g = cv.wait_timeout(g, Duration::from_millis(50)).unwrap().0;
                    continue;
                }
                let want = (queued / (2 * cfg.workers) + 1).min(8);
                for l in 0..g.levels.len() {
                    while batch.len() < want {
                        if let Some(s) = g.levels[l].pop_front() {
                            g.inflight[l] += 1;
                            g.dispatched += 1;
                            let wd = (g.res.samples.len() + batch.len()) < cfg.n_samples;
                            batch.push((l, s, wd));
                        } else {
                            break;
                        }
                    }
                    if !batch.is_empty() {
                        // keep strict level priority: do not mix levels in one batch
                        break;
                    }
                }
                break;
            }
        }
        if batch.is_empty() {
            continue;
        }
        // make sure we have a worker
        if worker.is_none() {
            match spawn_worker(&cfg.worker_cmd) {
                Ok(w) => {
                    slots[wi].lock().unwrap().child = Some(w.child.clone());
                    worker = Some(w);
                }
                Err(e) => {
                    let mut g = mx.lock().unwrap();
                    g.res.machinery_errors.push(format!("cannot spawn worker: {e}"));
                    g.stop = true;
                    cv.notify_all();
                    return;
                }
            }
        }
        let w = worker.as_mut().unwrap();
        let mut req = String::new();
        for (_, s, wd) in &batch {
            req.push_str(&request_line(cfg, *wd, s));
        }
        let wrote = w.stdin.write_all(req.as_bytes()).and_then(|_| w.stdin.flush()).is_ok();
        let mut idx = 0;
        let mut dead: Option<String> = None;
        if !wrote {
            dead = Some("write failed".into());
        }
        let mut pending: Vec<(usize, String, Reply)> = Vec::new();
        while dead.is_none() && idx < batch.len() {
            slots[wi].lock().unwrap().since = Some(Instant::now());
            let rx = read_reply(w);
            slots[wi].lock().unwrap().since = None;
            match rx {
                Rx::Reply(r) => {
                    let (lvl, spec, _) = &batch[idx];
                    let recheck = {
                        let g = mx.lock().unwrap();
                        r.status == 1
                            || (cfg.recheck_every > 0 && (g.res.executions + pending.len() as u64) % cfg.recheck_every == cfg.recheck_every - 1)
                    };
                    if recheck && r.status != 2 {
                        pending.push((*lvl, spec.clone(), r));
                    } else {
                        handle_reply(cfg, mx, cv, *lvl, spec, r, None);
                    }
                    idx += 1;
                }
                Rx::Dead(st) => dead = Some(st),
                Rx::Proto(p) => {
                    let mut g = mx.lock().unwrap();
                    g.res.machinery_errors.push(format!("worker protocol error: '{p}'"));
                    g.stop = true;
                    dead = Some("protocol".into());
                }
            }
        }
        // replay-twice rule: re-run violating cases (and every n-th passing one) once the batch is drained
        for (lvl, spec, r) in pending {
            let mut second: Option<Result<Reply, String>> = None;
            if dead.is_none() {
                let req = request_line(cfg, true, &spec);
                if w.stdin.write_all(req.as_bytes()).and_then(|_| w.stdin.flush()).is_ok() {
                    slots[wi].lock().unwrap().since = Some(Instant::now());
                    let rx = read_reply(w);
                    slots[wi].lock().unwrap().since = None;
                    second = Some(match rx {
                        Rx::Reply(r2) => Ok(r2),
                        Rx::Dead(st) => {
                            dead = Some(st.clone());
                            idx = batch.len();
                            Err(format!("worker died ({st}) while re-running case {spec}"))
                        }
                        Rx::Proto(p) => Err(format!("protocol error while re-running case {spec}: {p}")),
                    });
                }
            }
            handle_reply(cfg, mx, cv, lvl, &spec, r, second);
        }
        if let Some(st) = dead {
            // worker died while running batch[idx]
            let timed_out = {
                let mut s = slots[wi].lock().unwrap();
                let t = s.timed_out;
                s.timed_out = false;
                s.child = None;
                t
            };
            worker = None;
            if idx < batch.len() {
                let (lvl, spec, _) = batch[idx].clone();
                // confirm alone in a fresh worker
                let confirmed = confirm_death(cfg, &spec, wi, slots);
                let mut g = mx.lock().unwrap();
                match confirmed {
                    Some((st2, to2)) => {
                        let kind = if timed_out || to2 { "timeout" } else { "crash" };
                        g.res.violations_total += 1;
                        if g.res.violations.len() < cfg.max_violations {
                            let sig = format!("{}/{}", kind, cfg.space);
                            g.res.violations.push(ViolationRec {
                                choices: spec_choices(&spec),
                                sig,
                                detail: format!("worker process died ({st} / {st2}) while executing this case{}", if kind == "timeout" { " (watchdog)" } else { "" }),
                                desc: String::new(),
                                kind: if kind == "timeout" { "timeout" } else { "crash" },
                            });
                        }
                    }
                    None => {
                        g.res.flaky_crashes += 1;
                        g.res.machinery_errors.push(format!(
                            "worker died ({st}) on case {spec} but the case passed when re-run alone"
                        ));
                    }
                }
                g.res.executions += 1;
                g.res.per_level[lvl] += 1;
                g.inflight[lvl] -= 1;
                g.outstanding -= 1;
                // re-queue the rest of the batch
                for (l, s, _) in batch.iter().skip(idx + 1) {
                    g.inflight[*l] -= 1;
                    g.dispatched -= 1;
                    g.levels[*l].push_front(s.clone());
                }
                cv.notify_all();
            }
        }
    }
}

fn confirm_death(cfg: &ExploreCfg, spec: &str, wi: usize, slots: &Arc<Vec<Mutex<Slot>>>) -> Option<(String, bool)> {
    let mut w = spawn_worker(&cfg.worker_cmd).ok()?;
    slots[wi].lock().unwrap().child = Some(w.child.clone());
    let req = request_line(cfg, false, spec);
    let _ = w.stdin.write_all(req.as_bytes()).and_then(|_| w.stdin.flush());
    slots[wi].lock().unwrap().since = Some(Instant::now());
    let rx = read_reply(&mut w);
    let to = {
        let mut s = slots[wi].lock().unwrap();
        s.since = None;
        s.child = None;
        let t = s.timed_out;
        s.timed_out = false;
        t
    };
    match rx {
        Rx::Dead(st) => Some((st, to)),
        _ => {
            drop(w.stdin);
            let _ = w.child.lock().map(|mut c| {
                let _ = c.kill();
                c.wait()
            });
            None
        }
    }
}

fn handle_reply(
    cfg: &ExploreCfg,
    mx: &Mutex<Shared>,
    cv: &Condvar,
    lvl: usize,
    spec: &str,
    r: Reply,
    second: Option<Result<Reply, String>>,
) {
    let mut desc = r.desc.clone();
    let mut mach: Option<String> = None;
    let mut rechecked = 0;
    match second {
        Some(Ok(r2)) => {
            rechecked = 1;
            let s1: Vec<&str> = r.violations.iter().map(|v| v.sig.as_str()).collect();
            let s2: Vec<&str> = r2.violations.iter().map(|v| v.sig.as_str()).collect();
            if r2.obs != r.obs || s1 != s2 || r2.status != r.status {
                mach = Some(format!(
                    "nondeterministic replay of case {spec}: obs {:x} vs {:x}, sigs {:?} vs {:?}",
                    r.obs, r2.obs, s1, s2
                ));
            }
            desc = r2.desc;
        }
        Some(Err(e)) => mach = Some(e),
        None => {}
    }
    let mut g = mx.lock().unwrap();
    g.res.executions += 1;
    g.res.rechecked += rechecked;
    g.res.per_level[lvl] += 1;
    g.res.evals += r.evals;
    g.res.ops += r.ops;
    g.res.points += r.npoints as u64;
    g.res.max_points = g.res.max_points.max(r.npoints);
    g.obs.insert(r.obs);
    if cfg.record_obs {
        let key = spec.rsplit('|').next().unwrap_or("").to_string();
        g.res.obs_by_case.push((key, r.obs));
    }
    if r.nontrivial {
        g.obs_nt.insert(r.obs);
    }
    for (k, v) in r.counters {
        *g.res.counters.entry(k).or_insert(0) += v;
    }
    if r.status == 2 {
        g.res.machinery_errors.push(format!("case {spec}: {}", r.err));
        g.stop = true;
    }
    if let Some(m) = mach {
        match &cfg.nondeterminism_signature {
            Some(sig) if m.starts_with("nondeterministic replay") => {
                g.res.violations_total += 1;
                if g.res.violations.len() < cfg.max_violations {
                    g.res.violations.push(ViolationRec {
                        choices: spec_choices(spec),
                        sig: sig.clone(),
                        detail: format!("two executions of the same case in different worker processes give different results ({m}); case: {desc}"),
                        desc: desc.clone(),
                        kind: "oracle",
                    });
                }
            }
            _ => {
                g.res.machinery_errors.push(m);
                g.stop = true;
            }
        }
    }
    if !r.violations.is_empty() {
        g.res.violations_total += r.violations.len() as u64;
        for v in r.violations {
            if g.res.violations.len() < cfg.max_violations {
                g.res.violations.push(ViolationRec {
                    choices: spec_choices(spec),
                    sig: v.sig,
                    detail: v.detail,
                    desc: desc.clone(),
                    kind: "oracle",
                });
            }
        }
    }
    if !r.desc.is_empty() && g.res.samples.len() < cfg.n_samples {
        g.res.samples.push((spec_choices(spec), r.desc));
    } else if !desc.is_empty() && g.res.samples.len() < cfg.n_samples {
        g.res.samples.push((spec_choices(spec), desc));
    }
    for c in r.children {
        let l = spec_level(&c);
        if l < g.levels.len() {
            g.levels[l].push_back(c);
            g.outstanding += 1;
        }
    }
    g.inflight[lvl] -= 1;
    g.outstanding -= 1;
    cv.notify_all();
}

#[cfg(test)]
mod tests {
    use super::*;

    fn demo(ctx: &Ctx) {
        let a = ctx.pick("a", 3);
        let b = ctx.choose("b", 2);
        let c = if b == 1 { ctx.choose("c", 4) } else { 0 };
        ctx.observe_u64((a * 100 + b * 10 + c) as u64);
        if a == 2 && c == 3 {
            ctx.violation("demo", "a=2,c=3");
        }
    }

    #[test]
    fn dfs_in_process() {
        // enumerate with a simple in-process loop
        let o = RunOpts { bound: 2, want_desc: false, trace: false, thorough: false, seed: 0 };
        let mut q = vec![root_spec()];
        let mut n = 0;
        let mut viol = 0;
        let mut seen = HashSet::new();
        while let Some(s) = q.pop() {
            let r = run_case(demo, &s, &o);
            assert_eq!(r.status == 1, !r.violations.is_empty());
            n += 1;
            viol += r.violations.len();
            assert!(seen.insert(r.obs));
            q.extend(r.children);
        }
        // a in 0..3, (b=0) | (b=1, c in 0..4)  => 3 * 5 = 15
        assert_eq!(n, 15);
        assert_eq!(viol, 1);
    }

    #[test]
    fn bound_limits() {
        let o = RunOpts { bound: 1, want_desc: false, trace: false, thorough: false, seed: 0 };
        let mut q = vec![root_spec()];
        let mut n = 0;
        while let Some(s) = q.pop() {
            let r = run_case(demo, &s, &o);
            n += 1;
            q.extend(r.children);
        }
        // b=1 is one deviation, c!=0 would be a second: 3 * (1 + 1) = 6
        assert_eq!(n, 6);
    }
}
