//! Minimal JSON value, writer and parser (zero dependencies).

#[derive(Clone, Debug, PartialEq)]
pub enum J {
    Null,
    Bool(bool),
    Int(i64),
    Num(f64),
    Str(String),
    Arr(Vec<J>),
    Obj(Vec<(String, J)>),
}

impl J {
    pub fn obj() -> J {
        J::Obj(Vec::new())
    }
    pub fn s(v: impl Into<String>) -> J {
        J::Str(v.into())
    }
    pub fn set(&mut self, k: &str, v: J) -> &mut J {
        if let J::Obj(o) = self {
            if let Some(e) = o.iter_mut().find(|(kk, _)| kk == k) {
                e.1 = v;
            } else {
                o.push((k.to_string(), v));
            }
        }
        self
    }
    pub fn with(mut self, k: &str, v: J) -> J {
        self.set(k, v);
        self
    }
    pub fn get(&self, k: &str) -> Option<&J> {
        match self {
            J::Obj(o) => o.iter().find(|(kk, _)| kk == k).map(|(_, v)| v),
            _ => None,
        }
    }
    pub fn as_str(&self) -> Option<&str> {
        match self {
            J::Str(s) => Some(s),
            _ => None,
        }
    }
    pub fn as_i64(&self) -> Option<i64> {
        match self {
            J::Int(i) => Some(*i),
            J::Num(n) => Some(*n as i64),
            _ => None,
        }
    }
    pub fn as_arr(&self) -> Option<&[J]> {
        match self {
            J::Arr(a) => Some(a),
            _ => None,
        }
    }
    pub fn to_string_pretty(&self) -> String {
        let mut s = String::new();
        self.write(&mut s, 0, true);
        s.push('\n');
        s
    }
    pub fn to_string_compact(&self) -> String {
        let mut s = String::new();
        self.write(&mut s, 0, false);
        s
    }
    fn write(&self, out: &mut String, ind: usize, pretty: bool) {
        match self {
            J::Null => out.push_str("null"),
            J::Bool(b) => out.push_str(if *b { "true" } else { "false" }),
            J::Int(i) => out.push_str(&i.to_string()),
            J::Num(n) => {
                if n.is_finite() {
                    let s = format!("{n}");
                    out.push_str(&s);
                    if !s.contains('.') && !s.contains('e') && !s.contains('E') {
                        out.push_str(".0");
                    }
                } else {
                    out.push_str("null")
                }
            }
            J::Str(s) => write_str(out, s),
            J::Arr(a) => {
                if a.is_empty() {
                    out.push_str("[]");
                    return;
                }
                out.push('[');
                for (i, v) in a.iter().enumerate() {
                    if i > 0 {
                        out.push(',');
                    }
                    if pretty {
                        out.push('\n');
                        out.push_str(&" ".repeat(ind + 1));
                    }
                    v.write(out, ind + 1, pretty);
                }
                if pretty {
                    out.push('\n');
                    out.push_str(&" ".repeat(ind));
                }
                out.push(']');
            }
            J::Obj(o) => {
                if o.is_empty() {
                    out.push_str("{}");
                    return;
                }
                out.push('{');
                for (i, (k, v)) in o.iter().enumerate() {
                    if i > 0 {
                        out.push(',');
                    }
                    if pretty {
                        out.push('\n');
                        out.push_str(&" ".repeat(ind + 1));
                    }
                    write_str(out, k);
                    out.push(':');
                    if pretty {
                        out.push(' ');
                    }
                    v.write(out, ind + 1, pretty);
                }
                if pretty {
                    out.push('\n');
                    out.push_str(&" ".repeat(ind));
                }
                out.push('}');
            }
        }
    }
    pub fn parse(s: &str) -> Result<J, String> {
        let mut p = P { b: s.as_bytes(), i: 0 };
        p.ws();
        let v = p.val()?;
        p.ws();
        if p.i != p.b.len() {
            return Err(format!("trailing data at {}", p.i));
        }
        Ok(v)
    }
}

fn write_str(out: &mut String, s: &str) {
    out.push('"');
    for c in s.chars() {
        match c {
            '"' => out.push_str("\\\""),
            '\\' => out.push_str("\\\\"),
            '\n' => out.push_str("\\n"),
            '\r' => out.push_str("\\r"),
            '\t' => out.push_str("\\t"),
            c if (c as u32) < 0x20 => out.push_str(&format!("\\u{:04x}", c as u32)),
            c => out.push(c),
        }
    }
    out.push('"');
}

struct P<'a> {
    b: &'a [u8],
    i: usize,
}

impl P<'_> {
    fn ws(&mut self) {
        while self.i < self.b.len() && matches!(self.b[self.i], b' ' | b'\n' | b'\r' | b'\t') {
            self.i += 1;
        }
    }
    fn val(&mut self) -> Result<J, String> {
        self.ws();
        if self.i >= self.b.len() {
            return Err("eof".into());
        }
        match self.b[self.i] {
            b'{' => {
                self.i += 1;
                let mut o = Vec::new();
                self.ws();
                if self.peek() == Some(b'}') {
                    self.i += 1;
                    return Ok(J::Obj(o));
                }
                loop {
                    self.ws();
                    let k = self.string()?;
                    self.ws();
                    if self.peek() != Some(b':') {
                        return Err(format!("expected : at {}", self.i));
                    }
                    self.i += 1;
                    let v = self.val()?;
                    o.push((k, v));
                    self.ws();
                    match self.peek() {
                        Some(b',') => self.i += 1,
                        Some(b'}') => {
                            self.i += 1;
                            return Ok(J::Obj(o));
                        }
                        _ => return Err(format!("expected , or }} at {}", self.i)),
                    }
                }
            }
            b'[' => {
                self.i += 1;
                let mut a = Vec::new();
                self.ws();
                if self.peek() == Some(b']') {
                    self.i += 1;
                    return Ok(J::Arr(a));
                }
                loop {
                    a.push(self.val()?);
                    self.ws();
                    match self.peek() {
                        Some(b',') => self.i += 1,
                        Some(b']') => {
                            self.i += 1;
                            return Ok(J::Arr(a));
                        }
                        _ => return Err(format!("expected , or ] at {}", self.i)),
                    }
                }
            }
            b'"' => Ok(J::Str(self.string()?)),
            b't' if self.b[self.i..].starts_with(b"true") => {
                self.i += 4;
                Ok(J::Bool(true))
            }
            b'f' if self.b[self.i..].starts_with(b"false") => {
                self.i += 5;
                Ok(J::Bool(false))
            }
            b'n' if self.b[self.i..].starts_with(b"null") => {
                self.i += 4;
                Ok(J::Null)
            }
            _ => {
                let st = self.i;
                while self.i < self.b.len()
                    && matches!(self.b[self.i], b'-' | b'+' | b'.' | b'e' | b'E' | b'0'..=b'9')
                {
                    self.i += 1;
                }
                let t = std::str::from_utf8(&self.b[st..self.i]).map_err(|e| e.to_string())?;
                if let Ok(i) = t.parse::<i64>() {
                    Ok(J::Int(i))
                } else {
                    t.parse::<f64>().map(J::Num).map_err(|_| format!("bad number '{t}' at {st}"))
                }
            }
        }
    }
    fn peek(&self) -> Option<u8> {
        self.b.get(self.i).copied()
    }
    fn string(&mut self) -> Result<String, String> {
        if self.peek() != Some(b'"') {
            return Err(format!("expected string at {}", self.i));
        }
        self.i += 1;
        let mut out: Vec<u8> = Vec::new();
        loop {
            let c = *self.b.get(self.i).ok_or("eof in string")?;
            self.i += 1;
            match c {
                b'"' => break,
                b'\\' => {
                    let e = *self.b.get(self.i).ok_or("eof in escape")?;
                    self.i += 1;
                    match e {
                        b'n' => out.push(b'\n'),
                        b'r' => out.push(b'\r'),
                        b't' => out.push(b'\t'),
                        b'b' => out.push(8),
                        b'f' => out.push(12),
                        b'u' => {
                            let h = std::str::from_utf8(&self.b[self.i..self.i + 4]).map_err(|e| e.to_string())?;
                            let cp = u32::from_str_radix(h, 16).map_err(|e| e.to_string())?;
                            self.i += 4;
                            let ch = char::from_u32(cp).unwrap_or('\u{fffd}');
                            let mut buf = [0u8; 4];
                            out.extend_from_slice(ch.encode_utf8(&mut buf).as_bytes());
                        }
                        o => out.push(o),
                    }
                }
                o => out.push(o),
            }
        }
        String::from_utf8(out).map_err(|e| e.to_string())
    }
}

#[cfg(test)]
mod tests {
    use super::*;
    #[test]
    fn roundtrip() {
        let v = J::obj()
            .with("a", J::Int(3))
            .with("b", J::Arr(vec![J::s("x\"\n"), J::Null, J::Bool(true), J::Num(1.5)]));
        let s = v.to_string_pretty();
        assert_eq!(J::parse(&s).unwrap(), v);
    }
}
