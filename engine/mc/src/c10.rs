//! C10 — writer API is total and never stores what it cannot represent.

use crate::alpha::*;
use crate::cat::{self, ext_rec, rec, F32, F64};
use crate::conv::*;
use crate::dev::{Dev, Src};
use crate::harness::{err_string, guarded, pattern};
use crate::oracle::*;
use crate::wprog::*;
use e57::{E57Writer, Extension, RawValues, Record};
use e57spec::model::{self as m, Rec, Ty, Val};
use explore::Ctx;

const P: &str = "C10";

// ------------------------------------------------------------------------------------------
// prototype space

const N_NAMES: usize = 25;
fn name_k(k: usize, ty: Ty) -> Rec {
    if k < 20 {
        rec(STD_NAMES[k], ty)
    } else {
        match k {
            20 => ext_rec("ext", "attr", ty),        // registered
            21 => ext_rec("nope", "attr", ty),       // unregistered namespace
            22 => ext_rec("ext", "", ty),            // empty name
            23 => ext_rec("ext", "xmlfoo", ty),      // reserved prefix
            _ => ext_rec("ext", "a.b", ty),          // illegal character
        }
    }
}

const N_TYPES: usize = 16;
fn type_k(k: usize) -> Ty {
    match k {
        0 => F32,
        1 => F64,
        2 => Ty::F32 { min: Some(0.0), max: Some(1.0) },
        3 => Ty::Int { min: 0, max: 1 },
        4 => Ty::Int { min: 0, max: 2 },
        5 => Ty::Int { min: 0, max: 255 },
        6 => Ty::Int { min: 5, max: 3 },
        7 => Ty::Int { min: 7, max: 7 },
        8 => Ty::Int { min: i64::MIN, max: i64::MAX },
        9 => Ty::Scaled { min: 0, max: 100, scale: 0.001, offset: 0.0 },
        10 => Ty::Scaled { min: -10, max: 10, scale: 0.0, offset: 1.0 },
        11 => Ty::Scaled { min: 0, max: 1, scale: f64::NAN, offset: 0.0 },
        12 => Ty::Int { min: i64::MIN, max: -1 },
        13 => Ty::Scaled { min: 10, max: 9, scale: 0.5, offset: 0.0 },
        14 => Ty::Scaled { min: i64::MAX, max: i64::MIN, scale: 1.0, offset: 0.0 },
        _ => Ty::Scaled { min: i64::MIN, max: i64::MAX, scale: 1.0, offset: 0.0 },
    }
}

/// The documented prototype rules (doc comments of RecordName, add_pointcloud error texts and
/// Extension docs), written as a plain predicate. Some(true/false) = rules decide; None = the
/// documentation does not say (duplicates): judged by "no panic" and "reads back" only.
pub fn documented_valid(proto: &[Rec], registered: &[&str]) -> Option<bool> {
    let has = |n: &str| proto.iter().any(|r| r.ns.is_none() && r.name == n);
    let get = |n: &str| proto.iter().find(|r| r.ns.is_none() && r.name == n);
    let is_int = |r: &Rec| matches!(r.ty, Ty::Int { .. });
    let is_range = |r: &Rec, lo: i64, hi: i64| matches!(r.ty, Ty::Int { min, max } if min == lo && max == hi);
    // value ranges must be representable
    for r in proto {
        if let Ty::Int { min, max } | Ty::Scaled { min, max, .. } = r.ty {
            if max < min {
                return Some(false);
            }
        }
    }
    for r in proto {
        if let Some(ns) = &r.ns {
            let ok_name = |s: &str| {
                !s.is_empty()
                    && !s.to_lowercase().starts_with("xml")
                    && s.chars().all(|c| c.is_ascii_alphanumeric() || c == '_' || c == '-')
                    && !s.starts_with(|c: char| c.is_ascii_digit() || c == '-')
            };
            if !ok_name(ns) || !ok_name(&r.name) || !registered.contains(&ns.as_str()) {
                return Some(false);
            }
        }
    }
    let cart = ["cartesianX", "cartesianY", "cartesianZ"].iter().filter(|n| has(n)).count();
    let sph = ["sphericalRange", "sphericalAzimuth", "sphericalElevation"].iter().filter(|n| has(n)).count();
    let col = ["colorRed", "colorGreen", "colorBlue"].iter().filter(|n| has(n)).count();
    if (cart != 0 && cart != 3) || (sph != 0 && sph != 3) || (col != 0 && col != 3) {
        return Some(false);
    }
    if cart == 0 && sph == 0 {
        return Some(false);
    }
    if let Some(r) = get("cartesianInvalidState") {
        if cart == 0 || !is_range(r, 0, 2) {
            return Some(false);
        }
    }
    if let Some(r) = get("sphericalInvalidState") {
        if sph == 0 || !is_range(r, 0, 2) {
            return Some(false);
        }
    }
    for n in ["sphericalAzimuth", "sphericalElevation"] {
        if let Some(r) = get(n) {
            if is_int(r) {
                return Some(false);
            }
        }
    }
    if let Some(r) = get("isColorInvalid") {
        if col == 0 || !is_range(r, 0, 1) {
            return Some(false);
        }
    }
    if let Some(r) = get("isIntensityInvalid") {
        if !has("intensity") || !is_range(r, 0, 1) {
            return Some(false);
        }
    }
    if let Some(r) = get("isTimeStampInvalid") {
        if !has("timeStamp") || !is_range(r, 0, 1) {
            return Some(false);
        }
    }
    let ret = ["returnCount", "returnIndex"].iter().filter(|n| has(n)).count();
    if ret == 1 {
        return Some(false);
    }
    for n in ["returnCount", "returnIndex", "rowIndex", "columnIndex"] {
        if let Some(r) = get(n) {
            if !is_int(r) {
                return Some(false);
            }
        }
    }
    // a record name can be used once: the records are the children of an E57 Structure, which are
    // identified by their element names (the reference implementation cannot even build or parse
    // a Structure with two children of one name)
    for (i, a) in proto.iter().enumerate() {
        if proto[..i].iter().any(|b| b.ns == a.ns && b.name == a.name) {
            return Some(false);
        }
    }
    Some(true)
}

fn judge_proto(ctx: &Ctx, proto: Vec<Rec>) {
    let n = [2usize, 0][ctx.pick("npoints", 2)];
    let mut cl = cloud(proto.clone(), n, 5);
    cl.cap = Some(1);
    let p = Program {
        guid: "g".into(),
        ops: vec![Op::Ext("ext".into(), "http://example.com/ext".into()), Op::Cloud(cl)],
        ..Default::default()
    };
    let verdict = documented_valid(&proto, &["ext"]);
    judge(ctx, &p, verdict, &proto);
}

fn judge(ctx: &Ctx, p: &Program, verdict: Option<bool>, proto: &[Rec]) {
    ctx.describe(|| describe(p));
    let dev = Dev::empty();
    let h = dev.handle();
    let run = run_program(dev, p, &ExecOpts::default());
    ctx.ops(run.api_calls);
    if let Some((i, pi)) = &run.panic {
        ctx.violation(
            format!("{P}/panic/{}", pi.class()),
            format!("writer panicked at {} ({}) during op #{i} of: {}", pi.loc, pi.msg, describe(p)),
        );
        return;
    }
    match (&run.err, verdict) {
        (Some((_, call, e)), Some(true)) => {
            ctx.violation(
                format!("{P}/valid-prototype-rejected/{call}/{}", msg_class(e)),
                format!("{call} returned Err({e}) for a prototype that follows the documented rules: {}", describe(p)),
            );
        }
        (Some((_, call, _)), _) => {
            ctx.count(format!("rejected-by:{call}"));
        }
        (None, Some(false)) => {
            ctx.violation(
                format!("{P}/invalid-prototype-accepted/{}", invalid_reason(proto)),
                format!("all calls returned Ok for a prototype that breaks the documented rules: {}", describe(p)),
            );
        }
        (None, _) => {
            // T3: everything succeeded => must read back
            let w = Written { bytes: h.snapshot(), run };
            if read_and_compare(ctx, p, &w, P, None).is_some() {
                ctx.nontrivial();
                ctx.count("accepted:roundtrip-ok");
                ctx.observe(&w.bytes);
            }
        }
    }
}

fn invalid_reason(proto: &[Rec]) -> String {
    for r in proto {
        if let Ty::Int { min, max } | Ty::Scaled { min, max, .. } = r.ty {
            if max < min {
                return "max-less-than-min".into();
            }
        }
    }
    for (i, a) in proto.iter().enumerate() {
        if proto[..i].iter().any(|b| b.ns == a.ns && b.name == a.name) {
            return "record-name-twice".into();
        }
    }
    for r in proto {
        if r.ns.is_some() {
            return "extension-name".into();
        }
    }
    "group-rule".into()
}

/// (i) all prototypes of length <= 2 over names x types
pub fn protos_short(ctx: &Ctx) {
    let len = ctx.pick("len", 3);
    let mut proto = Vec::new();
    for _ in 0..len {
        let n = ctx.pick("name", N_NAMES);
        let t = ctx.pick("type", N_TYPES);
        proto.push(name_k(n, type_k(t)));
    }
    judge_proto(ctx, proto);
}

/// (ii) valid base (XYZ f32 | spherical f64) + <= 2 extra records over names x types
pub fn protos_base(ctx: &Ctx) {
    let base = ctx.pick("base", 2 + N_TYPES);
    let mut proto = if base == 0 {
        cat::xyz(F32)
    } else if base == 1 {
        vec![rec("sphericalRange", F64), rec("sphericalAzimuth", F64), rec("sphericalElevation", F64)]
    } else {
        cat::xyz(type_k(base - 2))
    };
    // uniformly typed XYZ bases get at most one extra record (keeps the product within budget)
    let extra = ctx.pick("extras", if base < 2 { 3 } else { 2 });
    for _ in 0..extra {
        let n = ctx.pick("name", N_NAMES);
        let t = ctx.pick("type", N_TYPES);
        proto.push(name_k(n, type_k(t)));
    }
    judge_proto(ctx, proto);
}

/// (iii) each full-featured prototype with one record deleted / duplicated / retyped
pub fn protos_mutated(ctx: &Ctx) {
    let protos = cat::prototypes();
    let pi = ctx.pick("proto", protos.len());
    let mut proto = protos[pi].1.clone();
    let k = ctx.pick("record", proto.len());
    match ctx.pick("mutation", 2 + N_TYPES) {
        0 => {
            proto.remove(k);
        }
        1 => {
            let r = proto[k].clone();
            proto.insert(k, r);
        }
        t => proto[k].ty = type_k(t - 2),
    }
    judge_proto(ctx, proto);
}

/// (iv) all name sequences of length <= 4 over the nine coordinate / colour component names
/// (validly typed), i.e. every combination of missing and repeated group members
pub fn protos_groups(ctx: &Ctx) {
    const NAMES: [&str; 9] = ["cartesianX", "cartesianY", "cartesianZ", "sphericalRange", "sphericalAzimuth", "sphericalElevation", "colorRed", "colorGreen", "colorBlue"];
    let len = 1 + ctx.pick("len", 4);
    let mut proto = Vec::new();
    for _ in 0..len {
        let n = ctx.pick("name", NAMES.len());
        proto.push(rec(NAMES[n], if n < 6 { F32 } else { Ty::Int { min: 0, max: 255 } }));
    }
    judge_proto(ctx, proto);
}

/// the documented rule for extension namespace and attribute names, as a predicate of its own
pub fn ext_name_ok(s: &str) -> bool {
    !s.is_empty()
        && !s.to_lowercase().starts_with("xml")
        && s.chars().all(|c| c.is_ascii_alphanumeric() || c == '_' || c == '-')
        && !s.starts_with(|c: char| c.is_ascii_digit() || c == '-')
}

/// (iv-b) extension names: 30 candidates (the reserved word itself in every case, its prefixes and
/// extensions, every character class at the first / a later / the last position, empty, long) as
/// namespace prefix and as attribute name
pub fn names(ctx: &Ctx) {
    const CAND: [&str; 30] = [
        "xml", "XML", "Xml", "xMl", "xmL", "xm", "x", "xmlns", "xmla", "XMLa", "axml", "_xml", "_", "__", "-", "-a", "a-", "a-b", "9", "9a", "a9", "a_b", "a.b", "a b", "", "\u{e4}", "a:b", "a\u{e4}", "A", "Zz09_-",
    ];
    let c = CAND[ctx.pick("candidate", CAND.len())];
    let as_ns = ctx.pick("position", 2) == 0;
    let long = ctx.pick("long-variant", 2) == 1;
    let cand = if long { format!("{c}{}", "q".repeat(300)) } else { c.to_string() };
    let (ns, name) = if as_ns { (cand.clone(), "attr".to_string()) } else { ("ext".to_string(), cand.clone()) };
    let mut proto = cat::xyz(F32);
    proto.push(ext_rec(&ns, &name, Ty::Int { min: 0, max: 31 }));
    let mut cl = cloud(proto.clone(), 2, 5);
    cl.cap = Some(1);
    let p = Program { guid: "g".into(), ops: vec![Op::ExtTry(ns.clone(), "http://example.com/ext".into()), Op::Cloud(cl)], ..Default::default() };
    // the registration of a malformed prefix must fail, so that the prefix is not registered
    let registered: Vec<&str> = if ext_name_ok(&ns) { vec![ns.as_str()] } else { vec![] };
    let verdict = documented_valid(&proto, &registered);
    judge(ctx, &p, verdict, &proto);
}

/// (v) very wide prototypes: XYZ + k extension records of one kind, k around the sizes where a
/// single point stops fitting into a data packet (64-bit, 1-bit and zero-width records). Every
/// call must return (no hang, no panic, no arithmetic overflow); a refusal is acceptable, success
/// means the file reads back.
pub fn protos_wide(ctx: &Ctx) {
    let kind = ctx.pick("record-kind", 3);
    const RANGES: [(usize, usize); 4] = [(5880, 5930), (20790, 20830), (21650, 21700), (60, 64)];
    let ri = ctx.pick("size-range", RANGES.len());
    let k = RANGES[ri].0 + ctx.pick("records", RANGES[ri].1 - RANGES[ri].0);
    let ty = match kind {
        0 => F64,
        1 => Ty::Int { min: 0, max: 1 },
        _ => Ty::Int { min: 7, max: 7 },
    };
    let mut proto = cat::xyz(F32);
    for i in 0..k {
        proto.push(ext_rec("ext", &format!("a{i}"), ty.clone()));
    }
    let n = [1usize, 3][ctx.pick("npoints", 2)];
    let cl = cloud(proto.clone(), n, 5);
    let p = Program { guid: "g".into(), ops: vec![Op::Ext("ext".into(), "http://example.com/ext".into()), Op::Cloud(cl)], ..Default::default() };
    ctx.describe(|| format!("XYZ f32 + {k} extension records of type {} , {n} points", ty.describe()));
    let dev = Dev::empty();
    let h = dev.handle();
    let run = run_program(dev, &p, &ExecOpts::default());
    ctx.ops(run.api_calls);
    if let Some((i, pi)) = &run.panic {
        ctx.violation(format!("{P}/panic/{}", pi.class()), format!("writer panicked at {} ({}) during op #{i}: XYZ + {k} records of {}", pi.loc, pi.msg, ty.describe()));
        return;
    }
    match &run.err {
        Some((_, call, _)) => ctx.count(format!("wide:rejected-by:{call}")),
        None => {
            let w = Written { bytes: h.snapshot(), run };
            if read_and_compare(ctx, &p, &w, P, None).is_some() {
                ctx.count("wide:accepted-and-read-back");
                ctx.nontrivial();
            }
        }
    }
    ctx.observe_u64((kind * 100_000 + k * 2 + n) as u64);
}

/// (vi) strings that XML cannot carry (NUL, C0 controls, U+FFFE, U+FFFF) and carriage returns in
/// every string field: some call up to finalize must refuse them, or the file must read back
/// with exactly the strings that were handed in
pub fn strings(ctx: &Ctx) {
    const BAD: [&str; 12] = ["a\u{0}b", "\u{1}", "x\u{b}y", "\u{c}", "tail\u{1f}", "\u{fffe}", "q\u{ffff}", "a\rb", "\r", "line\r\nline", "\r\r\n", "ok \u{7f} \u{85} \u{2028}"];
    let bi = ctx.pick("string", BAD.len());
    let field = ctx.pick("field-rotation", 40);
    let img = ctx.pick("image-kind", 2) * 3;
    // the bad string lands in field number `field` (the list is rotated), harmless ones elsewhere
    let mut strings: Vec<String> = (0..40).map(|i| format!("s{i}")).collect();
    strings[0] = BAD[bi].to_string();
    let p = crate::c04::build_with(&strings, (40 - field) % 40, img);
    ctx.describe(|| format!("string {:?} in string field {field}: {}", BAD[bi], describe(&p)));
    let dev = Dev::empty();
    let h = dev.handle();
    let run = run_program(dev, &p, &ExecOpts::default());
    ctx.ops(run.api_calls);
    if let Some((i, pi)) = &run.panic {
        ctx.violation(format!("{P}/panic/{}", pi.class()), format!("writer panicked at {} ({}) during op #{i}", pi.loc, pi.msg));
        return;
    }
    match &run.err {
        Some((_, call, _)) => ctx.count(format!("unstorable-string:rejected-by:{call}")),
        None => {
            let w = Written { bytes: h.snapshot(), run };
            if read_and_compare(ctx, &p, &w, P, None).is_some() {
                ctx.count("unstorable-string:stored-faithfully");
                ctx.nontrivial();
            }
        }
    }
    ctx.observe_u64((bi * 100 + field) as u64);
}

/// (vii) all sequences of <= 3 representation calls (visual reference, pinhole, spherical,
/// cylindrical; with / without mask) on one ImageWriter: an image has one visual reference slot and
/// one projection slot, a call is accepted exactly when its slot is still empty, and the finalized
/// image reads back with the accepted representations and their own data
pub fn image_calls(ctx: &Ctx) {
    let n = 1 + ctx.pick("calls", 3);
    let mut calls = Vec::new();
    for _ in 0..n {
        // 0..3 a representation, 4 an early finalize() of the image writer
        calls.push((ctx.pick("representation", 5), ctx.pick("mask", 2) == 1));
    }
    ctx.describe(|| format!("one image: {:?} then finalize", calls.iter().map(|(k, m)| format!("{}{}", ["visual", "pinhole", "spherical", "cylindrical", "finalize()"][*k], if *m && *k < 4 { "+mask" } else { "" })).collect::<Vec<_>>()));
    let res = guarded(|| -> Result<(Vec<u8>, m::Image, Vec<String>), String> {
        let es = |c: &str, e: e57::Error| format!("{c}: {}", err_string(&e));
        let dev = Dev::empty();
        let h = dev.handle();
        let mut w = E57Writer::new(dev, "g").map_err(|e| es("new", e))?;
        let mut exp = m::Image { guid: Some("img".into()), ..Default::default() };
        let mut problems = Vec::new();
        {
            let mut iw = w.add_image("img").map_err(|e| es("add_image", e))?;
            let mut finalized = false;
            for (ci, (kind, mask)) in calls.iter().enumerate() {
                if *kind == 4 {
                    // finalize is accepted exactly once, and only for an image that has something to
                    // show; a refused finalize changes nothing
                    let may = !finalized && (exp.visual.is_some() || exp.projection.is_some());
                    let r = iw.finalize();
                    match (r.is_ok(), may) {
                        (true, true) => finalized = true,
                        (false, false) => {}
                        (true, false) => problems.push(format!("call #{ci}: finalize() of an image {} was accepted", if finalized { "that is already finalized" } else { "without any representation" })),
                        (false, true) => problems.push(format!("call #{ci}: finalize() of a complete image was refused ({})", r.err().map(|e| err_string(&e)).unwrap_or_default())),
                    }
                    continue;
                }
                let src = image(*kind, *mask, 20 + 7 * ci, 40 + ci as u64);
                let rep = if *kind == 0 { src.visual.clone().unwrap() } else { src.projection.clone().unwrap() };
                let mut d = Src::new(rep.blob.data.clone());
                let mut ms = rep.mask.as_ref().map(|m| Src::new(m.data.clone()));
                let mk = ms.as_mut().map(|m| m as &mut dyn std::io::Read);
                let (wd, ht) = (rep.width as u32, rep.height as u32);
                let r = match &rep.proj {
                    None => iw.add_visual_reference(fmt_to_e57(&rep.format), &mut d, e57::VisualReferenceImageProperties { width: wd, height: ht }, mk),
                    Some(m::ProjKind::Pinhole { focal, pw, ph, ppx, ppy }) => {
                        iw.add_pinhole(fmt_to_e57(&rep.format), &mut d, e57::PinholeImageProperties { width: wd, height: ht, focal_length: *focal, pixel_width: *pw, pixel_height: *ph, principal_x: *ppx, principal_y: *ppy }, mk)
                    }
                    Some(m::ProjKind::Spherical { pw, ph }) => iw.add_spherical(fmt_to_e57(&rep.format), &mut d, e57::SphericalImageProperties { width: wd, height: ht, pixel_width: *pw, pixel_height: *ph }, mk),
                    Some(m::ProjKind::Cylindrical { radius, ppy, pw, ph }) => {
                        iw.add_cylindrical(fmt_to_e57(&rep.format), &mut d, e57::CylindricalImageProperties { width: wd, height: ht, radius: *radius, principal_y: *ppy, pixel_width: *pw, pixel_height: *ph }, mk)
                    }
                };
                let slot_free = !finalized && if *kind == 0 { exp.visual.is_none() } else { exp.projection.is_none() };
                match (r.is_ok(), slot_free) {
                    (true, true) => {
                        if *kind == 0 {
                            exp.visual = Some(rep);
                        } else {
                            exp.projection = Some(rep);
                        }
                    }
                    (false, false) => {}
                    (true, false) => problems.push(format!("call #{ci} was accepted although the image {}", if finalized { "was already finalized: its data is written but never listed".to_string() } else { format!("already has a {}", if *kind == 0 { "visual reference" } else { "projection" }) })),
                    (false, true) => problems.push(format!("call #{ci} was refused ({}) although its slot is empty", r.err().map(|e| err_string(&e)).unwrap_or_default())),
                }
            }
            if !finalized {
                let may = exp.visual.is_some() || exp.projection.is_some();
                let r = iw.finalize();
                match (r, may) {
                    (Ok(()), true) => finalized = true,
                    (Err(_), false) => {}
                    (Ok(()), false) => problems.push("the final finalize() of an image without any representation was accepted".into()),
                    (Err(e), true) => return Err(es("image.finalize", e)),
                }
            }
            let _ = finalized;
        }
        w.finalize().map_err(|e| es("finalize", e))?;
        drop(w);
        if exp.visual.is_none() && exp.projection.is_none() {
            exp.guid = None; // marks "no image in the file"
        }
        Ok((h.snapshot(), exp, problems))
    });
    let (bytes, exp, problems) = match res {
        Err(pi) => {
            ctx.violation(format!("{P}/panic/{}", pi.class()), format!("writer panicked at {} ({})", pi.loc, pi.msg));
            return;
        }
        Ok(Err(e)) => {
            ctx.violation(format!("{P}/valid-call-failed/{}", msg_class(&e)), e);
            return;
        }
        Ok(Ok(x)) => x,
    };
    if let Some(pb) = problems.first() {
        ctx.violation(format!("{P}/misuse/image-representation-slots"), format!("{pb}; calls {calls:?}"));
        return;
    }
    match guarded(|| read_back(bytes.clone())) {
        Ok(Ok(rb)) => {
            let mut e = m::Scene { guid: "g".into(), format_name: rb.scene.format_name.clone(), library_version: rb.scene.library_version.clone(), version: (1, 0), ..Default::default() };
            if exp.guid.is_some() {
                e.images.push(exp);
            }
            let d = m::diff_scene(&e, &rb.scene, false, false);
            if !d.is_empty() {
                ctx.violation(format!("{P}/diff/{}", diff_class(&d[0])), format!("{}; calls {calls:?}", d.join(" || ")));
                return;
            }
            ctx.observe(&bytes);
            ctx.nontrivial();
        }
        Ok(Err((st, e))) => ctx.violation(format!("{P}/read-err/{}", msg_class(&e)), format!("{st}: {e}; calls {calls:?}")),
        Err(pi) => ctx.violation(format!("{P}/read-panic/{}", pi.class()), format!("reader panicked at {} ({})", pi.loc, pi.msg)),
    }
}

// ------------------------------------------------------------------------------------------
// values

/// Out-of-range / ill-typed value at every position 0..=8 of a 9-point cloud: the offending call
/// must return Err, the other 8 points must read back exactly, and bounds must not be polluted.
pub fn values(ctx: &Ctx) {
    let tys: [Ty; 8] = [
        Ty::Int { min: 0, max: 7 },
        Ty::Int { min: -5, max: 5 },
        Ty::Int { min: 7, max: 7 },
        Ty::Int { min: 0, max: 255 },
        Ty::Scaled { min: 0, max: 2047, scale: 0.001, offset: 0.0 },
        Ty::Int { min: 0, max: (1 << 33) - 1 },
        Ty::Int { min: i64::MIN + 1, max: i64::MAX - 1 },
        Ty::Scaled { min: -1, max: 0, scale: 2.0, offset: 1.0 },
    ];
    let ti = ctx.pick("type", tys.len());
    let slot = ctx.pick("record-slot", 2); // tested record first or last in the prototype
    let pos = ctx.pick("position", 9);
    let bad = ctx.pick("bad-kind", 9);
    let ty = tys[ti].clone();
    let (min, max) = match ty {
        Ty::Int { min, max } | Ty::Scaled { min, max, .. } => (min, max),
        _ => unreachable!(),
    };
    let w = ty.bits();
    let scaled = matches!(ty, Ty::Scaled { .. });
    let mk = |v: i64| if scaled { Val::Scaled(v) } else { Val::Int(v) };
    let tested = rec("intensity", ty.clone());
    let mut proto = cat::xyz(Ty::Int { min: 0, max: 2000 });
    if slot == 0 {
        proto.insert(0, tested);
    } else {
        proto.push(tested);
    }
    let ti_idx = if slot == 0 { 0 } else { 3 };
    let mut good = cat::points_for(&proto, 9, ti + 1);
    for (i, g) in good.iter_mut().enumerate() {
        for (k, v) in g.iter_mut().enumerate() {
            if k != ti_idx {
                *v = Val::Int(((i * 37 + k * 11 + 5) % 1000) as i64);
            }
        }
    }
    // the offending point
    let mut badpt = good[pos].clone();
    for (k, v) in badpt.iter_mut().enumerate() {
        // make the rejected point extreme in x/y/z so that bound pollution is visible
        if k != ti_idx {
            *v = Val::Int(2000);
        }
    }
    let what;
    match bad {
        0 => {
            let Some(v) = min.checked_sub(1) else { return };
            badpt[ti_idx] = mk(v);
            what = "min-1";
        }
        1 => {
            let Some(v) = max.checked_add(1) else { return };
            badpt[ti_idx] = mk(v);
            what = "max+1";
        }
        2 => {
            if min == i64::MIN {
                return;
            }
            badpt[ti_idx] = mk(i64::MIN);
            what = "i64::MIN";
        }
        3 => {
            if max == i64::MAX {
                return;
            }
            badpt[ti_idx] = mk(i64::MAX);
            what = "i64::MAX";
        }
        4 => {
            // aliases to `min` after truncation to w bits
            let Some(v) = (w < 63).then(|| (min as i128) + (1i128 << w)).filter(|v| *v <= i64::MAX as i128) else { return };
            badpt[ti_idx] = mk(v as i64);
            what = "min+2^w";
        }
        5 => {
            badpt[ti_idx] = if scaled { Val::Int(min) } else { Val::Scaled(min) };
            what = "wrong-integer-variant";
        }
        6 => {
            badpt[ti_idx] = Val::F64(min as f64);
            what = "float-for-integer";
        }
        7 => {
            badpt.pop();
            what = "arity-short";
        }
        _ => {
            badpt.push(Val::Int(0));
            what = "arity-long";
        }
    }
    ctx.describe(|| format!("9-point cloud, prototype [{}], point #{pos} replaced by an unstorable one ({what}): {:?}",
        proto.iter().map(|r| format!("{}:{}", r.name, r.ty.describe())).collect::<Vec<_>>().join(", "), badpt.iter().map(|v| v.describe()).collect::<Vec<_>>()));
    let res = guarded(|| -> Result<(Vec<u8>, Option<String>), String> {
        let dev = Dev::empty();
        let h = dev.handle();
        let mut wtr = E57Writer::new(dev, "g").map_err(|e| err_string(&e))?;
        let mut rejected = None;
        {
            let protoe: Vec<Record> = proto.iter().map(rec_to_e57).collect();
            let mut pw = wtr.add_pointcloud("pc", protoe).map_err(|e| format!("add_pointcloud: {}", err_string(&e)))?;
            pw.verif_set_max_points_per_packet(2);
            for (i, g) in good.iter().enumerate() {
                if i == pos {
                    let vals: RawValues = badpt.iter().map(val_to_e57).collect();
                    match pw.add_point(vals) {
                        Ok(()) => {}
                        Err(e) => rejected = Some(err_string(&e)),
                    }
                } else {
                    let vals: RawValues = g.iter().map(val_to_e57).collect();
                    pw.add_point(vals).map_err(|e| format!("add_point of a valid point #{i}: {}", err_string(&e)))?;
                }
            }
            pw.finalize().map_err(|e| format!("PointCloudWriter::finalize: {}", err_string(&e)))?;
        }
        wtr.finalize().map_err(|e| format!("finalize: {}", err_string(&e)))?;
        Ok((h.snapshot(), rejected))
    });
    ctx.ops(14);
    let (bytes, rejected) = match res {
        Err(pi) => {
            ctx.violation(format!("{P}/panic/{}", pi.class()), format!("writer panicked at {} ({}) with unstorable value ({what}) at point #{pos}, type {}", pi.loc, pi.msg, ty.describe()));
            return;
        }
        Ok(Err(e)) => {
            ctx.violation(format!("{P}/valid-call-failed/{}", msg_class(&e)), format!("{e} (unstorable value {what} at point #{pos}, type {})", ty.describe()));
            return;
        }
        Ok(Ok(x)) => x,
    };
    ctx.count(format!("bad-kind:{what}"));
    if rejected.is_none() {
        // accepted: show what happened to the data
        let detail = match read_back(bytes.clone()) {
            Ok(rb) => {
                let pts = &rb.scene.clouds[0].points;
                let shown: Vec<String> = pts.iter().map(|p| p[ti_idx].describe()).collect();
                let exp: Vec<String> = good.iter().enumerate().map(|(i, p)| if i == pos { format!("<{}>", badpt.get(ti_idx).map(|v| v.describe()).unwrap_or_default()) } else { p[ti_idx].describe() }).collect();
                format!("read back {} points; tested record: given [{}], read [{}]", pts.len(), exp.join(" "), shown.join(" "))
            }
            Err((st, e)) => format!("file then fails to read: {st}: {e}"),
        };
        ctx.violation(
            format!("{P}/unstorable-accepted/{what}"),
            format!("add_point returned Ok for a value that cannot be stored ({what}, type {}, point #{pos}, record slot {ti_idx}); {detail}", ty.describe()),
        );
        return;
    }
    // rejected: the remaining 8 points must be intact and the bounds unpolluted
    let mut exp_pts = good.clone();
    exp_pts.remove(pos);
    match read_back(bytes.clone()) {
        Err((st, e)) => ctx.violation(format!("{P}/read-err-after-rejection/{}", msg_class(&e)), format!("{st}: {e} after a rejected point ({what}) at #{pos}")),
        Ok(rb) => {
            let c = &rb.scene.clouds[0];
            let mut d = m::Diff::new();
            m::diff_points(&mut d, "cloud", &exp_pts, &c.points);
            if c.records != 8 {
                d.add(format!("recordCount is {} after 8 accepted and 1 rejected point", c.records));
            }
            if let Some(b) = c.meta.cartesian_bounds {
                // x,y,z of accepted points come from the catalogue of Int[0,1000]
                let k0 = if slot == 0 { 1 } else { 0 };
                for ax in 0..3 {
                    let vals: Vec<f64> = exp_pts.iter().map(|p| if let Val::Int(v) = p[k0 + ax] { v as f64 } else { 0.0 }).collect();
                    let lo = vals.iter().cloned().fold(f64::INFINITY, f64::min);
                    let hi = vals.iter().cloned().fold(f64::NEG_INFINITY, f64::max);
                    if b[2 * ax] != Some(lo) || b[2 * ax + 1] != Some(hi) {
                        d.add(format!("cartesian bounds axis {ax}: stored [{:?},{:?}] but accepted points span [{lo},{hi}] (rejected point had 2000)", b[2 * ax], b[2 * ax + 1]));
                    }
                }
            }
            if !d.out.is_empty() {
                ctx.violation(
                    format!("{P}/rejection-side-effect/{}", diff_class(&d.out[0])),
                    format!("after add_point rejected an unstorable point ({what}, #{pos}, type {}): {}", ty.describe(), d.out.join(" || ")),
                );
                return;
            }
            ctx.nontrivial();
            ctx.observe(&bytes);
        }
    }
}

// ------------------------------------------------------------------------------------------
// call orders

const N_SESS: usize = 16;

/// All sequences of depth <= 4 (quick 3) of API sessions including misuse; a small reference says
/// which calls must fail; whenever the top-level finalize succeeds the file must read back.
pub fn orders(ctx: &Ctx) {
    let maxd = if ctx.tier_thorough { 5 } else { 4 };
    let depth = ctx.pick("depth", maxd + 1);
    let kinds: Vec<usize> = (0..depth).map(|_| ctx.pick("session", N_SESS)).collect();
    let fin = ctx.pick("finalize", 3); // 0 once, 1 twice, 2 customized with failing transformer then plain
    ctx.describe(|| format!("sessions {:?} then finalize-mode {fin}", kinds.iter().map(|k| SESS_NAMES[*k]).collect::<Vec<_>>()));
    let mut exp = m::Scene { guid: "g".into(), format_name: "ASTM E57 3D Imaging Data File".into(), version: (1, 0), ..Default::default() };
    let mut blobs: Vec<((u64, u64), Vec<u8>)> = Vec::new();
    let mut problems: Vec<String> = Vec::new();
    let res = guarded(|| -> Result<Vec<u8>, String> {
        let dev = Dev::empty();
        let h = dev.handle();
        let mut w = E57Writer::new(dev, "g").map_err(|e| err_string(&e))?;
        let mut ext_registered = false;
        for (si, k) in kinds.iter().enumerate() {
            let id = si as u64 * 20 + *k as u64 + 1;
            session(*k, id, &mut w, &mut exp, &mut blobs, &mut problems, &mut ext_registered)?;
        }
        match fin {
            0 => w.finalize().map_err(|e| format!("finalize: {}", err_string(&e)))?,
            1 => {
                w.finalize().map_err(|e| format!("finalize: {}", err_string(&e)))?;
                // a second finalize may fail, but if it succeeds the file must still be complete
                let _ = w.finalize();
            }
            _ => {
                let r = w.finalize_customized_xml(|_| e57::Error::invalid("transformer refuses"));
                if r.is_ok() {
                    problems.push("finalize_customized_xml returned Ok although the transformer failed".into());
                }
                w.finalize().map_err(|e| format!("finalize after failed transformer: {}", err_string(&e)))?;
            }
        }
        Ok(h.snapshot())
    });
    ctx.ops(10 * depth as u64 + 3);
    let bytes = match res {
        Err(pi) => {
            ctx.violation(format!("{P}/panic/{}", pi.class()), format!("writer panicked at {} ({})", pi.loc, pi.msg));
            return;
        }
        Ok(Err(e)) => {
            ctx.violation(format!("{P}/valid-call-failed/{}", msg_class(&e)), e);
            return;
        }
        Ok(Ok(b)) => b,
    };
    if let Some(pb) = problems.first() {
        ctx.violation(format!("{P}/misuse/{}", msg_class(pb)), problems.join(" || "));
        return;
    }
    // T3
    match guarded(|| read_back(bytes.clone())) {
        Err(pi) => ctx.violation(format!("{P}/read-panic/{}", pi.class()), format!("reader panicked at {} ({})", pi.loc, pi.msg)),
        Ok(Err((st, e))) => ctx.violation(
            format!("{P}/read-err/{}/{}", diff_class(&st), msg_class(&e)),
            format!("all writer calls up to finalize succeeded (finalize-mode {fin}) but {st} fails: {e}"),
        ),
        Ok(Ok(rb)) => {
            exp.library_version = rb.scene.library_version.clone();
            let d = m::diff_scene(&exp, &rb.scene, false, false);
            if !d.is_empty() {
                ctx.violation(format!("{P}/diff/{}", diff_class(&d[0])), format!("finalize-mode {fin}: {}", d.join(" || ")));
                return;
            }
            let mut r = match e57::E57Reader::new(Dev::new(bytes.clone())) {
                Ok(r) => r,
                Err(_) => return,
            };
            for ((off, len), data) in &blobs {
                match read_blob(&mut r, *off, *len) {
                    Ok(b) if &b == data => {}
                    Ok(_) => {
                        ctx.violation(format!("{P}/blob-bytes"), format!("blob at {off} reads back with other bytes (finalize-mode {fin})"));
                        return;
                    }
                    Err(e) => {
                        ctx.violation(format!("{P}/blob-read/{}", msg_class(&e)), format!("blob at {off}: {e} (finalize-mode {fin})"));
                        return;
                    }
                }
            }
            ctx.nontrivial();
            ctx.observe(&bytes);
        }
    }
}

const SESS_NAMES: [&str; N_SESS] = [
    "cloud(3pts)",
    "cloud(abandoned,0pts)",
    "cloud(abandoned,3pts,cap1)",
    "cloud(finalize twice)",
    "cloud(add_point after finalize)",
    "image(visual, finalize twice)",
    "image(no representation)",
    "image(abandoned after pinhole)",
    "image(pinhole twice)",
    "image(spherical+visual+masks)",
    "register_extension(ext)",
    "register_extension(bad name)",
    "blob(7)",
    "cloud(ext attribute)",
    "set_creation+coordinate_metadata",
    "register_extension(ext, other url)",
];

#[allow(clippy::too_many_arguments)]
fn session(
    k: usize,
    id: u64,
    w: &mut E57Writer<Dev>,
    exp: &mut m::Scene,
    blobs: &mut Vec<((u64, u64), Vec<u8>)>,
    problems: &mut Vec<String>,
    ext_registered: &mut bool,
) -> Result<(), String> {
    let es = |c: &str, e: e57::Error| format!("{c}: {}", err_string(&e));
    let proto = cat::prototypes()[2].1.clone();
    let add_pts = |pw: &mut e57::PointCloudWriter<Dev>, pts: &[Vec<Val>]| -> Result<(), String> {
        for p in pts {
            pw.add_point(p.iter().map(val_to_e57).collect()).map_err(|e| es("add_point", e))?;
        }
        Ok(())
    };
    match k {
        0..=4 => {
            let pts = cat::points_for(&proto, 3, id as usize);
            let guid = format!("pc-{id}");
            let mut pw = w.add_pointcloud(&guid, proto.iter().map(rec_to_e57).collect()).map_err(|e| es("add_pointcloud", e))?;
            let cl = m::Cloud { meta: m::CloudMeta { guid: Some(guid), ..Default::default() }, proto: proto.clone(), points: pts.clone(), records: 3, file_offset: 0 };
            match k {
                0 => {
                    add_pts(&mut pw, &pts)?;
                    pw.finalize().map_err(|e| es("pc.finalize", e))?;
                    exp.clouds.push(cl);
                }
                1 => {}
                2 => {
                    pw.verif_set_max_points_per_packet(1);
                    add_pts(&mut pw, &pts)?;
                }
                3 => {
                    add_pts(&mut pw, &pts)?;
                    pw.finalize().map_err(|e| es("pc.finalize", e))?;
                    exp.clouds.push(cl.clone());
                    // a second finalize must be refused: it would list the same cloud twice
                    if pw.finalize().is_ok() {
                        problems.push(format!("PointCloudWriter::finalize returned Ok a second time for {}", exp.clouds.last().and_then(|c| c.meta.guid.clone()).unwrap_or_default()));
                    }
                }
                _ => {
                    add_pts(&mut pw, &pts[..2])?;
                    pw.finalize().map_err(|e| es("pc.finalize", e))?;
                    let mut c = cl;
                    c.points.truncate(2);
                    c.records = 2;
                    // a point added after finalize cannot be stored (the section is closed and
                    // listed): the call must be refused, and so must a further finalize
                    if pw.add_point(pts[2].iter().map(val_to_e57).collect()).is_ok() {
                        problems.push("add_point returned Ok after PointCloudWriter::finalize".into());
                    }
                    if pw.finalize().is_ok() {
                        problems.push("PointCloudWriter::finalize returned Ok again after a refused add_point".into());
                    }
                    exp.clouds.push(c);
                }
            }
        }
        5..=9 => {
            let guid = format!("img-{id}");
            let mut iw = w.add_image(&guid).map_err(|e| es("add_image", e))?;
            let img = match k {
                5 => image(0, false, 9, id),
                9 => {
                    let mut i = image(2, true, 40, id);
                    i.visual = image(0, true, 11, id + 1).visual;
                    i
                }
                _ => image(1, true, 21, id),
            };
            let mut img = m::Image { guid: Some(guid), ..img };
            let put = |iw: &mut e57::ImageWriter<Dev>, r: &m::Rep| -> e57::Result<()> {
                let mut d = Src::new(r.blob.data.clone());
                let mut ms = r.mask.as_ref().map(|m| Src::new(m.data.clone()));
                let mask = ms.as_mut().map(|m| m as &mut dyn std::io::Read);
                let (wd, ht) = (r.width as u32, r.height as u32);
                match &r.proj {
                    None => iw.add_visual_reference(fmt_to_e57(&r.format), &mut d, e57::VisualReferenceImageProperties { width: wd, height: ht }, mask),
                    Some(m::ProjKind::Pinhole { focal, pw, ph, ppx, ppy }) => iw.add_pinhole(
                        fmt_to_e57(&r.format),
                        &mut d,
                        e57::PinholeImageProperties { width: wd, height: ht, focal_length: *focal, pixel_width: *pw, pixel_height: *ph, principal_x: *ppx, principal_y: *ppy },
                        mask,
                    ),
                    Some(m::ProjKind::Spherical { pw, ph }) => {
                        iw.add_spherical(fmt_to_e57(&r.format), &mut d, e57::SphericalImageProperties { width: wd, height: ht, pixel_width: *pw, pixel_height: *ph }, mask)
                    }
                    Some(m::ProjKind::Cylindrical { radius, ppy, pw, ph }) => iw.add_cylindrical(
                        fmt_to_e57(&r.format),
                        &mut d,
                        e57::CylindricalImageProperties { width: wd, height: ht, radius: *radius, principal_y: *ppy, pixel_width: *pw, pixel_height: *ph },
                        mask,
                    ),
                }
            };
            match k {
                6 => {
                    if iw.finalize().is_ok() {
                        problems.push("ImageWriter::finalize without any representation returned Ok".into());
                    }
                }
                7 => {
                    put(&mut iw, img.projection.as_ref().unwrap()).map_err(|e| es("add_pinhole", e))?;
                }
                8 => {
                    put(&mut iw, img.projection.as_ref().unwrap()).map_err(|e| es("add_pinhole", e))?;
                    let second = image(1, false, 5, id + 3);
                    if put(&mut iw, second.projection.as_ref().unwrap()).is_ok() {
                        problems.push("a second projection was accepted by the same ImageWriter".into());
                    }
                    iw.finalize().map_err(|e| es("image.finalize", e))?;
                    exp.images.push(img);
                }
                _ => {
                    if let Some(v) = &img.visual {
                        put(&mut iw, v).map_err(|e| es("add_visual_reference", e))?;
                    }
                    if let Some(p) = &img.projection {
                        put(&mut iw, p).map_err(|e| es("add projection", e))?;
                    }
                    iw.finalize().map_err(|e| es("image.finalize", e))?;
                    // a second finalize must be refused: it would list the same image twice
                    if k == 5 && iw.finalize().is_ok() {
                        problems.push("ImageWriter::finalize returned Ok a second time".into());
                    }
                    img.name = None;
                    exp.images.push(img);
                }
            }
        }
        10 => {
            let r = w.register_extension(Extension::new("ext", "http://example.com/ext"));
            match (r, *ext_registered) {
                (Ok(()), false) => {
                    *ext_registered = true;
                    exp.extensions.push(("ext".into(), "http://example.com/ext".into()));
                }
                (Err(_), true) => {}
                (Ok(()), true) => problems.push("registering the same extension namespace twice returned Ok".into()),
                (Err(e), false) => return Err(es("register_extension", e)),
            }
        }
        11 => {
            for bad in ["", "xmlx", "a b", "a:b"] {
                if w.register_extension(Extension::new(bad, "http://example.com/x")).is_ok() {
                    problems.push(format!("register_extension accepted the malformed namespace {bad:?}"));
                }
            }
        }
        12 => {
            let data = pattern(id, 7);
            let b = w.add_blob(&mut Src::new(data.clone())).map_err(|e| es("add_blob", e))?;
            blobs.push(((b.offset, b.length), data));
        }
        13 => {
            let mut pr = cat::xyz(F32);
            pr.push(ext_rec("ext", "classification", Ty::Int { min: 0, max: 31 }));
            let r = w.add_pointcloud(&format!("pc-{id}"), pr.iter().map(rec_to_e57).collect());
            match (r, *ext_registered) {
                (Ok(mut pw), true) => {
                    let pts = cat::points_for(&pr, 2, id as usize);
                    add_pts(&mut pw, &pts)?;
                    pw.finalize().map_err(|e| es("pc.finalize", e))?;
                    exp.clouds.push(m::Cloud { meta: m::CloudMeta { guid: Some(format!("pc-{id}")), ..Default::default() }, proto: pr, points: pts, records: 2, file_offset: 0 });
                }
                (Err(_), false) => {}
                (Ok(_), false) => problems.push("add_pointcloud accepted an attribute of an unregistered extension namespace".into()),
                (Err(e), true) => return Err(es("add_pointcloud with registered extension", e)),
            }
        }
        15 => {
            // the same namespace with another URL: must be refused once the namespace is taken
            let r = w.register_extension(Extension::new("ext", "http://example.com/other"));
            match (r, *ext_registered) {
                (Ok(()), false) => {
                    *ext_registered = true;
                    exp.extensions.push(("ext".into(), "http://example.com/other".into()));
                }
                (Err(_), true) => {}
                (Ok(()), true) => problems.push("registering an already registered extension namespace with a different URL returned Ok".into()),
                (Err(e), false) => return Err(es("register_extension", e)),
            }
        }
        _ => {
            w.set_creation(Some(e57::DateTime { gps_time: 1.5 + id as f64, atomic_reference: id % 2 == 0 }));
            w.set_coordinate_metadata(Some(format!("crs-{id}")));
            exp.creation = Some(m::DateTime { gps: 1.5 + id as f64, atomic: id % 2 == 0 });
            exp.coordinate_metadata = Some(format!("crs-{id}"));
        }
    }
    Ok(())
}
