//! Instrumented in-memory devices (Read + Write + Seek over a shared Vec<u8>).
//!
//! One type with switchable behaviour: operation log (C15), one-shot fault injection at the
//! k-th device operation (C16/C17), chooser-driven short transfers (C16), byte/call counters (C09).

use explore::Ctx;
use std::cell::RefCell;
use std::io::{self, Read, Seek, SeekFrom, Write};
use std::rc::Rc;

#[derive(Clone, Debug, PartialEq)]
pub enum DevOp {
    Write { pos: u64, data: Vec<u8> },
    Flush,
}

#[derive(Clone, Copy, PartialEq, Debug)]
pub enum Chunk {
    Full,
    /// every transfer with len > 1 asks the chooser: full | 1 byte | len/2 | len-1
    Choose,
    AlwaysOne,
    AlwaysHalf,
    Alternate,
}

pub struct DevState {
    pub data: Vec<u8>,
    pub log_on: bool,
    pub log: Vec<DevOp>,
    /// number of device operations (read/write/seek/flush calls) seen so far
    pub ops: u64,
    /// fail the operation with this index (0-based) once
    pub fault_at: Option<u64>,
    pub faults_fired: u64,
    /// label of the operation that was faulted
    pub fault_kind: Option<&'static str>,
    /// io::ErrorKind of the injected error
    pub fault_errkind: io::ErrorKind,
    pub chunk: Chunk,
    pub ctx: Option<Ctx>,
    pub transfers: u64,
    pub short_transfers: u64,
    pub bytes_read: u64,
    pub read_calls: u64,
    pub bytes_written: u64,
    alt: bool,
}

#[derive(Clone)]
pub struct Dev {
    pub st: Rc<RefCell<DevState>>,
    pos: u64,
}

impl Dev {
    pub fn new(data: Vec<u8>) -> Dev {
        Dev {
            st: Rc::new(RefCell::new(DevState {
                data,
                log_on: false,
                log: Vec::new(),
                ops: 0,
                fault_at: None,
                faults_fired: 0,
                fault_kind: None,
                fault_errkind: io::ErrorKind::Other,
                chunk: Chunk::Full,
                ctx: None,
                transfers: 0,
                short_transfers: 0,
                bytes_read: 0,
                read_calls: 0,
                bytes_written: 0,
                alt: false,
            })),
            pos: 0,
        }
    }
    pub fn empty() -> Dev {
        Dev::new(Vec::new())
    }
    /// a second handle onto the same storage with its own cursor at 0
    pub fn handle(&self) -> Dev {
        Dev { st: self.st.clone(), pos: 0 }
    }
    pub fn pos(&self) -> u64 {
        self.pos
    }
    pub fn snapshot(&self) -> Vec<u8> {
        self.st.borrow().data.clone()
    }
    pub fn with<R>(&self, f: impl FnOnce(&mut DevState) -> R) -> R {
        f(&mut self.st.borrow_mut())
    }
    fn tick(&self, kind: &'static str) -> io::Result<()> {
        let mut s = self.st.borrow_mut();
        let i = s.ops;
        s.ops += 1;
        if s.fault_at == Some(i) {
            s.faults_fired += 1;
            s.fault_kind = Some(kind);
            return Err(io::Error::new(s.fault_errkind, format!("injected device fault at op {i} ({kind})")));
        }
        Ok(())
    }
    fn chunk_len(&self, len: usize, what: &str) -> usize {
        if len <= 1 {
            return len;
        }
        let (mode, ctx) = {
            let s = self.st.borrow();
            (s.chunk, s.ctx.clone())
        };
        let n = match mode {
            Chunk::Full => len,
            Chunk::AlwaysOne => 1,
            Chunk::AlwaysHalf => (len / 2).max(1),
            Chunk::Alternate => {
                let mut s = self.st.borrow_mut();
                s.alt = !s.alt;
                if s.alt {
                    1
                } else {
                    len
                }
            }
            Chunk::Choose => match ctx.map(|c| c.choose(what, 4)).unwrap_or(0) {
                0 => len,
                1 => 1,
                2 => (len / 2).max(1),
                _ => len - 1,
            },
        };
        let mut s = self.st.borrow_mut();
        s.transfers += 1;
        if n < len {
            s.short_transfers += 1;
        }
        n
    }
}

impl Read for Dev {
    fn read(&mut self, buf: &mut [u8]) -> io::Result<usize> {
        self.tick("read")?;
        let avail = {
            let s = self.st.borrow();
            (s.data.len() as u64).saturating_sub(self.pos) as usize
        };
        let want = buf.len().min(avail);
        if want == 0 {
            self.st.borrow_mut().read_calls += 1;
            return Ok(0);
        }
        let n = self.chunk_len(want, "short-read");
        let mut s = self.st.borrow_mut();
        let p = self.pos as usize;
        buf[..n].copy_from_slice(&s.data[p..p + n]);
        s.bytes_read += n as u64;
        s.read_calls += 1;
        self.pos += n as u64;
        Ok(n)
    }
}

impl Write for Dev {
    fn write(&mut self, buf: &[u8]) -> io::Result<usize> {
        self.tick("write")?;
        let n = self.chunk_len(buf.len(), "short-write");
        let mut s = self.st.borrow_mut();
        let p = self.pos as usize;
        if s.data.len() < p + n {
            s.data.resize(p + n, 0);
        }
        s.data[p..p + n].copy_from_slice(&buf[..n]);
        s.bytes_written += n as u64;
        if s.log_on && n > 0 {
            s.log.push(DevOp::Write { pos: self.pos, data: buf[..n].to_vec() });
        }
        self.pos += n as u64;
        Ok(n)
    }
    fn flush(&mut self) -> io::Result<()> {
        self.tick("flush")?;
        let mut s = self.st.borrow_mut();
        if s.log_on {
            s.log.push(DevOp::Flush);
        }
        Ok(())
    }
}

impl Seek for Dev {
    fn seek(&mut self, pos: SeekFrom) -> io::Result<u64> {
        self.tick("seek")?;
        let len = self.st.borrow().data.len() as i128;
        let np: i128 = match pos {
            SeekFrom::Start(p) => p as i128,
            SeekFrom::End(o) => len + o as i128,
            SeekFrom::Current(o) => self.pos as i128 + o as i128,
        };
        if np < 0 {
            return Err(io::Error::new(io::ErrorKind::InvalidInput, "seek before start"));
        }
        self.pos = np as u64;
        Ok(self.pos)
    }
}

/// A `Read` source for blob payloads with the same chunking behaviour.
pub struct Src {
    pub data: Vec<u8>,
    pub pos: usize,
    pub chunk: Chunk,
    pub ctx: Option<Ctx>,
    alt: bool,
}
impl Src {
    pub fn new(data: Vec<u8>) -> Src {
        Src { data, pos: 0, chunk: Chunk::Full, ctx: None, alt: false }
    }
}
impl Read for Src {
    fn read(&mut self, buf: &mut [u8]) -> io::Result<usize> {
        let want = buf.len().min(self.data.len() - self.pos);
        let n = if want <= 1 {
            want
        } else {
            match self.chunk {
                Chunk::Full => want,
                Chunk::AlwaysOne => 1,
                Chunk::AlwaysHalf => (want / 2).max(1),
                Chunk::Alternate => {
                    self.alt = !self.alt;
                    if self.alt {
                        1
                    } else {
                        want
                    }
                }
                Chunk::Choose => match self.ctx.as_ref().map(|c| c.choose("short-src", 4)).unwrap_or(0) {
                    0 => want,
                    1 => 1,
                    2 => (want / 2).max(1),
                    _ => want - 1,
                },
            }
        };
        buf[..n].copy_from_slice(&self.data[self.pos..self.pos + n]);
        self.pos += n;
        Ok(n)
    }
}
