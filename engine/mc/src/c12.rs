//! C12 — bit-packed integers: exact width, bit order and decode at any alignment.

use crate::alpha::cloud;
use crate::c03::{judge, model_file};
use crate::cat::{self, rec, xyz, F32};
use crate::oracle::*;
use crate::wprog::*;
use e57::verif::{BitPack, ByteStreamReadBuffer, ByteStreamWriteBuffer};
use e57spec::bits;
use e57spec::decode::{validate, Options};
use e57spec::encode::Knobs;
use e57spec::model::{self as m, Ty, Val};
use explore::Ctx;
use std::collections::VecDeque;

const P: &str = "C12";

/// (min, max) for width w, range shape rs (0 exact 2^w-1, 1 smallest range of that width, 2 in between),
/// anchor a (0: min=0, 1: min=-3, 2: min=i64::MIN, 3: max=i64::MAX). None when not representable.
pub fn range_for(w: u32, rs: usize, a: usize) -> Option<(i64, i64)> {
    let r: u128 = if w == 0 {
        if rs > 0 {
            return None;
        }
        0
    } else {
        let full = if w == 64 { u64::MAX as u128 } else { (1u128 << w) - 1 };
        let small = 1u128 << (w - 1);
        match rs {
            0 => full,
            1 => small,
            _ => {
                if full == small {
                    return None;
                }
                small + (full - small) / 2
            }
        }
    };
    let (min, max): (i128, i128) = match a {
        0 => (0, r as i128),
        1 => (-3, r as i128 - 3),
        2 => (i64::MIN as i128, i64::MIN as i128 + r as i128),
        _ => (i64::MAX as i128 - r as i128, i64::MAX as i128),
    };
    if min < i64::MIN as i128 || max > i64::MAX as i128 {
        return None;
    }
    Some((min as i64, max as i64))
}

fn stream_values(min: i64, max: i64, n: usize) -> Vec<i64> {
    let vals = cat::int_values(min, max);
    (0..n).map(|i| vals[i % vals.len()]).collect()
}

/// G1 — writer direction: real writer output == independent bit codec, byte for byte
pub fn g1(ctx: &Ctx) {
    let w = ctx.pick("width", 65) as u32;
    let rs = ctx.pick("range-shape", 3);
    let a = ctx.pick("anchor", 4);
    let c = 1 + ctx.pick("cap", 16);
    let scaled = ctx.pick("scaled", 2) == 1;
    let Some((min, max)) = range_for(w, rs, a) else { return };
    debug_assert_eq!(bits::width(min, max), w);
    let n = 3 * w as usize + 9;
    let vals = stream_values(min, max, n);
    let ty = if scaled { Ty::Scaled { min, max, scale: 0.25, offset: -1.0 } } else { Ty::Int { min, max } };
    let mut proto = xyz(F32);
    proto.push(rec("intensity", ty.clone()));
    let mut cl = cloud(proto, n, 1);
    for (p, v) in cl.points.iter_mut().zip(vals.iter()) {
        p[3] = if scaled { Val::Scaled(*v) } else { Val::Int(*v) };
    }
    cl.cap = Some(c);
    let p = Program { guid: "g".into(), ops: vec![Op::Cloud(cl)], ..Default::default() };
    ctx.describe(|| format!("width {w}: {} x {n} values [{}...], hooked packet capacity {c}", ty.describe(), vals.iter().take(4).map(|v| v.to_string()).collect::<Vec<_>>().join(",")));
    let Some(wr) = write_valid(ctx, &p, P) else { return };
    let rep = validate(&wr.bytes, &Options { strict: true, ..Default::default() });
    if !rep.ok() {
        ctx.violation(format!("{P}/{}/{}", rep.problems[0].rule, msg_class(&rep.problems[0].msg)), format!("independent validator: {} (width {w}, cap {c}, {})", rep.summary(), ty.describe()));
        return;
    }
    let sec = rep.sections.iter().find(|s| s.kind == "cv").unwrap();
    let got = &sec.streams[3];
    let want = bits::encode_ints(&vals, min, max);
    let exact_len = (n * w as usize + 7) / 8;
    if got.len() != exact_len {
        ctx.violation(format!("{P}/stream-length"), format!("stream of {n} values of {w} bits has {} bytes, expected exactly {exact_len} ({}, cap {c})", got.len(), ty.describe()));
        return;
    }
    // compare all bits that carry data (padding bits of the final byte are not compared)
    let total_bits = n * w as usize;
    for b in 0..total_bits {
        let (x, y) = ((got[b / 8] >> (b % 8)) & 1, (want[b / 8] >> (b % 8)) & 1);
        if x != y {
            ctx.violation(
                format!("{P}/bit-layout"),
                format!("stream bit {b} (value #{}, bit {} of its {w}) is {x}, expected {y}; {} cap {c}; value {} ", b / w as usize, b % w as usize, ty.describe(), vals[b / w as usize]),
            );
            return;
        }
    }
    // floats: 4 little-endian bytes each
    let want_x: Vec<u8> = (0..n).flat_map(|i| if let Val::F32(x) = p_points(&p)[i][0] { x.to_le_bytes().to_vec() } else { vec![] }).collect();
    if sec.streams[0] != want_x {
        ctx.violation(format!("{P}/float-layout"), "single float stream is not the concatenation of 4-byte little-endian values".to_string());
        return;
    }
    // and the real reader returns the values that were written
    if crate::oracle::read_and_compare(ctx, &p, &wr, P, None).is_none() {
        return;
    }
    // packet cut phases reached
    if n > c {
        ctx.count(format!("wphase:{}:{}", w, (c * w as usize) % 8));
    }
    ctx.count(format!("width:{w}"));
    ctx.nontrivial();
    ctx.observe(&wr.bytes);
}

/// program of G6: every record of the prototype is narrower than a byte (no float, nothing that
/// fills a byte per point), 0..=17 points: flushes that find no complete byte in any stream
pub fn gen_g6(ctx: &Ctx) -> (Program, Vec<(i64, i64)>) {
    let wx = 1 + ctx.pick("width-x", 7) as u32;
    let wy = 1 + ctx.pick("width-y", 7) as u32;
    let wz = [1u32, 3, 7][ctx.pick("width-z", 3)];
    let n = ctx.pick("npoints", 18);
    let cap = [None, Some(1), Some(3)][ctx.pick("cap", 3)];
    let scaled = ctx.pick("scaled", 2) == 1;
    let extra = ctx.pick("fourth-record", 3); // none, a 1-bit row index, a zero-width intensity
    let ranges: Vec<(i64, i64)> = [wx, wy, wz].iter().map(|w| (-3i64, -3 + ((1i64 << w) - 1))).collect();
    let mut proto = Vec::new();
    for (nme, (min, max)) in ["cartesianX", "cartesianY", "cartesianZ"].iter().zip(ranges.iter()) {
        proto.push(rec(nme, if scaled { Ty::Scaled { min: *min, max: *max, scale: 0.5, offset: 1.0 } } else { Ty::Int { min: *min, max: *max } }));
    }
    match extra {
        1 => proto.push(rec("rowIndex", Ty::Int { min: 0, max: 1 })),
        2 => proto.push(rec("intensity", Ty::Int { min: 5, max: 5 })),
        _ => {}
    }
    let mut cl = cloud(proto, n, 1);
    for (i, pt) in cl.points.iter_mut().enumerate() {
        for (k, (min, max)) in ranges.iter().enumerate() {
            let vals = cat::int_values(*min, *max);
            let v = vals[(i + k) % vals.len()];
            pt[k] = if scaled { Val::Scaled(v) } else { Val::Int(v) };
        }
    }
    cl.cap = cap;
    (Program { guid: "g".into(), ops: vec![Op::Cloud(cl)], ..Default::default() }, ranges)
}

/// G6 — only narrow records: the coordinate streams equal the independent bit codec, the file is
/// well-formed and reads back
pub fn g6(ctx: &Ctx) {
    let (p, ranges) = gen_g6(ctx);
    ctx.describe(|| crate::wprog::describe(&p));
    let Some(wr) = write_valid(ctx, &p, P) else { return };
    let rep = validate(&wr.bytes, &Options { strict: true, ..Default::default() });
    if !rep.ok() {
        ctx.violation(format!("{P}/{}/{}", rep.problems[0].rule, msg_class(&rep.problems[0].msg)), format!("independent validator: {} || {}", rep.summary(), crate::wprog::describe(&p)));
        return;
    }
    let pts = p_points(&p);
    let n = pts.len();
    if let Some(sec) = rep.sections.iter().find(|s| s.kind == "cv") {
        for (k, (min, max)) in ranges.iter().enumerate() {
            let vals: Vec<i64> = pts.iter().map(|pt| match pt[k] { Val::Int(v) | Val::Scaled(v) => v, _ => 0 }).collect();
            let want = bits::encode_ints(&vals, *min, *max);
            let w = bits::width(*min, *max) as usize;
            let got = &sec.streams[k];
            if got.len() != (n * w + 7) / 8 {
                ctx.violation(format!("{P}/stream-length"), format!("stream {k} of {n} values of {w} bits has {} bytes || {}", got.len(), crate::wprog::describe(&p)));
                return;
            }
            for b in 0..n * w {
                if (got[b / 8] >> (b % 8)) & 1 != (want[b / 8] >> (b % 8)) & 1 {
                    ctx.violation(format!("{P}/bit-layout"), format!("stream {k} bit {b} differs from the independent codec || {}", crate::wprog::describe(&p)));
                    return;
                }
            }
        }
    } else if n > 0 {
        ctx.violation(format!("{P}/no-section"), format!("no compressed vector section found || {}", crate::wprog::describe(&p)));
        return;
    }
    if crate::oracle::read_and_compare(ctx, &p, &wr, P, None).is_none() {
        return;
    }
    ctx.nontrivial();
    ctx.observe(&wr.bytes);
}

fn p_points(p: &Program) -> &Vec<Vec<Val>> {
    match &p.ops[0] {
        Op::Cloud(c) => &c.points,
        _ => unreachable!(),
    }
}

/// G2 — reader direction: e57spec-encoded stream cut into packets at every byte position
pub fn g2(ctx: &Ctx) {
    let w = ctx.pick("width", 65) as u32;
    let a = ctx.pick("anchor", 4);
    let scaled = ctx.pick("scaled", 2) == 1;
    let Some((min, max)) = range_for(w, 0, a) else { return };
    let n = if w <= 8 { 19 } else { 9 };
    let vals = stream_values(min, max, n);
    let mut proto = xyz(F32);
    proto.push(rec("intensity", if scaled { Ty::Scaled { min, max, scale: 0.5, offset: 2.0 } } else { Ty::Int { min, max } }));
    proto.push(rec("timeStamp", Ty::F64 { min: None, max: None }));
    let points: Vec<Vec<Val>> = vals
        .iter()
        .enumerate()
        .map(|(i, v)| vec![Val::F32(i as f32), Val::F32(-1.5), Val::F32(f32::MAX), if scaled { Val::Scaled(*v) } else { Val::Int(*v) }, Val::F64(i as f64 * 0.1)])
        .collect();
    let mut scene = crate::scenes::scene(0);
    scene.clouds.clear();
    scene.clouds.push(m::Cloud { meta: m::CloudMeta { guid: Some("c".into()), ..Default::default() }, proto, points, records: n as u64, file_offset: 0 });
    let base = if ctx.tier_thorough && n * w as usize <= 24 * 8 { 3 } else { 2 };
    // proto_attrs: a limit that equals its default (i64::MIN / i64::MAX) may be left out, which gives
    // prototypes that declare only one of the two limits
    let k = Knobs { cuts: true, base_packets: base, proto_attrs: true, ..Knobs::NONE };
    if let Some((enc, exp)) = model_file(ctx, &scene, k) {
        judge(ctx, w as usize, &enc, &exp);
        ctx.count(format!("width:{w}"));
    }
}

/// G5 - zero width everywhere: prototypes whose records all have minimum == maximum (Integer and
/// ScaledInteger in every combination): no byte stream carries data, every point is implied
pub fn g5(ctx: &Ctx) {
    let mask = ctx.pick("scaled-records", 16); // which of the 4 records are ScaledInteger
    let n = [1usize, 3, 100][ctx.pick("npoints", 3)];
    let via = ctx.pick("producer", 2); // 0 the real writer, 1 the independent encoder
    let names = ["cartesianX", "cartesianY", "cartesianZ", "intensity"];
    let proto: Vec<m::Rec> = names
        .iter()
        .enumerate()
        .map(|(i, nm)| {
            let v = 5 * i as i64 - 7;
            rec(nm, if mask & (1 << i) != 0 { Ty::Scaled { min: v, max: v, scale: 0.5, offset: 1.0 } } else { Ty::Int { min: v, max: v } })
        })
        .collect();
    let points: Vec<Vec<Val>> = (0..n).map(|_| proto.iter().map(|r| match r.ty { Ty::Scaled { min, .. } => Val::Scaled(min), Ty::Int { min, .. } => Val::Int(min), _ => Val::Int(0) }).collect()).collect();
    ctx.describe(|| format!("{n} points, all four records of zero width, ScaledInteger mask {mask:04b}, produced by {}", ["the writer", "the independent encoder"][via]));
    if via == 0 {
        let cl = CloudSpec { meta: m::CloudMeta { guid: Some("z".into()), ..Default::default() }, proto, points, cap: None, abandon: false, rejects: Vec::new(), clear_limits: (false, false) };
        let p = Program { guid: "g".into(), ops: vec![Op::Cloud(cl)], ..Default::default() };
        if crate::oracle::roundtrip(ctx, &p, P).is_some() {
            ctx.nontrivial();
        }
    } else {
        let mut scene = crate::scenes::scene(0);
        scene.clouds.clear();
        scene.clouds.push(m::Cloud { meta: m::CloudMeta { guid: Some("z".into()), ..Default::default() }, proto, points, records: n as u64, file_offset: 0 });
        if let Some((enc, exp)) = model_file(ctx, &scene, Knobs::NONE) {
            judge(ctx, 0, &enc, &exp);
        }
    }
}

/// G3 — natural packet capacity: for every width one file of cap+9 points (the production cut)
pub fn g3(ctx: &Ctx) {
    let w = ctx.pick("width", 65) as u32;
    let Some((min, max)) = range_for(w, 0, if w == 64 { 2 } else { 0 }) else { return };
    let proto = vec![rec("cartesianX", Ty::Int { min, max }), rec("cartesianY", Ty::Int { min: 0, max: 1 }), rec("cartesianZ", Ty::Int { min: 0, max: 0 })];
    let cap = crate::c01::probe_cap(&proto);
    let n = cap + 9;
    let vals = stream_values(min, max, n);
    let mut cl = cloud(proto, n, 1);
    for (p, v) in cl.points.iter_mut().zip(vals.iter()) {
        p[0] = Val::Int(*v);
    }
    let p = Program { guid: "g".into(), ops: vec![Op::Cloud(cl)], ..Default::default() };
    ctx.describe(|| format!("width {w}: Int[{min},{max}] + 1-bit + 0-bit records, natural capacity {cap}, {n} points"));
    let Some(wr) = write_valid(ctx, &p, P) else { return };
    let rep = validate(&wr.bytes, &Options { strict: true, ..Default::default() });
    if !rep.ok() {
        ctx.violation(format!("{P}/{}/{}", rep.problems[0].rule, msg_class(&rep.problems[0].msg)), format!("independent validator: {} (width {w}, natural capacity {cap})", rep.summary()));
        return;
    }
    let sc = rep.scene.as_ref().unwrap();
    let exp: Vec<Vec<Val>> = p_points(&p).clone();
    let mut d = m::Diff::new();
    m::diff_points(&mut d, "independent decoder", &exp, &sc.clouds[0].points);
    if !d.out.is_empty() {
        ctx.violation(format!("{P}/natural-cut/decoded-values"), format!("{} (width {w}, capacity {cap})", d.out.join(" || ")));
        return;
    }
    if read_and_compare(ctx, &p, &wr, P, None).is_some() {
        ctx.count(format!("natural-cap:{w}={cap}"));
        ctx.nontrivial();
        ctx.observe(&wr.bytes[..wr.bytes.len().min(4096)]);
    }
}

fn drive_writer(vals: &[u64], w: usize, flush_at: Option<usize>) -> (Vec<u8>, usize) {
    let mut buf = ByteStreamWriteBuffer::new();
    let mut out = Vec::new();
    for (i, v) in vals.iter().enumerate() {
        buf.add_bits(&v.to_le_bytes(), w);
        if flush_at == Some(i) {
            out.extend(buf.get_full_bytes());
        }
    }
    let before_final = out.len();
    out.extend(buf.get_all_bytes());
    (out, before_final)
}

fn drive_reader(stream: &[u8], w: usize, min: i64, max: i64, split: usize, n: usize) -> Vec<i64> {
    let mut rb = ByteStreamReadBuffer::new();
    let mut q: VecDeque<e57::RecordValue> = VecDeque::new();
    rb.append(&stream[..split]);
    let _ = BitPack::unpack_ints(&mut rb, min, max, &mut q);
    rb.append(&stream[split..]);
    let _ = BitPack::unpack_ints(&mut rb, min, max, &mut q);
    let _ = w;
    q.into_iter().take(n).map(|v| if let e57::RecordValue::Integer(i) = v { i } else { i64::MIN }).collect()
}

/// G4 — direct drive of the bit-stream buffers through the verification hook: for w <= 12 every
/// value of the width at every position of a 9-value stream (other values all-zero / all-one),
/// get_full_bytes interleaved at every point, reader append split at every byte
pub fn g4(ctx: &Ctx) {
    let w = 1 + ctx.pick("width", 12);
    let k = ctx.pick("position", 9);
    let fill_ones = ctx.pick("fill", 2) == 1;
    let maxv: u64 = (1u64 << w) - 1;
    let fill = if fill_ones { maxv } else { 0 };
    ctx.describe(|| format!("direct drive: width {w}, every value 0..={maxv} at position {k} of 9, other values {fill}; flush after every index; reader split at every byte"));
    let mut n_eval = 0u64;
    for v in 0..=maxv {
        let mut vals = [fill; 9];
        vals[k] = v;
        let want = {
            let mut bw = bits::BitWriter::new();
            for x in &vals {
                bw.put(*x as u128, w as u32);
            }
            bw.bytes
        };
        for flush_at in std::iter::once(None).chain((0..9).map(Some)) {
            n_eval += 1;
            let res = crate::harness::guarded(|| drive_writer(&vals, w, flush_at));
            let (got, _) = match res {
                Ok(x) => x,
                Err(pi) => {
                    ctx.violation(format!("{P}/direct/panic/{}", pi.class()), format!("write buffer panicked at {} ({}) for width {w} values {vals:?} flush {flush_at:?}", pi.loc, pi.msg));
                    return;
                }
            };
            if got != want {
                ctx.violation(
                    format!("{P}/direct/write-bytes"),
                    format!("ByteStreamWriteBuffer: width {w}, values {vals:?}, get_full_bytes after index {flush_at:?}: got {got:02x?}, expected {want:02x?}"),
                );
                return;
            }
        }
        // reader: split the stream at every byte
        for split in 0..=want.len() {
            n_eval += 1;
            let res = crate::harness::guarded(|| drive_reader(&want, w, 0, maxv as i64, split, 9));
            let got = match res {
                Ok(x) => x,
                Err(pi) => {
                    ctx.violation(format!("{P}/direct/panic/{}", pi.class()), format!("read buffer panicked at {} ({}) for width {w} values {vals:?} split {split}", pi.loc, pi.msg));
                    return;
                }
            };
            let exp: Vec<i64> = vals.iter().map(|x| *x as i64).collect();
            if got != exp {
                ctx.violation(format!("{P}/direct/read-values"), format!("ByteStreamReadBuffer/BitPack: width {w}, stream {want:02x?} appended in two parts split at byte {split}: decoded {got:?}, expected {exp:?}"));
                return;
            }
        }
    }
    ctx.evals(n_eval);
    ctx.ops(n_eval * 10);
    ctx.nontrivial();
    ctx.observe_u64((w * 100 + k * 10 + fill_ones as usize) as u64);
}

/// G4b — for w <= 5 every 3-value sequence, written value by value with get_full_bytes after each
pub fn g4b(ctx: &Ctx) {
    let w = 1 + ctx.pick("width", 5);
    let maxv: u64 = (1u64 << w) - 1;
    let lead = ctx.pick("leading-values", 8); // shifts the bit phase
    ctx.describe(|| format!("direct drive: width {w}, {lead} leading values then every 3-value sequence"));
    let mut n_eval = 0;
    for a in 0..=maxv {
        for b in 0..=maxv {
            for c in 0..=maxv {
                let mut vals = vec![maxv / 2; lead];
                vals.extend([a, b, c]);
                let mut bw = bits::BitWriter::new();
                for x in &vals {
                    bw.put(*x as u128, w as u32);
                }
                let mut buf = ByteStreamWriteBuffer::new();
                let mut got = Vec::new();
                for v in &vals {
                    buf.add_bits(&v.to_le_bytes(), w);
                    got.extend(buf.get_full_bytes());
                }
                got.extend(buf.get_all_bytes());
                n_eval += 1;
                if got != bw.bytes {
                    ctx.violation(format!("{P}/direct/write-bytes"), format!("width {w}, values {vals:?} flushed after every value: got {got:02x?}, expected {:02x?}", bw.bytes));
                    return;
                }
                let dec = drive_reader(&got, w, 0, maxv as i64, got.len() / 2, vals.len());
                if dec.iter().map(|x| *x as u64).collect::<Vec<_>>() != vals {
                    ctx.violation(format!("{P}/direct/read-values"), format!("width {w}, stream {got:02x?}: decoded {dec:?}, expected {vals:?}"));
                    return;
                }
            }
        }
    }
    ctx.evals(n_eval);
    ctx.nontrivial();
    ctx.observe_u64((w * 10 + lead) as u64);
}
