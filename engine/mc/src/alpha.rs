//! Writer-program alphabet shared by several spaces (DESIGN §4.4).

use crate::cat;
use crate::harness::pattern;
use crate::wprog::*;
use e57spec::model as m;
use explore::Ctx;

pub fn blobref(data: Vec<u8>) -> m::BlobRef {
    m::BlobRef { offset: 0, length: data.len() as u64, data }
}

/// image kinds: 0 visual, 1 pinhole, 2 spherical, 3 cylindrical, 4 visual+pinhole
pub fn image(kind: usize, with_mask: bool, payload: usize, id: u64) -> m::Image {
    let rep = |proj: Option<m::ProjKind>, fmt: m::ImgFormat, sub: u64| m::Rep {
        format: fmt,
        blob: blobref(pattern(id * 16 + sub, payload)),
        mask: if with_mask { Some(blobref(pattern(id * 16 + sub + 8, payload / 2 + 3))) } else { None },
        width: 100 + id as i64 % 7,
        height: 50 + sub as i64,
        proj,
    };
    let mut img = m::Image { guid: Some(format!("img-{id}")), ..Default::default() };
    match kind {
        0 => img.visual = Some(rep(None, m::ImgFormat::Png, 0)),
        1 => img.projection = Some(rep(Some(m::ProjKind::Pinhole { focal: 0.0123, pw: 1e-5, ph: 2e-5, ppx: 50.5, ppy: 24.25 }), m::ImgFormat::Jpeg, 1)),
        2 => img.projection = Some(rep(Some(m::ProjKind::Spherical { pw: 0.0314, ph: 0.0157 }), m::ImgFormat::Png, 2)),
        3 => img.projection = Some(rep(Some(m::ProjKind::Cylindrical { radius: 2.5, ppy: 25.0, pw: 0.01, ph: 0.02 }), m::ImgFormat::Jpeg, 3)),
        _ => {
            img.visual = Some(rep(None, m::ImgFormat::Jpeg, 4));
            img.projection = Some(rep(Some(m::ProjKind::Pinhole { focal: 1.0, pw: 0.5, ph: 0.25, ppx: -1.0, ppy: 0.0 }), m::ImgFormat::Png, 5));
        }
    }
    img
}

pub fn cloud(proto: Vec<m::Rec>, n: usize, id: u64) -> CloudSpec {
    let points = cat::points_for(&proto, n, id as usize);
    CloudSpec { meta: m::CloudMeta { guid: Some(format!("pc-{id}")), ..Default::default() }, proto, points, cap: None, abandon: false, rejects: Vec::new(), clear_limits: (false, false) }
}

/// Number of ops in the standard alphabet.
pub const N_OPS: usize = 30;

/// Op `k` of the standard alphabet, instantiated at program position `pos` (payload patterns are
/// unique per position so that a descriptor leading to the wrong data is detected).
pub fn std_op(k: usize, pos: usize) -> Op {
    let id = (pos as u64 + 1) * 100 + k as u64;
    match k {
        0 => Op::Blob(pattern(id, 0)),
        1 => Op::Blob(pattern(id, 1)),
        2 => Op::Blob(pattern(id, 1003)),
        3 => Op::Blob(pattern(id, 1004)),
        4 => Op::Image(image(0, false, 10, id)),
        5 => Op::Image(image(4, true, 900, id)),
        _ => {
            let j = k - 6;
            let protos = cat::prototypes();
            let (pi, ni) = (j / 4, j % 4);
            let n = [0usize, 1, 2, 7][ni];
            Op::Cloud(cloud(protos[pi].1.clone(), n, id))
        }
    }
}

/// Choose a program of depth <= max_depth over the standard alphabet through free choice points.
pub fn pick_program(ctx: &Ctx, max_depth: usize) -> Program {
    let depth = ctx.pick("prog-depth", max_depth + 1);
    let mut ops = Vec::new();
    for pos in 0..depth {
        let k = ctx.pick("prog-op", N_OPS);
        ops.push(std_op(k, pos));
    }
    Program { guid: "file-guid".into(), ops, ..Default::default() }
}
