//! C14 — bounds and default limits written by the writer are exact.

use crate::cat::{rec, F32, F64};
use crate::oracle::*;
use crate::wprog::*;
use e57spec::model::{self as m, LVal, Rec, Ty, Val};
use explore::Ctx;

const P: &str = "C14";

fn real(v: &Val, ty: &Ty) -> f64 {
    match (v, ty) {
        (Val::F32(x), _) => *x as f64,
        (Val::F64(x), _) => *x,
        (Val::Int(x), _) => *x as f64,
        (Val::Scaled(x), Ty::Scaled { scale, offset, .. }) => *x as f64 * *scale + *offset,
        (Val::Scaled(x), _) => *x as f64,
    }
}

/// three distinct ascending in-range values for a type, from value set `vs` (0 small, 1 extremes, 2 sign-mixed, 3 infinite ends, 4 a NaN between two finite values: NaN is no real value and cannot be a bound)
fn triple(ty: &Ty, vs: usize) -> [Val; 3] {
    match ty {
        Ty::F32 { .. } => {
            let t: [f32; 3] = match vs {
                0 => [1.5, 2.25, 1000.125],
                1 => [f32::MIN, f32::MIN_POSITIVE, f32::MAX],
                2 => [-3.5, -0.0, 7.0],
                3 => [f32::NEG_INFINITY, 2.0, f32::INFINITY],
                _ => [-3.5, f32::NAN, 7.0],
            };
            [Val::F32(t[0]), Val::F32(t[1]), Val::F32(t[2])]
        }
        Ty::F64 { .. } => {
            let t: [f64; 3] = match vs {
                0 => [1.5, 2.25, 1000.125],
                1 => [f64::MIN, f64::from_bits(1), f64::MAX],
                2 => [-3.5, 0.0, 1e-300],
                3 => [f64::NEG_INFINITY, 2.0, f64::INFINITY],
                _ => [-3.5, f64::NAN, 7.0],
            };
            [Val::F64(t[0]), Val::F64(t[1]), Val::F64(t[2])]
        }
        Ty::Scaled { scale, offset, .. } if *scale == 0.001 && *offset == 2.5 => [Val::Scaled(-18478), Val::Scaled([7, 1, -7, 0, 3][vs % 5]), Val::Scaled(1001)],
        Ty::Int { min, max } | Ty::Scaled { min, max, .. } => {
            let (lo, hi) = (*min as i128, *max as i128);
            let t: [i128; 3] = if hi - lo < 2 {
                [lo, lo, hi]
            } else {
                match vs {
                    0 => [lo + 1, lo + (hi - lo) / 2, hi - 1],
                    1 => [lo, lo + 1, hi],
                    _ => [lo, (lo + hi) / 2, hi],
                }
            };
            let mk = |x: i128| if matches!(ty, Ty::Int { .. }) { Val::Int(x as i64) } else { Val::Scaled(x as i64) };
            [mk(t[0]), mk(t[1]), mk(t[2])]
        }
    }
}

const ORDERS: [[usize; 3]; 6] = [[0, 1, 2], [0, 2, 1], [1, 0, 2], [1, 2, 0], [2, 0, 1], [2, 1, 0]];

/// number of coordinate types (the last one is a scaled integer with a non-zero offset whose
/// products with the scale are not exact: value * scale + offset must be rounded twice, as the
/// reader does it)
const N_COORD_TYPES: usize = 6;
fn coord_type(k: usize) -> Ty {
    match k {
        0 => F32,
        1 => F64,
        2 => Ty::Scaled { min: -100_000, max: 100_000, scale: 0.001, offset: 0.0 },
        3 => Ty::Scaled { min: -7, max: 1 << 40, scale: -0.5, offset: 3.0 },
        5 => Ty::Scaled { min: -100_000, max: 100_000, scale: 0.001, offset: 2.5 },
        _ => Ty::Int { min: -100, max: 100 },
    }
}
fn idx_type(k: usize) -> Ty {
    match k {
        0 => Ty::Int { min: 0, max: 1000 },
        1 => Ty::Int { min: -3, max: 3 },
        _ => Ty::Int { min: i64::MIN, max: i64::MAX },
    }
}
fn attr_type(k: usize) -> Ty {
    match k {
        0 => Ty::Int { min: 0, max: 255 },
        1 => Ty::F32 { min: Some(0.0), max: Some(1.0) },
        2 => Ty::Scaled { min: 0, max: 1023, scale: 0.001, offset: 0.0 },
        3 => Ty::F64 { min: Some(-1.0), max: Some(1.0) },
        4 => F32,
        _ => Ty::F32 { min: Some(0.5), max: None },
    }
}

pub fn type_limits(ty: &Ty) -> (Option<LVal>, Option<LVal>) {
    match ty {
        Ty::F32 { min, max } => (min.map(LVal::F32), max.map(LVal::F32)),
        Ty::F64 { min, max } => (min.map(LVal::F64), max.map(LVal::F64)),
        Ty::Int { min, max } => (Some(LVal::Int(*min)), Some(LVal::Int(*max))),
        Ty::Scaled { min, max, .. } => (Some(LVal::Scaled(*min)), Some(LVal::Scaled(*max))),
    }
}

fn override_val(k: usize, hi: bool) -> LVal {
    match k {
        1 => LVal::Int(if hi { 4095 } else { -7 }),
        2 => LVal::F32(if hi { 0.75 } else { 0.125 }),
        3 => LVal::F64(if hi { 1e300 } else { -1e-300 }),
        _ => LVal::Scaled(if hi { i64::MAX } else { i64::MIN }),
    }
}

fn num_eq(a: Option<f64>, b: Option<f64>) -> bool {
    match (a, b) {
        (None, None) => true,
        (Some(a), Some(b)) => a == b || (a.is_nan() && b.is_nan()),
        _ => false,
    }
}

pub fn bounds(ctx: &Ctx) {
    // free: attribute-group subset and sequence kind
    let base = ctx.pick("coords", 3); // 0 cartesian, 1 spherical, 2 both
    let groups = ctx.pick("groups", 16); // bit0 row/col, bit1 return, bit2 colour, bit3 intensity
    let seq = ctx.pick("seq", 4); // 0 empty, 1 single, 2 constant x3, 3 three distinct values
    // deviation-counted: types, value set, overrides, per-attribute orders
    let ct = ctx.choose("coord-type", N_COORD_TYPES);
    // Y and Z (elevation and range) may have a type of their own
    let cty = (ct + ctx.choose("y-type-shift", N_COORD_TYPES)) % N_COORD_TYPES;
    let ctz = (ct + ctx.choose("z-type-shift", N_COORD_TYPES)) % N_COORD_TYPES;
    let st = ctx.choose("spherical-type", 4);
    let it = ctx.choose("index-type", 3);
    let at = ctx.choose("intensity-type", 6);
    let colt = ctx.choose("colour-type", 6);
    // green and blue may have a type of their own (default: the same as red)
    let gt = (colt + ctx.choose("green-type-shift", 6)) % 6;
    let bt = (colt + ctx.choose("blue-type-shift", 6)) % 6;
    let vs = ctx.choose("value-set", 5);
    let ov_i = ctx.choose("intensity-override", 5);
    let ov_c = ctx.choose("colour-override", 5);

    let mut proto: Vec<Rec> = Vec::new();
    if base != 1 {
        proto.push(rec("cartesianX", coord_type(ct)));
        proto.push(rec("cartesianY", coord_type(cty)));
        proto.push(rec("cartesianZ", coord_type(ctz)));
    }
    if base != 0 {
        proto.push(rec("sphericalRange", coord_type((st + ctz) % 5)));
        proto.push(rec("sphericalAzimuth", coord_type(st)));
        proto.push(rec("sphericalElevation", coord_type((st + cty) % 4)));
    }
    if groups & 1 != 0 {
        proto.push(rec("rowIndex", idx_type(it)));
        proto.push(rec("columnIndex", idx_type(it)));
    }
    if groups & 2 != 0 {
        proto.push(rec("returnCount", Ty::Int { min: 0, max: 9 }));
        proto.push(rec("returnIndex", idx_type(it)));
    }
    if groups & 4 != 0 {
        proto.push(rec("colorRed", attr_type(colt)));
        proto.push(rec("colorGreen", attr_type(gt)));
        proto.push(rec("colorBlue", attr_type(bt)));
    }
    if groups & 8 != 0 {
        proto.push(rec("intensity", attr_type(at)));
    }
    // points
    let npts = [0usize, 1, 3, 3][seq];
    let mut points: Vec<Vec<Val>> = vec![Vec::new(); npts];
    for r in &proto {
        let t = triple(&r.ty, vs);
        let order = if seq == 3 { ORDERS[ctx.choose("order", 6)] } else { ORDERS[0] };
        for (i, pt) in points.iter_mut().enumerate() {
            let v = match seq {
                1 => t[1],
                2 => t[2],
                _ => t[order[i]],
            };
            pt.push(v);
        }
    }
    let mut meta = m::CloudMeta { guid: Some("pc".into()), ..Default::default() };
    if ov_i > 0 {
        meta.intensity_limits = Some([Some(override_val(ov_i, false)), Some(override_val(ov_i, true))]);
    }
    if ov_c > 0 {
        let (lo, hi) = (Some(override_val(ov_c, false)), Some(override_val(ov_c, true)));
        meta.color_limits = Some([lo, hi, lo, hi, lo, hi]);
    }
    // packet capacity (hooked): with 1, 2 or 3 points per packet the extreme value is also carried by
    // a point that completes a packet
    let cap = [None, Some(1), Some(2), Some(3)][ctx.choose("packet-capacity", 4)];
    // a call the writer must refuse (the last value has the wrong type) whose other values are new
    // extremes of every attribute: it must leave no trace in the bounds
    let rejects = match ctx.choose("refused-call", 4) {
        0 => Vec::new(),
        k => {
            let mut v: Vec<Val> = proto
                .iter()
                .map(|r| match &r.ty {
                    Ty::F32 { max, .. } => Val::F32(max.unwrap_or(1.0e30)),
                    Ty::F64 { max, .. } => Val::F64(max.unwrap_or(1.0e300)),
                    Ty::Int { max, .. } => Val::Int(*max),
                    Ty::Scaled { max, .. } => Val::Scaled(*max),
                })
                .collect();
            if let Some(last) = v.last_mut() {
                *last = if matches!(last, Val::F32(_) | Val::F64(_)) { Val::Int(0) } else { Val::F64(0.5) };
            }
            vec![([0, points.len() / 2, points.len()][k - 1], v)]
        }
    };
    // the caller clears the default limits explicitly (set_*_limits(None)) before a possible override
    let clear_limits = [(false, false), (true, false), (false, true), (true, true)][ctx.choose("limits-cleared-first", 4)];
    let spec = CloudSpec { meta, proto: proto.clone(), points: points.clone(), cap, abandon: false, rejects, clear_limits };
    let p = Program { guid: "g".into(), ops: vec![Op::Cloud(spec)], ..Default::default() };
    ctx.describe(|| describe(&p));
    let Some(w) = write_valid(ctx, &p, P) else { return };
    let Some(rb) = read_and_compare(ctx, &p, &w, P, None) else { return };
    let got = &rb.scene.clouds[0].meta;

    // expected bounds: plain fold over the harness's own point list
    let fold = |name: &str| -> (Option<f64>, Option<f64>) {
        let Some(k) = proto.iter().position(|r| r.name == name) else { return (None, None) };
        let mut lo: Option<f64> = None;
        let mut hi: Option<f64> = None;
        for pt in &points {
            let v = real(&pt[k], &proto[k].ty);
            if v.is_nan() {
                continue;
            }
            lo = Some(lo.map_or(v, |l: f64| if v < l { v } else { l }));
            hi = Some(hi.map_or(v, |h: f64| if v > h { v } else { h }));
        }
        (lo, hi)
    };
    let has = |n: &str| proto.iter().any(|r| r.name == n);
    let mut bad: Vec<String> = Vec::new();
    let check6 = |bad: &mut Vec<String>, what: &str, present: bool, got: &Option<[Option<f64>; 6]>, names: [&str; 3]| {
        match (present, got) {
            (false, None) => {}
            (true, Some(g)) => {
                for (i, n) in names.iter().enumerate() {
                    let (lo, hi) = fold(n);
                    if lo.is_none() && !points.is_empty() {
                        continue; // only NaN values: the statement defines no minimum or maximum
                    }
                    if !num_eq(lo, g[2 * i]) || !num_eq(hi, g[2 * i + 1]) {
                        bad.push(format!("{what}: {n} expected [{lo:?},{hi:?}], stored [{:?},{:?}]", g[2 * i], g[2 * i + 1]));
                    }
                }
            }
            (p, g) => bad.push(format!("{what}: presence expected {p}, got {}", g.is_some())),
        }
    };
    // "stored": the bounds are judged as the file states them. The element names of the file are
    // read by the independent decoder; the crate's own reader must report the same numbers (a
    // writer and a reader that agree on a private naming would otherwise go unnoticed).
    {
        let rep = e57spec::decode::validate(&w.bytes, &Default::default());
        if let Some(sm) = rep.scene.as_ref().and_then(|s| s.clouds.first()).map(|c| c.meta.clone()) {
            let pair = |what: &str, a: &Option<[Option<f64>; 6]>, b: &Option<[Option<f64>; 6]>, bad: &mut Vec<String>| {
                let same = match (a, b) {
                    (None, None) => true,
                    (Some(x), Some(y)) => x.iter().zip(y.iter()).all(|(p, q)| num_eq(*p, *q)),
                    _ => false,
                };
                if !same {
                    bad.push(format!("{what}: the file states {a:?} (element names read by the independent decoder), the reader reports {b:?}"));
                }
            };
            pair("cartesianBounds-as-stored", &sm.cartesian_bounds, &got.cartesian_bounds, &mut bad);
            pair("sphericalBounds-as-stored", &sm.spherical_bounds, &got.spherical_bounds, &mut bad);
            if sm.index_bounds != got.index_bounds {
                bad.push(format!("indexBounds-as-stored: the file states {:?}, the reader reports {:?}", sm.index_bounds, got.index_bounds));
            }
        }
    }
    check6(&mut bad, "cartesianBounds", has("cartesianX"), &got.cartesian_bounds, ["cartesianX", "cartesianY", "cartesianZ"]);
    check6(&mut bad, "sphericalBounds", has("sphericalAzimuth"), &got.spherical_bounds, ["sphericalRange", "sphericalElevation", "sphericalAzimuth"]);
    let idx_present = has("rowIndex") || has("columnIndex") || has("returnIndex");
    match (idx_present, &got.index_bounds) {
        (false, None) => {}
        (true, Some(g)) => {
            for (i, n) in ["rowIndex", "columnIndex", "returnIndex"].iter().enumerate() {
                let k = proto.iter().position(|r| r.name == *n);
                let (mut lo, mut hi): (Option<i64>, Option<i64>) = (None, None);
                if let Some(k) = k {
                    for pt in &points {
                        if let Val::Int(v) = pt[k] {
                            lo = Some(lo.map_or(v, |l| l.min(v)));
                            hi = Some(hi.map_or(v, |h| h.max(v)));
                        }
                    }
                }
                if lo != g[2 * i] || hi != g[2 * i + 1] {
                    bad.push(format!("indexBounds: {n} expected [{lo:?},{hi:?}], stored [{:?},{:?}]", g[2 * i], g[2 * i + 1]));
                }
            }
        }
        (p, g) => bad.push(format!("indexBounds: presence expected {p}, got {}", g.is_some())),
    }
    // limits
    let leq = |a: &Option<LVal>, b: &Option<LVal>| match (a, b) {
        (None, None) => true,
        (Some(a), Some(b)) => a.key() == b.key(),
        _ => false,
    };
    if has("intensity") {
        let ty = &proto.iter().find(|r| r.name == "intensity").unwrap().ty;
        let exp: Option<[Option<LVal>; 2]> = if ov_i > 0 {
            Some([Some(override_val(ov_i, false)), Some(override_val(ov_i, true))])
        } else if clear_limits.1 {
            None
        } else {
            let (lo, hi) = type_limits(ty);
            if lo.is_some() && hi.is_some() {
                Some([lo, hi])
            } else {
                None
            }
        };
        let ok = match (&exp, &got.intensity_limits) {
            (None, None) => true,
            (Some(e), Some(g)) => leq(&e[0], &g[0]) && leq(&e[1], &g[1]),
            _ => false,
        };
        if !ok {
            bad.push(format!("intensityLimits: expected {exp:?}, stored {:?} (type {})", got.intensity_limits, ty.describe()));
        }
    } else if ov_i == 0 && got.intensity_limits.is_some() {
        bad.push("intensityLimits present without an intensity attribute".into());
    }
    if has("colorRed") {
        let ty = &proto.iter().find(|r| r.name == "colorRed").unwrap().ty;
        let exp: Option<[Option<LVal>; 6]> = if ov_c > 0 {
            let (lo, hi) = (Some(override_val(ov_c, false)), Some(override_val(ov_c, true)));
            Some([lo, hi, lo, hi, lo, hi])
        } else if clear_limits.0 {
            None
        } else {
            let tl = |n: &str| type_limits(&proto.iter().find(|r| r.name == n).unwrap().ty);
            let (r, g, b) = (tl("colorRed"), tl("colorGreen"), tl("colorBlue"));
            let all = [r.0, r.1, g.0, g.1, b.0, b.1];
            // limits are only stored when every minimum and maximum is known
            if all.iter().all(|x| x.is_some()) {
                Some(all)
            } else {
                None
            }
        };
        let ok = match (&exp, &got.color_limits) {
            (None, None) => true,
            (Some(e), Some(g)) => e.iter().zip(g.iter()).all(|(a, b)| leq(a, b)),
            _ => false,
        };
        if !ok {
            bad.push(format!("colorLimits: expected {exp:?}, stored {:?} (type {})", got.color_limits, ty.describe()));
        }
    } else if ov_c == 0 && got.color_limits.is_some() {
        bad.push("colorLimits present without colour attributes".into());
    }
    // every point read back lies within the stored bounds
    let within = |bad: &mut Vec<String>, names: [&str; 3], b: &Option<[Option<f64>; 6]>| {
        if let Some(b) = b {
            for (i, n) in names.iter().enumerate() {
                if let Some(k) = proto.iter().position(|r| r.name == *n) {
                    for pt in &rb.scene.clouds[0].points {
                        let v = real(&pt[k], &proto[k].ty);
                        if v.is_nan() {
                            continue; // not a real value: neither inside nor outside
                        }
                        if b[2 * i].map_or(true, |lo| v < lo) || b[2 * i + 1].map_or(true, |hi| v > hi) {
                            bad.push(format!("point value {v} of {n} lies outside the stored bounds [{:?},{:?}]", b[2 * i], b[2 * i + 1]));
                            return;
                        }
                    }
                }
            }
        }
    };
    within(&mut bad, ["cartesianX", "cartesianY", "cartesianZ"], &got.cartesian_bounds);
    within(&mut bad, ["sphericalRange", "sphericalElevation", "sphericalAzimuth"], &got.spherical_bounds);
    if !bad.is_empty() {
        ctx.violation(
            format!("{P}/bounds/{}", diff_class(&bad[0])),
            format!("{} || program: {}", bad.join(" || "), describe(&p)),
        );
        return;
    }
    ctx.count(format!("groups:{base}-{groups}"));
    if npts > 0 {
        ctx.nontrivial();
    }
    ctx.observe(rb.xml.as_bytes());
}
