//! C02 — every finalized file is a well-formed E57 file by an independent decoder.

use crate::alpha::*;
use crate::c01;
use crate::cat::{rec, xyz, F32};
use e57spec::model::Ty;
use crate::harness::pattern;
use crate::oracle::*;
use crate::wprog::*;
use e57spec::decode::{validate, Options};
use e57spec::model as m;
use explore::Ctx;

const P: &str = "C02";

/// Validate the produced bytes with the independent implementation and compare the decoded
/// scene with the harness's record.
pub fn spec_check(ctx: &Ctx, p: &Program, w: &Written) -> bool {
    let opt = Options { extra_blobs: w.run.blobs.clone(), strict: true };
    let rep = validate(&w.bytes, &opt);
    ctx.op();
    if !rep.ok() {
        let first = &rep.problems[0];
        ctx.violation(
            format!("{P}/{}/{}", first.rule, msg_class(&strip_path(&first.msg))),
            format!("independent validator: {} || program: {}", rep.summary(), describe(p)),
        );
        return false;
    }
    let Some(scene) = rep.scene.as_ref() else {
        ctx.violation(format!("{P}/R10/no-scene"), "validator produced no scene".to_string());
        return false;
    };
    let mut exp = expected_scene(p);
    exp.library_version = scene.library_version.clone();
    let d = m::diff_scene(&exp, scene, false, false);
    if !d.is_empty() {
        ctx.violation(
            format!("{P}/R10/{}", diff_class(&d[0])),
            format!("independent decoder sees other content than was handed to the writer: {} || program: {}", d.join(" || "), describe(p)),
        );
        return false;
    }
    // limits as decoded independently: an explicit override as given, otherwise the declared range of
    // the attribute types (value and float precision), present only when every member is known
    for (i, (e, g)) in exp.clouds.iter().zip(scene.clouds.iter()).enumerate() {
        let tl = |n: &str| e.proto.iter().find(|r| r.ns.is_none() && r.name == n).map(|r| crate::c14::type_limits(&r.ty));
        let same = |a: &Option<m::LVal>, b: &Option<m::LVal>| a.map(|v| v.key()) == b.map(|v| v.key());
        let exp_int: Option<[Option<m::LVal>; 2]> = match (&e.meta.intensity_limits, tl("intensity")) {
            (Some(l), _) => Some(*l),
            (None, Some(t)) if t.0.is_some() && t.1.is_some() => Some([t.0, t.1]),
            _ => None,
        };
        let exp_col: Option<[Option<m::LVal>; 6]> = match (&e.meta.color_limits, tl("colorRed"), tl("colorGreen"), tl("colorBlue")) {
            (Some(l), ..) => Some(*l),
            (None, Some(r), Some(gn), Some(b)) if [r.0, r.1, gn.0, gn.1, b.0, b.1].iter().all(|x| x.is_some()) => Some([r.0, r.1, gn.0, gn.1, b.0, b.1]),
            _ => None,
        };
        let complete = |l: &[Option<m::LVal>]| l.iter().all(|x| x.is_some());
        let ok_int = match (&exp_int, &g.meta.intensity_limits) {
            (Some(a), Some(b)) => same(&a[0], &b[0]) && same(&a[1], &b[1]),
            (Some(a), None) => !complete(a), // incomplete limits are left out by design
            (None, None) => true,
            (None, Some(_)) => false,
        };
        let ok_col = match (&exp_col, &g.meta.color_limits) {
            (Some(a), Some(b)) => a.iter().zip(b.iter()).all(|(x, y)| same(x, y)),
            (Some(a), None) => !complete(a),
            (None, None) => true,
            (None, Some(_)) => false,
        };
        if !ok_int || !ok_col {
            ctx.violation(
                format!("{P}/R10/data3D.limits"),
                format!("data3D[{i}]: limits decoded independently: intensity {:?} (expected {exp_int:?}), colour {:?} (expected {exp_col:?}) || program: {}", g.meta.intensity_limits, g.meta.color_limits, describe(p)),
            );
            return false;
        }
    }
    // free-standing blobs, decoded independently
    for (k, ((off, len), data)) in w.run.blobs.iter().zip(blob_payloads(p).iter()).enumerate() {
        match e57spec::decode::blob_bytes(&w.bytes, *off, *len) {
            Ok(b) if &b == data => {}
            other => {
                ctx.violation(format!("{P}/R10/blob"), format!("blob #{k} at {off}: independent decoder got {:?} bytes, expected {}; program: {}", other.map(|b| b.len()), data.len(), describe(p)));
                return false;
            }
        }
    }
    ctx.count(format!("xmlres:{}", rep.header.xml_phys_offset % 1024 / 4));
    ctx.count(format!("pages:{}", (w.bytes.len() / 1024).min(64)));
    if let Some(x) = &rep.xml {
        ctx.count(format!("xmlendres:{}", (rep.xml_log_start + x.len() as u64) % 1020 / 4));
    }
    ctx.observe(&w.bytes);
    true
}

/// "data3D[0]: section ..." -> "section ..." so that the class does not depend on the position
fn strip_path(s: &str) -> String {
    match s.split_once(": ") {
        Some((a, b)) if a.contains('[') || a.contains('/') => b.to_string(),
        _ => s.to_string(),
    }
}

fn run(ctx: &Ctx, p: &Program) {
    ctx.describe(|| describe(p));
    if let Some(w) = write_valid(ctx, p, P) {
        if spec_check(ctx, p, &w) {
            ctx.nontrivial();
        }
    }
}

pub fn s1(ctx: &Ctx) {
    let (p, _) = c01::gen_s1(ctx);
    run(ctx, &p);
}
pub fn s2(ctx: &Ctx) {
    let depth = if ctx.tier_thorough { 4 } else { 3 };
    let mut p = pick_program(ctx, depth);
    p.xml_mode = ctx.pick("xml-mode", 3) as u8;
    run(ctx, &p);
}
pub fn s4(ctx: &Ctx) {
    let (p, _, _, _) = c01::gen_s4(ctx);
    run(ctx, &p);
}
/// blobs: length 0..=1023 x 17 start residues (stride 15 covers every residue class mod 4 x page end)
pub fn blobs(ctx: &Ctx) {
    let len = ctx.pick("len", 1024);
    let pad4 = 15 * ctx.pick("pad60", 17);
    let p = Program { guid: "g".into(), ops: vec![Op::Blob(pattern(1, 4 * pad4)), Op::Blob(pattern(len as u64, len)), Op::Image(image(3, true, len, 5))], ..Default::default() };
    // the payload sources deliver their data in full, in halves or alternating (rotated)
    let chunk = [crate::dev::Chunk::Full, crate::dev::Chunk::AlwaysHalf, crate::dev::Chunk::Alternate][(len + pad4) % 3];
    ctx.describe(|| format!("{} [payload sources read with {chunk:?}]", describe(&p)));
    if let Some(w) = write_valid_opts(ctx, &p, P, &ExecOpts { src_chunk: chunk, ctx: None }) {
        if spec_check(ctx, &p, &w) {
            ctx.nontrivial();
        }
    }
}

/// a device that is not empty (old bytes of several kinds, handle at the start or at the end): the
/// writer may refuse to start - but if it starts, what it finalizes successfully must be a
/// well-formed file like any other
pub fn stale_device(ctx: &Ctx) {
    let old: Vec<u8> = match ctx.pick("old-content", 6) {
        0 => vec![1, 2, 3],
        1 => vec![0u8; 1024],
        2 => vec![0xAAu8; 5000],
        3 => vec![0x55u8; 9999],
        4 => pattern(5, 20 * 1024),
        _ => {
            // a complete, larger file
            let p = Program { guid: "old".into(), ops: vec![Op::Blob(pattern(8, 7000)), Op::Cloud(cloud(xyz(F32), 300, 4))], ..Default::default() };
            let dev = crate::dev::Dev::empty();
            let h = dev.handle();
            let _ = run_program(dev, &p, &ExecOpts::default());
            h.snapshot()
        }
    };
    let at_end = ctx.pick("handle-position", 2) == 1;
    let p = [
        Program { guid: "g".into(), ops: vec![], ..Default::default() },
        Program { guid: "g".into(), ops: vec![Op::Blob(pattern(1, 10)), Op::Cloud(cloud(xyz(F32), 3, 5))], ..Default::default() },
        Program { guid: "g".into(), ops: vec![Op::Cloud(cloud(xyz(F32), 200, 6)), Op::Image(image(3, true, 33, 5))], ..Default::default() },
    ][ctx.pick("program", 3)]
    .clone();
    ctx.describe(|| format!("device already holds {} bytes, handle at the {}: {}", old.len(), if at_end { "end" } else { "start" }, describe(&p)));
    let mut dev = crate::dev::Dev::new(old.clone());
    if at_end {
        use std::io::Seek;
        let _ = dev.seek(std::io::SeekFrom::End(0));
    }
    let h = dev.handle();
    let run = run_program(dev, &p, &ExecOpts::default());
    if let Some((i, pi)) = &run.panic {
        ctx.violation(format!("{P}/write-panic/{}", pi.class()), format!("writer panicked at {} ({}) during op #{i} on a device that was not empty", pi.loc, pi.msg));
        return;
    }
    if run.err.is_some() || !run.finalized {
        ctx.count("refused-to-write-on-a-used-device");
        ctx.nontrivial();
        return;
    }
    let w = Written { bytes: h.snapshot(), run };
    if spec_check(ctx, &p, &w) {
        ctx.nontrivial();
    }
}

/// tiny clouds of narrow records only (the program space of C12-G6)
pub fn tiny(ctx: &Ctx) {
    let (p, _) = crate::c12::gen_g6(ctx);
    run(ctx, &p);
}

/// a payload source that fails after k bytes: the refused blob leaves an orphan behind, but every
/// later section and the finalized file must still be well-formed (finalize succeeded)
pub fn failed_source(ctx: &Ctx) {
    let k = [0usize, 1, 2, 3, 4, 5, 7, 1003, 1004, 1005, 2041][ctx.pick("source-fails-after", 11)];
    let pad = [0usize, 1, 2, 3, 956][ctx.pick("blob-in-front", 5)];
    let after = ctx.pick("what-follows", 4);
    let mut ops = vec![];
    if pad > 0 {
        ops.push(Op::Blob(pattern(1, pad)));
    }
    ops.push(Op::BlobFail(pattern(9, 5000), k));
    match after {
        0 => ops.push(Op::Cloud(cloud(xyz(F32), 3, 5))),
        1 => {
            // several packets: XYZ f32 + 16 bit intensity, 12000 points
            let mut pr = xyz(F32);
            pr.push(rec("intensity", Ty::Int { min: 0, max: 65535 }));
            ops.push(Op::Cloud(cloud(pr, 12000, 6)));
        }
        2 => ops.push(Op::Image(image(3, true, 33, 5))),
        _ => ops.push(Op::Blob(pattern(4, 10))),
    }
    ops.push(Op::Cloud(cloud(xyz(Ty::Int { min: 0, max: 100 }), 2, 8)));
    let p = Program { guid: "g".into(), ops, ..Default::default() };
    run(ctx, &p);
}

/// long payloads (multi-page, around powers of two up to 1 MiB) from short-read sources
pub fn long_blobs(ctx: &Ctx) {
    const LENS: [usize; 12] = [1019, 1020, 1021, 2040, 4095, 4096, 4097, 8193, 65535, 65537, 300_000, 1_048_577];
    let len = LENS[ctx.pick("len", LENS.len())];
    let chunk = [crate::dev::Chunk::Full, crate::dev::Chunk::AlwaysHalf, crate::dev::Chunk::Alternate][ctx.pick("source-reads", 3)];
    let p = Program { guid: "g".into(), ops: vec![Op::Blob(pattern(len as u64, len)), Op::Image(image(1, true, len, 6)), Op::Blob(pattern(7, 9))], ..Default::default() };
    ctx.describe(|| format!("{} [payload sources read with {chunk:?}]", describe(&p)));
    if let Some(w) = write_valid_opts(ctx, &p, P, &ExecOpts { src_chunk: chunk, ctx: None }) {
        if spec_check(ctx, &p, &w) {
            ctx.nontrivial();
        }
    }
}

/// extension programs: all sequences of <= 3 registration attempts over 2 prefixes x 2 URLs,
/// followed by a cloud using an attribute of the first prefix (when registered)
pub fn ext(ctx: &Ctx) {
    let p = ext_program(ctx);
    run(ctx, &p);
}

pub fn ext_program(ctx: &Ctx) -> Program {
    let n = ctx.pick("registrations", 4);
    let mut ops = Vec::new();
    for _ in 0..n {
        let k = ctx.pick("registration", 9);
        let (pf, url) = [
            ("ext", "http://example.com/a"),
            ("ext", "http://example.com/b"),
            ("e2", "http://example.com/a"),
            ("e2", "urn:x:y"),
            ("e2", ""),
            ("ext", ""),
            // namespace names that cannot be bound to an extension prefix
            ("ext", e57spec::model::E57_NS),
            ("e2", "http://www.w3.org/XML/1998/namespace"),
            ("ext", "http://www.w3.org/2000/xmlns/"),
        ][k];
        ops.push(Op::ExtTry(pf.into(), url.into()));
    }
    let has_ext = ops.iter().any(|o| matches!(o, Op::ExtTry(p, u) if p == "ext" && crate::wprog::ext_url_ok(u)));
    let mut proto = crate::cat::xyz(crate::cat::F32);
    if has_ext {
        proto.push(crate::cat::ext_rec("ext", "attr", e57spec::model::Ty::Int { min: 0, max: 9 }));
    }
    ops.push(Op::Cloud(cloud(proto, 2, 3)));
    Program { guid: "g".into(), ops, ..Default::default() }
}

/// metadata-rich files: every catalogue string (non-ASCII, astral, markup characters) in every
/// string field (rotated), 5 image kinds rotating along, judged by the independent validator
pub fn meta(ctx: &Ctx) {
    let strings = crate::cat::strings();
    let s0 = ctx.pick("string", strings.len());
    let p = crate::c04::build_with(&strings, s0, s0 % 5);
    run(ctx, &p);
}
