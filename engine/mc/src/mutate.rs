//! E3 — structure-aware mutation menu over a seed corpus (C08, C09).

use crate::alpha::*;
use crate::cat;
use crate::dev::Dev;
use crate::wprog::*;
use e57spec::decode::{validate, Options};
use e57spec::encode::{encode, Canonical, Choose, Knobs};
use e57spec::page;

pub struct Seed {
    pub name: String,
    pub bytes: Vec<u8>,
}

struct Fixed(Vec<(String, usize)>);
impl Choose for Fixed {
    fn choose(&mut self, label: &str, arity: usize) -> usize {
        for (l, v) in &self.0 {
            if label.contains(l.as_str()) {
                return *v % arity;
            }
        }
        0
    }
}

fn written(p: &Program) -> Vec<u8> {
    let dev = Dev::empty();
    let h = dev.handle();
    let _ = run_program(dev, p, &ExecOpts::default());
    h.snapshot()
}

pub const BUNDLED: [&str; 14] = [
    "empty.e57",
    "empty_pc.e57",
    "float_intensity_without_min_max.e57",
    "integer_intensity.e57",
    "las2e57_no_images_tag.e57",
    "no_ext_namespace.e57",
    "original_guids.e57",
    "scaled_integer_intensity.e57",
    "tiny_pc_and_images.e57",
    "tiny_pc_with_extension.e57",
    "tiny_spherical.e57",
    "tinyCartesianFloatRgb.e57",
    "corrupt_crc.e57",
    "read_error.e57",
];

pub fn n_seeds() -> usize {
    crate::scenes::N_SCENES + 2 + 6 + BUNDLED.len()
}

pub fn seed(k: usize) -> Seed {
    let ns = crate::scenes::N_SCENES;
    if k < ns {
        return Seed { name: format!("e57spec scene {k}"), bytes: encode(&crate::scenes::scene(k), &mut Canonical, Knobs::NONE).bytes };
    }
    let k = k - ns;
    if k < 2 {
        // several packets with index and ignored packets in between
        let sc = crate::scenes::scene([1, 5][k]);
        let mut ch = Fixed(vec![("extra-packets".into(), 2), ("extra-packet-".into(), 1 + k), ("index-offset-set".into(), 1)]);
        let kn = Knobs { packets: true, non_data_packets: true, max_packets: 3, ..Knobs::NONE };
        return Seed { name: format!("e57spec scene {} with 3 packets + non-data packets", [1, 5][k]), bytes: encode(&sc, &mut ch, kn).bytes };
    }
    let k = k - 2;
    if k < 6 {
        let protos = cat::prototypes();
        let p = match k {
            0 => Program { guid: "g".into(), ops: vec![Op::Cloud(cloud(protos[0].1.clone(), 7, 1))], ..Default::default() },
            1 => Program { guid: "g".into(), ops: vec![Op::Blob(vec![1, 2, 3]), Op::Cloud(cloud(protos[3].1.clone(), 5, 2)), Op::Image(image(4, true, 40, 3))], ..Default::default() },
            2 => Program { guid: "g".into(), ops: vec![Op::Cloud(cloud(protos[4].1.clone(), 6, 4)), Op::Cloud(cloud(protos[5].1.clone(), 3, 5))], ..Default::default() },
            3 => {
                let mut c = cloud(protos[2].1.clone(), 20, 6);
                c.cap = Some(6);
                Program { guid: "g".into(), ops: vec![Op::Cloud(c), Op::Image(image(3, false, 9, 7))], ..Default::default() }
            }
            4 => Program { guid: "g".into(), ops: vec![Op::Cloud(cloud(protos[6].1.clone(), 4, 8)), Op::Image(image(2, true, 5, 9))], ..Default::default() },
            _ => Program { guid: "g".into(), ops: vec![Op::Ext("ext".into(), "http://e/x".into()), Op::Cloud(cloud(protos[7].1.clone(), 9, 10))], ..Default::default() },
        };
        return Seed { name: format!("writer program {k}: {}", describe(&p)), bytes: written(&p) };
    }
    let k = k - 6;
    let name = BUNDLED[k.min(BUNDLED.len() - 1)];
    let bytes = std::fs::read(format!("/repo/testdata/{name}")).unwrap_or_default();
    Seed { name: format!("bundled {name}"), bytes }
}

#[derive(Clone, Debug)]
pub enum Mutation {
    /// overwrite bytes of the logical stream, re-seal every page
    Logical { off: u64, bytes: Vec<u8>, what: String },
    /// replace [start,end) of the XML text (file is rebuilt, header updated, re-sealed)
    Xml { start: usize, end: usize, with: String, what: String },
    /// replace the whole XML section by raw bytes
    XmlRaw { bytes: Vec<u8>, what: String },
    /// a logical overwrite and an XML replacement together (fields that are checked against each other)
    Both { off: u64, bytes: Vec<u8>, start: usize, end: usize, with: String, what: String },
    /// physical edit without re-sealing
    Phys { off: usize, xor: u8, what: String },
    Truncate(usize),
    Extend(usize, u8),
}

impl Mutation {
    pub fn what(&self) -> String {
        match self {
            Mutation::Logical { what, .. } | Mutation::Xml { what, .. } | Mutation::XmlRaw { what, .. } | Mutation::Phys { what, .. } | Mutation::Both { what, .. } => what.clone(),
            Mutation::Truncate(n) => format!("file truncated to {n} bytes"),
            Mutation::Extend(n, b) => format!("{n} bytes of {b:#04x} appended"),
        }
    }
    /// coarse family (sub-menu) of the mutation
    pub fn family(&self) -> &'static str {
        match self {
            Mutation::Logical { what, .. } => {
                if what.starts_with("file header") {
                    "header"
                } else if what.starts_with("section") || what.starts_with("blob section") {
                    "section"
                } else if what.starts_with("packet") {
                    "packet"
                } else {
                    "payload"
                }
            }
            Mutation::Xml { what, .. } => {
                if what.contains("minimum") || what.contains("maximum") || what.contains("scale") || what.contains("all records") {
                    "minmax"
                } else {
                    "xml"
                }
            }
            Mutation::XmlRaw { .. } => "xmlraw",
            Mutation::Both { .. } => "conspiracy",
            Mutation::Phys { .. } => "unsealed",
            Mutation::Truncate(_) | Mutation::Extend(..) => "size",
        }
    }
}

pub fn value_list(field: u64, file_size: u64) -> Vec<u64> {
    let mut v = vec![
        0,
        1,
        4,
        5,
        1023,
        1024,
        1025,
        1 << 16,
        1 << 20,
        (1 << 20) + 1,
        1 << 31,
        (1 << 32) - 1,
        (1 << 63) - 1,
        1 << 63,
        u64::MAX,
        u64::MAX - 15,
        field.wrapping_add(1),
        field.wrapping_sub(1),
        field.wrapping_add(4),
        field.wrapping_sub(4),
        file_size,
        file_size.wrapping_add(1),
        file_size.wrapping_sub(1),
    ];
    v.retain(|x| *x != field);
    v.sort();
    v.dedup();
    v
}

const NUM_TEXTS: [&str; 18] = ["NaN", "inf", "-inf", "1e308", "-1e308", "1e999", "-0", "0", "-1", "-9223372036854775808", "9223372036854775807", "18446744073709551615", "18446744073709551616", "", " 1", "abc", "4294967296", "1e-400"];
const TYPES: [&str; 9] = ["Structure", "Vector", "CompressedVector", "Blob", "Integer", "ScaledInteger", "Float", "String", "Bogus"];

/// attribute-value and text slots of an XML string: (kind, name, start, end)
fn xml_slots(xml: &str) -> Vec<(u8, String, usize, usize)> {
    let b = xml.as_bytes();
    let mut out = Vec::new();
    let mut i = 0;
    while i < b.len() {
        if b[i] == b'<' {
            if xml[i..].starts_with("<![CDATA[") {
                let e = xml[i..].find("]]>").map(|p| i + p + 3).unwrap_or(b.len());
                i = e;
                continue;
            }
            if xml[i..].starts_with("<!--") || xml[i..].starts_with("<?") {
                let e = xml[i..].find('>').map(|p| i + p + 1).unwrap_or(b.len());
                i = e;
                continue;
            }
            // tag: scan attributes
            let mut j = i + 1;
            while j < b.len() && b[j] != b'>' {
                if b[j] == b'"' || b[j] == b'\'' {
                    let q = b[j];
                    let vs = j + 1;
                    let mut ve = vs;
                    while ve < b.len() && b[ve] != q {
                        ve += 1;
                    }
                    // attribute name: back from '='
                    let mut ne = j;
                    while ne > i && b[ne - 1] != b'=' {
                        ne -= 1;
                    }
                    let ne = ne.saturating_sub(1);
                    let mut nsx = ne;
                    while nsx > i && !b[nsx - 1].is_ascii_whitespace() {
                        nsx -= 1;
                    }
                    out.push((0u8, xml[nsx..ne].trim().to_string(), vs, ve));
                    j = ve + 1;
                } else {
                    j += 1;
                }
            }
            // text slot after the tag if the next thing is a closing tag of a leaf
            let te = j + 1;
            if te <= b.len() {
                if let Some(p) = xml[te.min(b.len())..].find('<') {
                    let ts = te;
                    let tend = te + p;
                    if xml[tend..].starts_with("</") && tend > ts && !xml[ts..tend].trim().is_empty() {
                        // element name
                        let name: String = xml[i + 1..j].chars().take_while(|c| !c.is_whitespace() && *c != '>' && *c != '/').collect();
                        out.push((1u8, name, ts, tend));
                    }
                }
            }
            i = j + 1;
        } else {
            i += 1;
        }
    }
    out
}

fn le(v: u64, n: usize) -> Vec<u8> {
    v.to_le_bytes()[..n].to_vec()
}

/// The complete single-mutation menu of a seed (deterministic).
/// `with_bombs`: the large crafted XML sections (they replace the whole document, so the seed only
/// lends its binary sections and its root start tag: a few seeds are enough)
pub fn menu(seed: &Seed, with_unsealed: bool, with_bombs: bool) -> Vec<Mutation> {
    let mut m: Vec<Mutation> = Vec::new();
    let size = seed.bytes.len() as u64;
    let rep = validate(&seed.bytes, &Options::default());
    // A. file header
    let hdr: [(&str, u64, usize, u64); 7] = [
        ("signature", 0, 8, u64::from_le_bytes(seed.bytes.get(0..8).and_then(|s| s.try_into().ok()).unwrap_or([0; 8]))),
        ("major version", 8, 4, rep.header.major as u64),
        ("minor version", 12, 4, rep.header.minor as u64),
        ("file length", 16, 8, rep.header.phys_length),
        ("xml offset", 24, 8, rep.header.xml_phys_offset),
        ("xml length", 32, 8, rep.header.xml_length),
        ("page size", 40, 8, rep.header.page_size),
    ];
    for (name, off, n, cur) in hdr {
        for v in value_list(cur, size) {
            if n == 4 && v > u32::MAX as u64 {
                continue;
            }
            m.push(Mutation::Logical { off, bytes: le(v, n), what: format!("file header {name} <- {v}") });
        }
    }
    // A2. two header fields at once (fields that are checked against each other: a limit on one
    // field that is lifted by another one needs both to lie)
    {
        let f: [(&str, u64); 4] = [("file length", rep.header.phys_length), ("xml offset", rep.header.xml_phys_offset), ("xml length", rep.header.xml_length), ("page size", rep.header.page_size)];
        let vals = |cur: u64| -> Vec<u64> { vec![0, cur.wrapping_sub(1), cur + 1, size, 11 << 20, 1 << 30, (1 << 30) + 1024, u64::MAX / 2, u64::MAX] };
        for a in 0..4 {
            for b in a + 1..4 {
                for va in vals(f[a].1) {
                    for vb in vals(f[b].1) {
                        let mut cur = [f[0].1, f[1].1, f[2].1, f[3].1];
                        cur[a] = va;
                        cur[b] = vb;
                        let bytes: Vec<u8> = cur.iter().flat_map(|v| v.to_le_bytes()).collect();
                        m.push(Mutation::Logical { off: 16, bytes, what: format!("file header {} <- {va} and {} <- {vb}", f[a].0, f[b].0) });
                    }
                }
            }
        }
    }
    // D/E/F. binary sections
    for (si, s) in rep.sections.iter().enumerate() {
        let base = s.log_start;
        if s.kind == "cv" {
            for id in [0u8, 2, 255] {
                m.push(Mutation::Logical { off: base, bytes: vec![id], what: format!("section {si} id <- {id}") });
            }
            m.push(Mutation::Logical { off: base + 1, bytes: vec![0xFF; 7], what: format!("section {si} reserved bytes <- 0xFF") });
            let log = page::unseal(&seed.bytes).map(|x| x.0).unwrap_or_default();
            for (fname, foff) in [("length", 8u64), ("data offset", 16), ("index offset", 24)] {
                let cur = log.get((base + foff) as usize..(base + foff + 8) as usize).map(|b| u64::from_le_bytes(b.try_into().unwrap())).unwrap_or(0);
                for v in value_list(cur, size) {
                    m.push(Mutation::Logical { off: base + foff, bytes: le(v, 8), what: format!("section {si} {fname} <- {v}") });
                }
            }
            for (pi, p) in s.packets.iter().enumerate() {
                let po = p.log_off;
                for t in [0u8, 1, 2, 3, 255] {
                    if t != p.kind {
                        m.push(Mutation::Logical { off: po, bytes: vec![t], what: format!("packet {si}.{pi} type <- {t}") });
                    }
                }
                m.push(Mutation::Logical { off: po + 1, bytes: vec![0xFF], what: format!("packet {si}.{pi} flags <- 0xFF") });
                let len = p.len;
                for v in [0u64, 3, 4, 5, 7, len, len.wrapping_sub(2), len + 2, len.wrapping_sub(5), len + 3, 0xFFFF, 0xFFFE, 0xFFFB] {
                    if v != len.wrapping_sub(1) && v <= 0xFFFF {
                        m.push(Mutation::Logical { off: po + 2, bytes: le(v, 2), what: format!("packet {si}.{pi} length field <- {v}") });
                    }
                }
                if p.kind == 1 {
                    let n = p.stream_sizes.len() as u64;
                    for v in [0u64, 1, n.wrapping_sub(1), n + 1, 0xFFFF, 20000] {
                        if v != n && v <= 0xFFFF {
                            m.push(Mutation::Logical { off: po + 4, bytes: le(v, 2), what: format!("packet {si}.{pi} bytestream count <- {v}") });
                        }
                    }
                    for (k, sz) in p.stream_sizes.iter().enumerate() {
                        let sz = *sz as u64;
                        for v in [0u64, 1, sz.wrapping_sub(1), sz + 1, sz + 8, 0xFFFF] {
                            if v != sz && v <= 0xFFFF {
                                m.push(Mutation::Logical { off: po + 6 + 2 * k as u64, bytes: le(v, 2), what: format!("packet {si}.{pi} stream {k} size <- {v}") });
                            }
                        }
                    }
                    // payload
                    let pstart = po + 6 + 2 * n;
                    let plen = len.saturating_sub(6 + 2 * n);
                    if plen <= 256 {
                        for b in 0..plen * 8 {
                            let cur = log.get((pstart + b / 8) as usize).copied().unwrap_or(0);
                            m.push(Mutation::Logical { off: pstart + b / 8, bytes: vec![cur ^ (1 << (b % 8))], what: format!("packet {si}.{pi} payload bit {b} flipped") });
                        }
                    } else {
                        let mut pos: Vec<u64> = (0..64).map(|i| i * plen / 64).collect();
                        pos.extend(0..8);
                        pos.extend(plen.saturating_sub(8)..plen);
                        pos.sort();
                        pos.dedup();
                        for q in pos {
                            for v in [0u8, 0xFF] {
                                m.push(Mutation::Logical { off: pstart + q, bytes: vec![v], what: format!("packet {si}.{pi} payload byte {q} <- {v:#04x}") });
                            }
                        }
                    }
                } else if p.kind == 0 {
                    m.push(Mutation::Logical { off: po + 6, bytes: vec![7], what: format!("packet {si}.{pi} index level <- 7") });
                    for v in [0u16, 1, 2048, 65535] {
                        m.push(Mutation::Logical { off: po + 4, bytes: v.to_le_bytes().to_vec(), what: format!("packet {si}.{pi} index entry count <- {v}") });
                    }
                    m.push(Mutation::Logical { off: po + 7, bytes: vec![0xFF; 9], what: format!("packet {si}.{pi} index reserved <- 0xFF") });
                }
            }
        } else {
            for id in [1u8, 2, 255] {
                m.push(Mutation::Logical { off: base, bytes: vec![id], what: format!("blob section {si} id <- {id}") });
            }
            let cur = s.log_len;
            for v in value_list(cur, size) {
                m.push(Mutation::Logical { off: base + 8, bytes: le(v, 8), what: format!("blob section {si} length <- {v}") });
            }
        }
    }
    // B/C. XML
    if let Some(xml) = &rep.xml {
        let slots = xml_slots(xml);
        let numeric = |s: &str| !s.is_empty() && s.len() < 40 && s.chars().all(|c| c.is_ascii_digit() || "+-.eE".contains(c)) && s.chars().any(|c| c.is_ascii_digit());
        for (kind, name, st, en) in &slots {
            let cur = &xml[*st..*en];
            if *kind == 0 && (name == "type" || name == "precision") {
                let alts: Vec<&str> = if name == "type" { TYPES.to_vec() } else { vec!["single", "double", "half"] };
                for a in alts {
                    if a != cur {
                        m.push(Mutation::Xml { start: *st, end: *en, with: a.to_string(), what: format!("XML attribute {name}=\"{cur}\" <- \"{a}\" (at {st})") });
                    }
                }
            } else if numeric(cur) || (*kind == 0 && ["minimum", "maximum", "scale", "offset", "fileOffset", "length", "recordCount"].contains(&name.as_str())) {
                for t in NUM_TEXTS {
                    if t != cur {
                        m.push(Mutation::Xml { start: *st, end: *en, with: t.to_string(), what: format!("XML {} {name} '{cur}' <- '{t}' (at {st})", if *kind == 0 { "attribute" } else { "text of" }) });
                    }
                }
                if *kind == 0 && ["fileOffset", "length", "recordCount"].contains(&name.as_str()) {
                    let curv = cur.parse::<u64>().unwrap_or(0);
                    for v in value_list(curv, size) {
                        m.push(Mutation::Xml { start: *st, end: *en, with: v.to_string(), what: format!("XML attribute {name} '{cur}' <- '{v}' (at {st})") });
                    }
                }
                if *kind == 0 && name == "scale" {
                    for t in ["0", "NaN", "inf", "1e308", "-1", "1e-320"] {
                        m.push(Mutation::Xml { start: *st, end: *en, with: t.to_string(), what: format!("XML attribute scale '{cur}' <- '{t}' (at {st})") });
                    }
                }
            }
        }
        // elements: delete, duplicate, move to front of parent
        if let Ok(doc) = e57spec::xml::parse(xml) {
            let mut elems: Vec<(usize, usize, usize, String)> = Vec::new(); // start, end, parent_open_end+1, name
            fn walk(e: &e57spec::xml::Elem, out: &mut Vec<(usize, usize, usize, String)>) {
                for c in e.child_elems() {
                    out.push((c.start, c.end, e.open_end + 1, c.local.clone()));
                    walk(c, out);
                }
            }
            walk(&doc.root, &mut elems);
            for (st, en, pstart, name) in &elems {
                m.push(Mutation::Xml { start: *st, end: *en, with: String::new(), what: format!("XML element <{name}> at {st} deleted") });
                let dup = format!("{0}{0}", &xml[*st..*en]);
                if dup.len() < 200_000 {
                    m.push(Mutation::Xml { start: *st, end: *en, with: dup, what: format!("XML element <{name}> at {st} duplicated") });
                }
                if *pstart < *st {
                    let moved = format!("{}{}", &xml[*st..*en], &xml[*pstart..*st]);
                    m.push(Mutation::Xml { start: *pstart, end: *en, with: moved, what: format!("XML element <{name}> at {st} moved to the front of its parent") });
                }
                if name == "prototype" {
                    m.push(Mutation::Xml { start: *st, end: *en, with: "<prototype type=\"Structure\"></prototype>".into(), what: format!("prototype at {st} emptied") });
                    let mut big = String::from("<prototype type=\"Structure\">");
                    for i in 0..20000 {
                        big.push_str(&format!("<e:r{i} type=\"Integer\" minimum=\"0\" maximum=\"0\"/>"));
                    }
                    big.push_str("</prototype>");
                    m.push(Mutation::Xml { start: *st, end: *en, with: big.replace("e:", ""), what: format!("prototype at {st} replaced by 20000 zero-width records") });
                    // min/max conspiracies on all records
                    let inner = &xml[*st..*en];
                    let variants: Vec<(&str, String)> = vec![
                        ("all records min=max", force_minmax(inner, "5", "5")),
                        ("all records min>max", force_minmax(inner, "9", "3")),
                        ("all records full 64-bit range", force_minmax(inner, "-9223372036854775808", "9223372036854775807")),
                        ("all records minimum NaN maximum inf", force_minmax(inner, "NaN", "inf")),
                        ("all records retyped Integer[0,0]", retype_all(inner)),
                    ];
                    for (label, with) in variants {
                        m.push(Mutation::Xml { start: *st, end: *en, with, what: format!("prototype at {st}: {label}") });
                    }
                }
            }
        }
        // blob conspiracies: the descriptor length in the XML and the length in the binary section
        // header (which are checked against each other) announce the same huge size
        for s in rep.sections.iter().filter(|s| s.kind == "blob") {
            let key = format!("fileOffset=\"{}\"", s.phys_start);
            let Some(k) = xml.find(&key) else { continue };
            let Some(ts) = xml[..k].rfind('<') else { continue };
            let Some(te) = xml[k..].find('>').map(|x| x + k) else { continue };
            let Some(lp) = xml[ts..te].find(" length=\"").map(|x| x + ts + 9) else { continue };
            let Some(le_) = xml[lp..te].find('"').map(|x| x + lp) else { continue };
            for big in [1u64 << 28, 1 << 31, 1 << 40, (1 << 62) - 16, u64::MAX - 15] {
                for slack in [16u64, 0] {
                    m.push(Mutation::Both {
                        off: s.log_start + 8,
                        bytes: le(big.wrapping_add(slack), 8),
                        start: lp,
                        end: le_,
                        with: big.to_string(),
                        what: format!("blob at {}: XML length <- {big} and section length <- {big}+{slack}", s.phys_start),
                    });
                }
            }
        }
        // comments and short foreign elements with multi-byte characters at shifting alignments,
        // inserted in front of the first elements and in front of the root's end tag
        {
            let mut at: Vec<usize> = xml.match_indices('<').map(|(i, _)| i).filter(|i| !xml[*i..].starts_with("<?") && !xml[*i..].starts_with("<![") && !xml[*i..].starts_with("</") && !xml[*i..].starts_with("<!--")).skip(1).take(12).collect();
            if let Some(e) = xml.rfind("</") {
                at.push(e);
            }
            for p in at {
                for pad in 0..6usize {
                    let fill = "x".repeat(pad);
                    for (k, body) in [format!("<!--{fill}\u{e4}\u{f6}\u{20ac}\u{10000}ude -->"), format!("<q{fill}>yy\u{e4}\u{20ac}\u{10000}</q{fill}>"), format!("<?p{fill} \u{e9}\u{10348}?>")].into_iter().enumerate() {
                        m.push(Mutation::Xml { start: p, end: p, with: body, what: format!("XML: non-ASCII {} (pad {pad}) inserted at {p}", ["comment", "short element", "processing instruction"][k]) });
                    }
                }
            }
        }
        // truncation at every tag boundary
        let mut cuts: Vec<usize> = xml.match_indices('<').map(|(i, _)| i).collect();
        cuts.extend(xml.match_indices('>').map(|(i, _)| i + 1));
        cuts.sort();
        cuts.dedup();
        for c in cuts {
            if c > 0 && c < xml.len() {
                m.push(Mutation::XmlRaw { bytes: xml.as_bytes()[..c].to_vec(), what: format!("XML truncated after {c} bytes") });
            }
        }
        // whole-document replacements
        let mut dtd = String::from("<?xml version=\"1.0\"?><!DOCTYPE lolz [<!ENTITY a \"aaaaaaaaaa\">");
        for (i, p) in ["a", "b", "c", "d", "e", "f", "g", "h"].iter().enumerate() {
            let n = ["b", "c", "d", "e", "f", "g", "h", "i"][i];
            dtd.push_str(&format!("<!ENTITY {n} \"&{p};&{p};&{p};&{p};&{p};&{p};&{p};&{p};&{p};&{p};\">"));
        }
        dtd.push_str("]><e57Root type=\"Structure\" xmlns=\"http://www.astm.org/COMMIT/E57/2010-e57-v1.0\"><guid type=\"String\">&i;</guid></e57Root>");
        m.push(Mutation::XmlRaw { bytes: dtd.into_bytes(), what: "XML replaced by a DTD with nested entities".into() });
        {
            // one large internal entity referenced many times from element text (no nesting)
            let mut big = String::from("<?xml version=\"1.0\"?><!DOCTYPE e57Root [<!ENTITY a \"");
            big.push_str(&"A".repeat(256 * 1024));
            big.push_str("\">]>");
            let body = xml.trim_start_matches(|c| c != '<');
            let body = body.strip_prefix("<?xml").map(|r| &r[r.find("?>").map_or(0, |p| p + 2)..]).unwrap_or(body);
            let refs = "&a;".repeat(200);
            let patched = body.replacen("</e57Root>", &format!("<vx:n xmlns:vx=\"u\" type=\"String\">{refs}</vx:n></e57Root>"), 1);
            big.push_str(&patched);
            m.push(Mutation::XmlRaw { bytes: big.into_bytes(), what: "DOCTYPE with a 256 KiB internal entity referenced 200 times".into() });
        }
        let mut bad = xml.as_bytes().to_vec();
        let mid = bad.len() / 2;
        bad[mid] = 0xFF;
        m.push(Mutation::XmlRaw { bytes: bad, what: "invalid UTF-8 byte in the middle of the XML".into() });
        let mut huge = xml.clone().into_bytes();
        huge.extend(std::iter::repeat(b' ').take(11 * 1024 * 1024));
        m.push(Mutation::XmlRaw { bytes: huge, what: "XML padded to 11 MiB".into() });
        let mut deep = String::new();
        for _ in 0..20000 {
            deep.push_str("<a>");
        }
        m.push(Mutation::XmlRaw { bytes: deep.into_bytes(), what: "XML replaced by 20000 nested open tags".into() });
        m.push(Mutation::XmlRaw { bytes: Vec::new(), what: "XML replaced by nothing (length 0)".into() });
        // product bombs: k comments in front of the root element and k elements that the reader
        // looks at and skips (work proportional to k*k shows as minutes, linear work as milliseconds)
        if with_bombs {
            if let (Some(root_at), Some(d3)) = (xml.find("<e57Root").or_else(|| xml.find(":e57Root").and_then(|p| xml[..p].rfind('<'))), xml.find("<data3D")) {
                if let Some(d3_end) = xml[d3..].find('>').map(|e| d3 + e + 1) {
                    if !xml[d3..d3_end].ends_with("/>") {
                        for (k, what) in [(150_000usize, "<vectorChild/>"), (150_000, "<vectorChild type=\"Integer\"/>")] {
                            let mut doc = String::with_capacity(xml.len() + 30 * k);
                            doc.push_str(&xml[..root_at]);
                            doc.push_str(&"<!---->".repeat(k));
                            doc.push_str(&xml[root_at..d3_end]);
                            doc.push_str(&what.repeat(k));
                            doc.push_str(&xml[d3_end..]);
                            m.push(Mutation::XmlRaw { bytes: doc.into_bytes(), what: format!("{k} comments in front of the root element and {k} x {what} inside data3D") });
                        }
                    }
                }
            }
        }
        // fragmentation bomb: the text of one scalar element split into 300000 pieces by comments
        if with_bombs {
            if let Some(g) = xml.find("<guid type=\"String\">").map(|p| p + 20) {
                let mut doc = String::with_capacity(xml.len() + 8 * 300_000);
                doc.push_str(&xml[..g]);
                doc.push_str(&"x<!---->".repeat(300_000));
                doc.push_str(&xml[g..]);
                m.push(Mutation::XmlRaw { bytes: doc.into_bytes(), what: "text of the first guid element split into 300000 pieces by comments".into() });
            }
        }
        // counter bombs: many DISTINCT names (a parser that compares every new name with all earlier
        // ones needs quadratic time, one that also copies the inherited set per element cubic time)
        if with_bombs {
            if let Some(root_at) = xml.find("<e57Root").or_else(|| xml.find(":e57Root").and_then(|p| xml[..p].rfind('<'))) {
                if let Some(tag_end) = crate::mutate::start_tag_end(&xml, root_at) {
                    for k in [500usize, 4_000, 30_000] {
                        // k namespace declarations on the root element, k children with one of their own
                        let mut doc = String::with_capacity(xml.len() + 40 * k);
                        doc.push_str(&xml[..tag_end]);
                        for i in 0..k {
                            doc.push_str(&format!(" xmlns:n{i}=\"u\""));
                        }
                        doc.push('>');
                        doc.push_str(&"<x xmlns:p=\"q\"/>".repeat(k));
                        doc.push_str(&xml[tag_end + 1..]);
                        m.push(Mutation::XmlRaw { bytes: doc.into_bytes(), what: format!("{k} namespace declarations on the root element and {k} children declaring one more") });
                    }
                    // the same shape with the root below any per-element limit: 1000 declarations on the
                    // root element, 20000 children declaring one more
                    {
                        let mut doc = String::with_capacity(xml.len() + 20 * 21_000);
                        doc.push_str(&xml[..tag_end]);
                        for i in 0..1000 {
                            doc.push_str(&format!(" xmlns:n{i}=\"u\""));
                        }
                        doc.push('>');
                        doc.push_str(&"<x xmlns:p=\"q\"/>".repeat(20_000));
                        doc.push_str(&xml[tag_end + 1..]);
                        m.push(Mutation::XmlRaw { bytes: doc.into_bytes(), what: "1000 namespace declarations on the root element and 20000 children declaring one more".into() });
                    }
                    for k in [150_000usize, 600_000] {
                        let mut doc = String::with_capacity(xml.len() + 16 * k);
                        doc.push_str(&xml[..tag_end]);
                        for i in 0..k {
                            doc.push_str(&format!(" a{i}=\"\""));
                        }
                        doc.push_str(&xml[tag_end..]);
                        m.push(Mutation::XmlRaw { bytes: doc.into_bytes(), what: format!("{k} distinct attributes on the root element") });
                    }
                    // the same floods behind an attribute value that contains the OTHER quote character
                    // (a scanner that treats both quote characters alike loses track of where it is)
                    for (lead, what) in [(" note=\"it's\"", "a double-quoted value containing an apostrophe"), (" note='say \"x\"'", "a single-quoted value containing double quotes")] {
                        let mut doc = String::with_capacity(xml.len() + 16 * 150_000);
                        doc.push_str(&xml[..tag_end]);
                        doc.push_str(lead);
                        for i in 0..150_000 {
                            doc.push_str(&format!(" a{i}=\"\""));
                        }
                        doc.push_str(&xml[tag_end..]);
                        m.push(Mutation::XmlRaw { bytes: doc.into_bytes(), what: format!("{what}, then 150000 distinct attributes on the root element") });
                        let mut doc = String::with_capacity(xml.len() + 40 * 4000);
                        doc.push_str(&xml[..tag_end]);
                        doc.push_str(lead);
                        for i in 0..1000 {
                            doc.push_str(&format!(" xmlns:n{i}=\"u\""));
                        }
                        doc.push('>');
                        doc.push_str(&"<x xmlns:p=\"q\"/>".repeat(20_000));
                        doc.push_str(&xml[tag_end + 1..]);
                        m.push(Mutation::XmlRaw { bytes: doc.into_bytes(), what: format!("{what}, then 1000 namespace declarations on the root element and 20000 children declaring one more") });
                        let mut doc = String::new();
                        doc.push_str(&xml[..tag_end]);
                        doc.push_str(lead);
                        doc.push('>');
                        doc.push_str(&"<v:d xmlns:v=\"urn:v\">".repeat(20_000));
                        m.push(Mutation::XmlRaw { bytes: doc.into_bytes(), what: format!("{what}, then 20000 nested open tags") });
                    }
                    // many elements that each carry many distinct attributes (1000 x 1000, about 8 MB)
                    {
                        let mut attrs = String::new();
                        for i in 0..1000 {
                            attrs.push_str(&format!(" a{i}=\"\""));
                        }
                        let one = format!("<v:y xmlns:v=\"urn:v\"{attrs}/>");
                        let mut doc = String::with_capacity(xml.len() + one.len() * 1000);
                        doc.push_str(&xml[..tag_end + 1]);
                        doc.push_str(&one.repeat(1000));
                        doc.push_str(&xml[tag_end + 1..]);
                        m.push(Mutation::XmlRaw { bytes: doc.into_bytes(), what: "1000 foreign elements with 1000 distinct attributes each".into() });
                    }
                    // nested accumulation: 100 levels of foreign elements with 5 declarations each, the
                    // innermost holding 500 children with a declaration of their own (1000 in all)
                    let mut nest = String::new();
                    for d in 0..100 {
                        nest.push_str(&format!("<v:w xmlns:v=\"urn:v\" xmlns:a{d}=\"u\" xmlns:b{d}=\"u\" xmlns:c{d}=\"u\" xmlns:d{d}=\"u\">"));
                    }
                    nest.push_str(&"<v:x xmlns:p=\"q\"/>".repeat(500));
                    nest.push_str(&"</v:w>".repeat(100));
                    let mut doc = String::new();
                    doc.push_str(&xml[..tag_end + 1]);
                    doc.push_str(&nest);
                    doc.push_str(&xml[tag_end + 1..]);
                    m.push(Mutation::XmlRaw { bytes: doc.into_bytes(), what: "100 nested foreign elements with 5 namespace declarations each around 500 children declaring one more".into() });
                }
            }
        }
        // repetition bombs: 2 MiB of one unterminated / unbalanced token (anything that rescans the
        // rest of the document per token needs time quadratic in the input size)
        if with_bombs {
            for tok in ["<!--", "<![CDATA[", "<a ", "<a b='", "&amp;", "&#x41;", "<?p ", "<!", "]]>", "-->", "<a xmlns:a='u'>", "<a/>", "</a>", "\"", "'", "<"] {
                let body = tok.repeat(2 * 1024 * 1024 / tok.len());
                let doc = format!("<?xml version=\"1.0\"?><e57Root type=\"Structure\" xmlns=\"http://www.astm.org/COMMIT/E57/2010-e57-v1.0\">{body}");
                m.push(Mutation::XmlRaw { bytes: doc.into_bytes(), what: format!("XML replaced by a root start tag followed by 2 MiB of {tok:?}") });
            }
        }
    }
    // H. size
    for n in 0..=48usize {
        m.push(Mutation::Truncate(n));
    }
    for k in 1..=(seed.bytes.len() / 1024).min(6) {
        for d in [-1i64, 0, 1] {
            let n = (k as i64 * 1024 + d) as usize;
            if n < seed.bytes.len() {
                m.push(Mutation::Truncate(n));
            }
        }
    }
    for n in [1usize, 1020, 1024] {
        for b in [0u8, 0xFF] {
            m.push(Mutation::Extend(n, b));
        }
    }
    // unsealed single-bit flips of every byte of the first two pages and the last page
    if with_unsealed {
        let mut pages: Vec<usize> = vec![0, 1.min((seed.bytes.len() / 1024).saturating_sub(1)), (seed.bytes.len() / 1024).saturating_sub(1)];
        pages.dedup();
        for pg in pages {
            for off in pg * 1024..((pg + 1) * 1024).min(seed.bytes.len()) {
                for bit in [((off * 5) % 8) as u8] {
                    m.push(Mutation::Phys { off, xor: 1 << bit, what: format!("unsealed flip of bit {bit} of byte {off}") });
                }
            }
        }
    }
    m
}

fn force_minmax(proto_xml: &str, min: &str, max: &str) -> String {
    // rewrite every minimum="..." and maximum="..." inside the prototype
    let mut out = String::new();
    let mut rest = proto_xml;
    loop {
        let a = rest.find("minimum=\"");
        let b = rest.find("maximum=\"");
        let (pos, key, val) = match (a, b) {
            (Some(a), Some(b)) if a < b => (a, "minimum=\"", min),
            (Some(a), None) => (a, "minimum=\"", min),
            (_, Some(b)) => (b, "maximum=\"", max),
            (None, None) => break,
        };
        out.push_str(&rest[..pos + key.len()]);
        out.push_str(val);
        let after = &rest[pos + key.len()..];
        let q = after.find('"').unwrap_or(0);
        rest = &after[q..];
    }
    out.push_str(rest);
    out
}

fn retype_all(proto_xml: &str) -> String {
    let mut s = proto_xml.replace("type=\"Float\"", "type=\"Integer\" minimum=\"0\" maximum=\"0\"").replace("type=\"ScaledInteger\"", "type=\"Integer\"");
    s = s.replace("precision=\"single\"", "").replace("precision=\"double\"", "");
    let s = force_minmax(&s, "0", "0");
    // the outer prototype element keeps its Structure type
    s.replacen("<prototype type=\"Integer\" minimum=\"0\" maximum=\"0\"", "<prototype type=\"Structure\"", 1)
}

/// Apply a mutation. Returns None when it is not applicable to this seed.
pub fn apply(seed: &Seed, mu: &Mutation) -> Option<Vec<u8>> {
    match mu {
        Mutation::Logical { off, bytes, .. } => {
            let (mut log, _) = page::unseal(&seed.bytes).ok()?;
            let o = *off as usize;
            if o + bytes.len() > log.len() {
                return None;
            }
            log[o..o + bytes.len()].copy_from_slice(bytes);
            Some(page::seal(&log))
        }
        Mutation::Xml { start, end, with, .. } => {
            let rep_h = e57spec::decode::read_header(&seed.bytes).ok()?;
            let (log, _) = page::unseal(&seed.bytes).ok()?;
            let xs = page::phys_to_log(rep_h.xml_phys_offset)? as usize;
            let xe = xs + rep_h.xml_length as usize;
            if xe > log.len() {
                return None;
            }
            let xml = &log[xs..xe];
            let mut nx = Vec::with_capacity(xml.len() + with.len());
            nx.extend_from_slice(&xml[..*start]);
            nx.extend_from_slice(with.as_bytes());
            nx.extend_from_slice(&xml[*end..]);
            rebuild_with_xml(&log, xs, xe, &nx)
        }
        Mutation::Both { off, bytes, start, end, with, .. } => {
            let rep_h = e57spec::decode::read_header(&seed.bytes).ok()?;
            let (mut log, _) = page::unseal(&seed.bytes).ok()?;
            let o = *off as usize;
            if o + bytes.len() > log.len() {
                return None;
            }
            log[o..o + bytes.len()].copy_from_slice(bytes);
            let xs = page::phys_to_log(rep_h.xml_phys_offset)? as usize;
            let xe = xs + rep_h.xml_length as usize;
            if xe > log.len() {
                return None;
            }
            let xml = &log[xs..xe];
            let mut nx = Vec::with_capacity(xml.len() + with.len());
            nx.extend_from_slice(&xml[..*start]);
            nx.extend_from_slice(with.as_bytes());
            nx.extend_from_slice(&xml[*end..]);
            rebuild_with_xml(&log, xs, xe, &nx)
        }
        Mutation::XmlRaw { bytes, .. } => {
            let rep_h = e57spec::decode::read_header(&seed.bytes).ok()?;
            let (log, _) = page::unseal(&seed.bytes).ok()?;
            let xs = page::phys_to_log(rep_h.xml_phys_offset)? as usize;
            let xe = xs + rep_h.xml_length as usize;
            if xe > log.len() {
                return None;
            }
            rebuild_with_xml(&log, xs, xe, bytes)
        }
        Mutation::Phys { off, xor, .. } => {
            let mut b = seed.bytes.clone();
            *b.get_mut(*off)? ^= xor;
            Some(b)
        }
        Mutation::Truncate(n) => Some(seed.bytes[..(*n).min(seed.bytes.len())].to_vec()),
        Mutation::Extend(n, v) => {
            let mut b = seed.bytes.clone();
            b.extend(std::iter::repeat(*v).take(*n));
            Some(b)
        }
    }
}

fn rebuild_with_xml(log: &[u8], xs: usize, xe: usize, nx: &[u8]) -> Option<Vec<u8>> {
    // the XML must be the last section (only zero padding after it), otherwise only same-length edits
    let tail_zero = log[xe..].iter().all(|b| *b == 0);
    let mut nl: Vec<u8>;
    if tail_zero {
        nl = log[..xs].to_vec();
        nl.extend_from_slice(nx);
    } else if nx.len() == xe - xs {
        nl = log.to_vec();
        nl[xs..xe].copy_from_slice(nx);
    } else {
        return None;
    }
    let pages = (nl.len() + 1019) / 1020;
    nl[16..24].copy_from_slice(&((pages * 1024) as u64).to_le_bytes());
    nl[32..40].copy_from_slice(&(nx.len() as u64).to_le_bytes());
    Some(page::seal(&nl))
}


/// Byte offset of the '>' that ends the start tag beginning at `at` (quoted attribute values may contain '>').
pub fn start_tag_end(xml: &str, at: usize) -> Option<usize> {
    let b = xml.as_bytes();
    let mut quote: Option<u8> = None;
    let mut j = at + 1;
    while j < b.len() {
        match (quote, b[j]) {
            (None, b'"') | (None, b'\'') => quote = Some(b[j]),
            (Some(q), c) if q == c => quote = None,
            (None, b'>') => return Some(if j > 0 && b[j - 1] == b'/' { j - 1 } else { j }),
            _ => {}
        }
        j += 1;
    }
    None
}
