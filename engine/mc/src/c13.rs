//! C13 — normalised colour and intensity lie in [0,1], monotone, never NaN.

use crate::c03::model_file;
use crate::c05::{norm_ref, type_range};
use crate::cat::{rec, xyz, F32};
use crate::dev::Dev;
use crate::harness::{err_string, guarded};
use crate::oracle::*;
use e57::E57Reader;
use e57spec::encode::Knobs;
use e57spec::model::{self as m, LVal, Ty, Val};
use explore::Ctx;

const P: &str = "C13";

fn attr_types() -> Vec<Ty> {
    vec![
        Ty::F32 { min: None, max: None },
        Ty::F32 { min: Some(0.0), max: Some(1.0) },
        Ty::F32 { min: Some(-1.0), max: Some(1.0) },
        Ty::F32 { min: Some(5.0), max: Some(5.0) },
        Ty::F32 { min: Some(f32::MIN), max: Some(f32::MAX) },
        Ty::F32 { min: Some(0.25), max: None },
        Ty::F32 { min: None, max: Some(100.0) },
        Ty::F64 { min: None, max: None },
        Ty::F64 { min: Some(0.0), max: Some(1.0) },
        Ty::F64 { min: Some(5.0), max: Some(5.0) },
        Ty::F64 { min: Some(f64::MIN), max: Some(f64::MAX) },
        Ty::F64 { min: None, max: Some(3.0) },
        Ty::Int { min: 0, max: 255 },
        Ty::Int { min: 0, max: 65535 },
        Ty::Int { min: 7, max: 7 },
        Ty::Int { min: -5, max: 5 },
        Ty::Int { min: i64::MIN, max: i64::MAX },
        Ty::Int { min: 0, max: 1 },
        Ty::Scaled { min: 0, max: 1023, scale: 0.001, offset: 0.0 },
        Ty::Scaled { min: 10, max: 10, scale: 2.1, offset: 100.2 },
        Ty::Scaled { min: 0, max: 100, scale: -0.5, offset: 3.0 },
        Ty::Scaled { min: i64::MIN, max: i64::MAX, scale: 1.0, offset: 0.0 },
        Ty::Scaled { min: 0, max: 1000, scale: 1e-19, offset: 0.0 },
        Ty::F64 { min: Some(1.0), max: Some(1.0 + 4.0 * f64::EPSILON) },
    ]
}

/// limit shapes: (label, min, max)
fn limit_shapes(ty: &Ty) -> Vec<(&'static str, Option<LVal>, Option<LVal>)> {
    let (tlo, thi) = type_range(ty);
    let mid = tlo * 0.5 + thi * 0.5;
    let mut v: Vec<(&'static str, Option<LVal>, Option<LVal>)> = vec![("absent", None, None)];
    v.push(("f64-type-range", Some(LVal::F64(tlo)), Some(LVal::F64(thi))));
    v.push(("f64-narrower", Some(LVal::F64(tlo * 0.5 + mid * 0.5)), Some(LVal::F64(thi * 0.5 + mid * 0.5))));
    v.push(("f64-wider", Some(LVal::F64(-1e300)), Some(LVal::F64(1e300))));
    v.push(("f64-degenerate", Some(LVal::F64(mid)), Some(LVal::F64(mid))));
    v.push(("f64-max-range", Some(LVal::F64(f64::MIN)), Some(LVal::F64(f64::MAX))));
    v.push(("f64-tiny", Some(LVal::F64(0.0)), Some(LVal::F64(4e-16))));
    v.push(("f64-tiny-subnormal", Some(LVal::F64(0.0)), Some(LVal::F64(f64::from_bits(8)))));
    v.push(("f64-one-subnormal-step", Some(LVal::F64(0.0)), Some(LVal::F64(f64::from_bits(1)))));
    v.push(("f64-three-subnormal-steps", Some(LVal::F64(0.0)), Some(LVal::F64(f64::from_bits(3)))));
    v.push(("f64-adjacent", Some(LVal::F64(tlo)), Some(LVal::F64(f64::from_bits(tlo.to_bits().wrapping_add(if tlo >= 0.0 { 2 } else { 0 }).max(1))))));
    v.push(("f32-unit", Some(LVal::F32(0.0)), Some(LVal::F32(1.0))));
    v.push(("f32-max-range", Some(LVal::F32(f32::MIN)), Some(LVal::F32(f32::MAX))));
    v.push(("int-byte", Some(LVal::Int(0)), Some(LVal::Int(255))));
    v.push(("int-degenerate", Some(LVal::Int(7)), Some(LVal::Int(7))));
    v.push(("int-full", Some(LVal::Int(i64::MIN)), Some(LVal::Int(i64::MAX))));
    v.push(("scaled-raw", Some(LVal::Scaled(0)), Some(LVal::Scaled(1023))));
    v.push(("only-min", Some(LVal::F64(0.0)), None));
    v.push(("only-max", None, Some(LVal::F64(1.0))));
    v.push(("mixed-variants", Some(LVal::Int(0)), Some(LVal::F64(1.0))));
    v.push(("inverted", Some(LVal::F64(1.0)), Some(LVal::F64(0.0))));
    v.push(("nan", Some(LVal::F64(f64::NAN)), Some(LVal::F64(1.0))));
    v.push(("infinite", Some(LVal::F64(f64::NEG_INFINITY)), Some(LVal::F64(f64::INFINITY))));
    v
}

fn stored_values(ty: &Ty, thorough: bool) -> Vec<Val> {
    stored_values_deep(ty, thorough, false)
}

/// `deep` (thorough tier): every value of ranges up to 2^16 + 1, 5000 grid points of wider ranges,
/// every f32 whose low 16 mantissa bits are zero (a 65536-point lattice over the whole type)
fn stored_values_deep(ty: &Ty, thorough: bool, deep: bool) -> Vec<Val> {
    match ty {
        Ty::Int { min, max } | Ty::Scaled { min, max, .. } => {
            let mk = |x: i64| if matches!(ty, Ty::Int { .. }) { Val::Int(x) } else { Val::Scaled(x) };
            let range = *max as i128 - *min as i128;
            if deep && range > 4096 {
                let mut v: Vec<i64> = crate::cat::int_values(*min, *max);
                if range <= 65537 {
                    v.extend((0..=range).map(|o| (*min as i128 + o) as i64));
                } else {
                    v.extend((0..5000i128).map(|k| (*min as i128 + range * k / 4999) as i64));
                }
                v.sort();
                v.dedup();
                return v.into_iter().map(mk).collect();
            }
            if range <= 4096 {
                (0..=range).map(|o| mk((*min as i128 + o) as i64)).collect()
            } else {
                let mut v: Vec<i64> = crate::cat::int_values(*min, *max);
                for k in 0..200i128 {
                    v.push((*min as i128 + range * k / 199) as i64);
                }
                v.sort();
                v.dedup();
                v.into_iter().map(mk).collect()
            }
        }
        Ty::F32 { min, max } => {
            let (lo, hi) = (min.unwrap_or(f32::MIN), max.unwrap_or(f32::MAX));
            let mut v = vec![lo, hi, f32::from_bits(lo.to_bits().wrapping_add(1)), f32::from_bits(hi.to_bits().wrapping_sub(1)), lo * 0.5 + hi * 0.5, 0.0, -0.0, 1.0, -1.0, f32::MIN, f32::MAX, f32::MIN_POSITIVE];
            v.extend(crate::cat::f32_lattice().into_iter().filter(|x| x.is_finite()));
            if deep {
                v.extend((0..=u16::MAX).map(|h| f32::from_bits((h as u32) << 16)));
            }
            v.retain(|x| x.is_finite());
            v.into_iter().map(Val::F32).collect()
        }
        Ty::F64 { min, max } => {
            let (lo, hi) = (min.unwrap_or(f64::MIN), max.unwrap_or(f64::MAX));
            let mut v = vec![lo, hi, f64::from_bits(lo.to_bits().wrapping_add(1)), f64::from_bits(hi.to_bits().wrapping_sub(1)), lo * 0.5 + hi * 0.5, 0.0, -0.0, 1.0, -1.0, f64::MIN, f64::MAX, f64::MIN_POSITIVE, f64::from_bits(1), f64::from_bits(2), f64::from_bits(3), f64::from_bits(4)];
            if thorough {
                v.extend(crate::cat::f64_lattice().into_iter().filter(|x| x.is_finite()));
            } else {
                v.extend(crate::cat::f32_lattice().into_iter().filter(|x| x.is_finite()).map(|x| x as f64));
            }
            v.retain(|x| x.is_finite());
            v.into_iter().map(Val::F64).collect()
        }
    }
}

fn real(v: &Val, ty: &Ty) -> f64 {
    match (v, ty) {
        (Val::F32(x), _) => *x as f64,
        (Val::F64(x), _) => *x,
        (Val::Int(x), _) => *x as f64,
        (Val::Scaled(x), Ty::Scaled { scale, offset, .. }) => *x as f64 * *scale + *offset,
        (Val::Scaled(x), _) => *x as f64,
    }
}

pub fn normalise(ctx: &Ctx) {
    let types = attr_types();
    let ti = ctx.pick("type", types.len());
    let ty = types[ti].clone();
    let shapes = limit_shapes(&ty);
    let li = ctx.pick("limits", shapes.len());
    let attr = ctx.pick("attribute", 4); // intensity, red, green, blue
    // limits of the NEXT colour channel: 0 complete, 1 maximum missing, 2 both missing (the channel
    // under test is judged by its own limits whatever the other channels carry)
    let other = if attr == 0 { 0 } else { ctx.pick("next-channel-limits", 3) };
    let (lname, lmin, lmax) = shapes[li].clone();
    // candidate ranges the statement allows
    let (tlo, thi) = type_range(&ty);
    let mut cands: Vec<(f64, f64)> = Vec::new();
    let mut only_invariants = false;
    let mut may_fail = false;
    match (&lmin, &lmax) {
        (Some(a), Some(b)) => {
            let same_variant = std::mem::discriminant(a) == std::mem::discriminant(b);
            let (a, b) = (a.as_f64(), b.as_f64());
            if a.is_nan() || b.is_nan() || a > b {
                // not a range: only the invariants are required. An error is not acceptable: the
                // raw data is sound, and with normalisation switched off the limits do not even matter
                only_invariants = true;
                may_fail = false;
                cands.push((tlo, thi));
            } else if !same_variant || matches!(lmin, Some(LVal::Scaled(_))) {
                // ambiguous ("limits of a variant that differs", "ScaledInteger limits raw or scaled"): either
                cands.push((a, b));
                cands.push((tlo, thi));
                if let Ty::Scaled { scale, offset, .. } = &ty {
                    cands.push((a * scale + offset, b * scale + offset));
                }
            } else {
                cands.push((a, b));
            }
        }
        _ => cands.push((tlo, thi)),
    }
    // normalise candidate orientation (negative scale flips the type range)
    let cands: Vec<(f64, f64)> = cands.into_iter().map(|(a, b)| if a <= b { (a, b) } else { (b, a) }).collect();

    let mut proto = xyz(F32);
    let names = ["intensity", "colorRed", "colorGreen", "colorBlue"];
    if attr == 0 {
        proto.push(rec("intensity", ty.clone()));
    } else {
        for (k, n) in names[1..].iter().enumerate() {
            proto.push(rec(n, if k + 1 == attr { ty.clone() } else { Ty::Int { min: 0, max: 255 } }));
        }
    }
    let vals = stored_values_deep(&ty, true, ctx.tier_thorough);
    let points: Vec<Vec<Val>> = vals
        .iter()
        .map(|v| {
            let mut p = vec![Val::F32(0.0), Val::F32(0.0), Val::F32(0.0)];
            if attr == 0 {
                p.push(*v);
            } else {
                for k in 1..4 {
                    p.push(if k == attr { *v } else { Val::Int(9) });
                }
            }
            p
        })
        .collect();
    let mut meta = m::CloudMeta { guid: Some("c".into()), ..Default::default() };
    if lmin.is_some() || lmax.is_some() {
        if attr == 0 {
            meta.intensity_limits = Some([lmin, lmax]);
        } else {
            let mut cl = [Some(LVal::Int(0)), Some(LVal::Int(255)), Some(LVal::Int(0)), Some(LVal::Int(255)), Some(LVal::Int(0)), Some(LVal::Int(255))];
            cl[2 * (attr - 1)] = lmin;
            cl[2 * (attr - 1) + 1] = lmax;
            let next = attr % 3; // channel index 0..2 of the next channel
            if other >= 1 {
                cl[2 * next + 1] = None;
            }
            if other == 2 {
                cl[2 * next] = None;
            }
            meta.color_limits = Some(cl);
        }
    }
    let mut scene = crate::scenes::scene(0);
    scene.clouds.clear();
    let n = points.len();
    scene.clouds.push(m::Cloud { meta, proto: proto.clone(), points, records: n as u64, file_offset: 0 });
    let Some((enc, _)) = model_file(ctx, &scene, Knobs::NONE) else { return };
    ctx.describe(|| format!("{} typed {} with limits '{lname}' ({lmin:?}, {lmax:?}), next channel's limits {}, {n} stored values, normalisation on and off", names[attr], ty.describe(), ["complete", "without maximum", "absent"][other]));
    ctx.observe(&enc.bytes);
    ctx.count(format!("limits:{lname}"));

    for norm_on in [true, false] {
        ctx.evals(1);
        let res = guarded(|| -> Result<Vec<Option<f32>>, String> {
            let mut r = E57Reader::new(Dev::new(enc.bytes.clone())).map_err(|e| format!("open: {}", err_string(&e)))?;
            let pc = r.pointclouds().remove(0);
            let mut it = r.pointcloud_simple(&pc).map_err(|e| format!("pointcloud_simple: {}", err_string(&e)))?;
            it.normalize_intensity(norm_on);
            it.normalize_color(norm_on);
            it.intensity_to_color(false);
            let mut out = Vec::new();
            for p in it {
                let p = p.map_err(|e| format!("next: {}", err_string(&e)))?;
                out.push(match attr {
                    0 => p.intensity,
                    1 => p.color.map(|c| c.red),
                    2 => p.color.map(|c| c.green),
                    _ => p.color.map(|c| c.blue),
                });
                if out.len() > n {
                    break;
                }
            }
            Ok(out)
        });
        ctx.ops(n as u64);
        let out = match res {
            Err(pi) => {
                ctx.violation(format!("{P}/panic/{}", pi.class()), format!("simple iterator panicked at {} ({}): {} typed {} limits '{lname}'", pi.loc, pi.msg, names[attr], ty.describe()));
                return;
            }
            Ok(Err(e)) => {
                if may_fail {
                    ctx.count("outcome:err-accepted");
                    continue;
                }
                ctx.violation(format!("{P}/error/{}", msg_class(&e)), format!("{e}: {} typed {} limits '{lname}'", names[attr], ty.describe()));
                return;
            }
            Ok(Ok(o)) => o,
        };
        if out.len() != n || out.iter().any(|o| o.is_none()) {
            ctx.violation(format!("{P}/missing-values"), format!("{} of {n} values delivered", out.iter().filter(|o| o.is_some()).count()));
            return;
        }
        let out: Vec<f32> = out.into_iter().map(|o| o.unwrap()).collect();
        let reals: Vec<f64> = vals.iter().map(|v| real(v, &ty)).collect();
        let what = format!("{} typed {} with limits '{lname}' ({lmin:?},{lmax:?})", names[attr], ty.describe());
        if !norm_on {
            for (i, (o, v)) in out.iter().zip(reals.iter()).enumerate() {
                let e = *v as f32;
                if !(o.to_bits() == e.to_bits() || (*o == e) || (o.is_nan() && e.is_nan())) {
                    ctx.violation(format!("{P}/raw-value-changed"), format!("normalisation off: stored {} delivered as {o}, expected {e} (value #{i}); {what}", vals[i].describe()));
                    return;
                }
            }
            continue;
        }
        // invariants
        for (i, o) in out.iter().enumerate() {
            if o.is_nan() || *o < 0.0 || *o > 1.0 {
                ctx.violation(
                    format!("{P}/outside-unit-interval/{}", if o.is_nan() { "nan" } else { "range" }),
                    format!("normalised value for stored {} (real {}) is {o}; {what}", vals[i].describe(), reals[i]),
                );
                return;
            }
        }
        // monotone in the stored (real) value
        let mut order: Vec<usize> = (0..n).collect();
        order.sort_by(|a, b| reals[*a].partial_cmp(&reals[*b]).unwrap());
        for w in order.windows(2) {
            if out[w[0]] > out[w[1]] {
                ctx.violation(
                    format!("{P}/not-monotone"),
                    format!("stored {} -> {} but larger stored {} -> {}; {what}", reals[w[0]], out[w[0]], reals[w[1]], out[w[1]]),
                );
                return;
            }
        }
        if only_invariants {
            continue;
        }
        // equality with one of the candidate ranges (the same one for every value)
        let mut ok_any = false;
        let mut first_bad = String::new();
        for (lo, hi) in &cands {
            let mut ok = true;
            for (i, o) in out.iter().enumerate() {
                let e = norm_ref(reals[i], *lo, *hi);
                if (*o as f64 - e).abs() > 2.4e-7 {
                    ok = false;
                    if first_bad.is_empty() {
                        first_bad = format!("stored {} (real {}) -> {o}, expected {e} for range [{lo},{hi}]", vals[i].describe(), reals[i]);
                    }
                    break;
                }
            }
            if ok {
                ok_any = true;
                break;
            }
        }
        if !ok_any {
            ctx.violation(format!("{P}/wrong-value"), format!("{first_bad}; candidate ranges {cands:?}; {what}"));
            return;
        }
    }
    ctx.nontrivial();
}

/// normalisation switched on after the iteration has started: the values of the last of three
/// packets (decoded after the switch) must be normalised like on an iterator configured up front
pub fn late_switch(ctx: &Ctx) {
    let tys: Vec<Ty> = if ctx.tier_thorough {
        attr_types()
    } else {
        vec![Ty::Int { min: 0, max: 255 }, Ty::Int { min: 0, max: 65535 }, Ty::F32 { min: Some(0.0), max: Some(1.0) }, Ty::Scaled { min: 0, max: 4095, scale: 0.25, offset: 0.0 }]
    };
    let ti = ctx.pick("type", tys.len());
    let attr = ctx.pick("attribute", 4);
    let first_setting = ctx.pick("initial-setting", 2) == 1;
    let consumed = if ctx.tier_thorough { ctx.pick("points-before-switch", 41) } else { [1usize, 4][ctx.pick("points-before-switch", 2)] };
    let ty = tys[ti].clone();
    let names = ["intensity", "colorRed", "colorGreen", "colorBlue"];
    let mut proto = xyz(F32);
    if attr == 0 {
        proto.push(rec("intensity", ty.clone()));
    } else {
        for (k, n) in names[1..].iter().enumerate() {
            proto.push(rec(n, if k + 1 == attr { ty.clone() } else { Ty::Int { min: 0, max: 255 } }));
        }
    }
    let vals: Vec<Val> = stored_values(&ty, false).into_iter().take(60).collect();
    let n = vals.len();
    if consumed > n / 3 {
        return; // the switch must come before the third packet is decoded
    }
    let points: Vec<Vec<Val>> = vals
        .iter()
        .map(|v| {
            let mut p = vec![Val::F32(0.0), Val::F32(0.0), Val::F32(0.0)];
            if attr == 0 {
                p.push(*v);
            } else {
                for k in 1..4 {
                    p.push(if k == attr { *v } else { Val::Int(9) });
                }
            }
            p
        })
        .collect();
    let mut scene = crate::scenes::scene(0);
    scene.clouds.clear();
    scene.clouds.push(m::Cloud { meta: m::CloudMeta { guid: Some("c".into()), ..Default::default() }, proto, points, records: n as u64, file_offset: 0 });
    let Some((enc, _)) = model_file(ctx, &scene, Knobs { base_packets: 3, ..Knobs::NONE }) else { return };
    ctx.describe(|| format!("{} typed {}: normalisation {} at first, switched after {consumed} points; 3 packets, {n} values", names[attr], ty.describe(), if first_setting { "on" } else { "off" }));
    let run = |switch_at: Option<usize>, setting: bool| -> Result<Vec<Option<f32>>, String> {
        let mut r = E57Reader::new(Dev::new(enc.bytes.clone())).map_err(|e| err_string(&e))?;
        let pc = r.pointclouds().remove(0);
        let mut it = r.pointcloud_simple(&pc).map_err(|e| err_string(&e))?;
        // without a switch: the configuration the switched iterator ends up with
        let (si, sc) = match switch_at {
            Some(_) => (setting, setting),
            None => (if attr == 0 { setting } else { !setting }, if attr == 0 { !setting } else { setting }),
        };
        it.normalize_intensity(si);
        it.normalize_color(sc);
        it.intensity_to_color(false);
        let mut out = Vec::new();
        for k in 0..n + 1 {
            if Some(k) == switch_at {
                // only the switch that concerns the attribute under test is touched
                if attr == 0 {
                    it.normalize_intensity(!setting);
                } else {
                    it.normalize_color(!setting);
                }
            }
            match it.next() {
                None => break,
                Some(Err(e)) => return Err(err_string(&e)),
                Some(Ok(p)) => out.push(match attr {
                    0 => p.intensity,
                    1 => p.color.map(|c| c.red),
                    2 => p.color.map(|c| c.green),
                    _ => p.color.map(|c| c.blue),
                }),
            }
        }
        Ok(out)
    };
    let res = guarded(|| (run(Some(consumed), first_setting), run(None, !first_setting)));
    match res {
        Err(pi) => ctx.violation(format!("{P}/panic/{}", pi.class()), format!("simple iterator panicked at {} ({})", pi.loc, pi.msg)),
        Ok((Ok(a), Ok(b))) if a.len() == n && b.len() == n => {
            // the last packet holds the last third of the points
            for i in (2 * n).div_ceil(3) + 1..n {
                if a[i].map(f32::to_bits) != b[i].map(f32::to_bits) {
                    ctx.violation(
                        format!("{P}/late-switch-ignored"),
                        format!("{} typed {}: normalisation switched {} after {consumed} points; value #{i} (third packet) is {:?}, an iterator configured that way from the start delivers {:?}", names[attr], ty.describe(), if first_setting { "off" } else { "on" }, a[i], b[i]),
                    );
                    return;
                }
            }
            ctx.observe_u64((ti * 100 + attr * 10 + first_setting as usize * 2 + consumed) as u64);
            ctx.nontrivial();
        }
        Ok((a, b)) => ctx.violation(format!("{P}/error/late-switch"), format!("iteration failed or delivered a wrong count: {:?} / {:?}", a.map(|v| v.len()), b.map(|v| v.len()))),
    }
}
