//! C20 — the bundled tools preserve data end to end.

use crate::c03::model_file;
use crate::cat;
use crate::dev::Dev;
use crate::harness::err_string;
use crate::oracle::msg_class;
use e57::E57Reader;
use e57spec::encode::Knobs;
use explore::Ctx;
use std::path::{Path, PathBuf};
use std::process::Command;

const P: &str = "C20";

fn tools_dir() -> PathBuf {
    PathBuf::from(std::env::var("MC_TOOLS_DIR").unwrap_or_else(|_| "/verif/.build/tools/release".into()))
}

struct WorkDir(PathBuf);
impl WorkDir {
    fn new(tag: &str) -> WorkDir {
        static N: std::sync::atomic::AtomicU64 = std::sync::atomic::AtomicU64::new(0);
        let base = PathBuf::from(std::env::var("VERIF_DIR").unwrap_or_else(|_| "/verif".into())).join(".work");
        let d = base.join(format!("c20-{tag}-{}-{}", std::process::id(), N.fetch_add(1, std::sync::atomic::Ordering::Relaxed)));
        let _ = std::fs::create_dir_all(&d);
        WorkDir(d)
    }
    fn path(&self, n: &str) -> PathBuf {
        self.0.join(n)
    }
}
impl Drop for WorkDir {
    fn drop(&mut self) {
        let _ = std::fs::remove_dir_all(&self.0);
    }
}

fn run_tool(ctx: &Ctx, tool: &str, arg: &Path) -> Option<(bool, Vec<u8>, String)> {
    let exe = tools_dir().join(tool);
    if !exe.exists() {
        ctx.machinery_error(format!("tool binary {} is missing (run ./check setup)", exe.display()));
        return None;
    }
    ctx.op();
    match Command::new(&exe).arg(arg).output() {
        Ok(o) => Some((o.status.success(), o.stdout, String::from_utf8_lossy(&o.stderr).chars().take(300).collect())),
        Err(e) => {
            ctx.machinery_error(format!("cannot run {tool}: {e}"));
            None
        }
    }
}

fn spell(v: f32, how: usize) -> String {
    match how {
        0 => format!("{v}"),
        1 => format!("{v:e}"),
        _ => {
            // plain decimal expansion with enough digits to be exact for every f32
            let s = format!("{:.160}", v as f64);
            let t = s.trim_end_matches('0').to_string();
            if t.ends_with('.') {
                format!("{t}0")
            } else {
                t
            }
        }
    }
}

fn lattice_values() -> Vec<f32> {
    let mut v: Vec<f32> = cat::f32_lattice().into_iter().filter(|x| x.is_finite()).collect();
    v.extend([0.0, -0.0, f32::MIN_POSITIVE, -f32::MIN_POSITIVE, f32::from_bits(1), f32::from_bits(0x007f_ffff), f32::MAX, f32::MIN, 0.1, 1e-7, 16777217.0, 123456.79]);
    v
}

struct Line {
    text: String,
    /// expected output (x, y, z, r, g, b); None = contributes nothing
    exp: Option<([f32; 3], [u8; 3])>,
}

/// compare the tool's output text with the expected points
fn compare_output(out: &str, exp: &[([f32; 3], [u8; 3])]) -> Option<String> {
    let lines: Vec<&str> = out.lines().collect();
    if lines.len() != exp.len() {
        return Some(format!("output has {} lines, {} points expected", lines.len(), exp.len()));
    }
    for (i, (l, (xyz, rgb))) in lines.iter().zip(exp.iter()).enumerate() {
        let parts: Vec<&str> = l.split(' ').collect();
        if parts.len() != 6 {
            return Some(format!("output line {i} has {} columns: '{l}'", parts.len()));
        }
        for k in 0..3 {
            let Ok(v) = parts[k].parse::<f64>() else { return Some(format!("output line {i}: '{}' is not a number", parts[k])) };
            if (v as f32) != xyz[k] || v.is_nan() {
                return Some(format!("line {i} coordinate {k}: wrote {:?} ({:#010x}), got back '{}' = {:?}", xyz[k], xyz[k].to_bits(), parts[k], v as f32));
            }
        }
        for k in 0..3 {
            if parts[3 + k].parse::<i64>().ok() != Some(rgb[k] as i64) {
                return Some(format!("line {i} colour channel {k}: wrote {}, got back '{}'", rgb[k], parts[3 + k]));
            }
        }
    }
    None
}

fn roundtrip_xyz(ctx: &Ctx, lines: &[Line], eol: &str, final_newline: bool, what: &str) -> bool {
    let wd = WorkDir::new("xyz");
    let input = wd.path("in.xyz");
    let mut text = String::new();
    for (i, l) in lines.iter().enumerate() {
        text.push_str(&l.text);
        if i + 1 < lines.len() || final_newline {
            text.push_str(eol);
        }
    }
    if std::fs::write(&input, &text).is_err() {
        ctx.machinery_error("cannot write work file");
        return false;
    }
    let exp: Vec<([f32; 3], [u8; 3])> = lines.iter().filter_map(|l| l.exp).collect();
    let Some((ok, _, err)) = run_tool(ctx, "e57-from-xyz", &input) else { return false };
    if !ok {
        ctx.violation(format!("{P}/from-xyz-failed/{}", msg_class(&err)), format!("e57-from-xyz failed on a well-formed XYZ file ({what}): {err}"));
        return false;
    }
    let e57 = wd.path("in.xyz.e57");
    let Some((ok, _, err)) = run_tool(ctx, "e57-to-xyz", &e57) else { return false };
    if !ok {
        ctx.violation(format!("{P}/to-xyz-failed/{}", msg_class(&err)), format!("e57-to-xyz failed on the file written by e57-from-xyz ({what}): {err}"));
        return false;
    }
    let out = std::fs::read_to_string(wd.path("in.xyz.e57.xyz")).unwrap_or_default();
    if let Some(d) = compare_output(&out, &exp) {
        ctx.violation(format!("{P}/xyz-roundtrip/{}", msg_class(d.split(':').next().unwrap_or(""))), format!("XYZ -> E57 -> XYZ ({what}): {d}"));
        return false;
    }
    // the intermediate E57 holds the same values for the library
    if let Ok(bytes) = std::fs::read(&e57) {
        if let Ok(mut r) = E57Reader::new(Dev::new(bytes)) {
            let pcs = r.pointclouds();
            if pcs.len() != 1 || pcs[0].records != exp.len() as u64 {
                ctx.violation(format!("{P}/from-xyz-record-count"), format!("e57-from-xyz wrote {} records for {} convertible lines ({what})", pcs.first().map_or(0, |p| p.records), exp.len()));
                return false;
            }
            if let Ok(it) = r.pointcloud_raw(&pcs[0]) {
                for (i, p) in it.enumerate() {
                    let Ok(p) = p else { break };
                    if let (e57::RecordValue::Single(x), Some(e)) = (&p[0], exp.get(i)) {
                        if x.to_bits() != e.0[0].to_bits() && !(*x == 0.0 && e.0[0] == 0.0) {
                            ctx.violation(format!("{P}/from-xyz-value"), format!("point {i}: X stored as {x:?}, the text says {:?} ({what})", e.0[0]));
                            return false;
                        }
                    }
                }
            }
            // ... and the same colours: what the library delivers as normalised colour (the view every
            // other consumer of the E57 file gets) is channel / 255
            if let Ok(it) = r.pointcloud_simple(&pcs[0]) {
                for (i, p) in it.enumerate() {
                    let Ok(p) = p else { break };
                    if let (Some(c), Some(e)) = (&p.color, exp.get(i)) {
                        let got = [c.red, c.green, c.blue];
                        for k in 0..3 {
                            if (got[k] as f64 * 255.0 - e.1[k] as f64).abs() > 0.01 {
                                ctx.violation(format!("{P}/from-xyz-colour-scale"), format!("point {i}: the E57 file written by e57-from-xyz delivers colour channel {k} as {} (= {:.3}/255) through the library, the text says {} ({what})", got[k], got[k] as f64 * 255.0, e.1[k]));
                                return false;
                            }
                        }
                    }
                }
            }
        }
    }
    true
}

/// T1a: the value lattice in three spellings, all 256 colour values in every channel
pub fn t1_lattice(ctx: &Ctx) {
    let how = ctx.pick("spelling", 3);
    let rot = ctx.pick("column-rotation", 3);
    let vals = lattice_values();
    let n = vals.len();
    let mut lines = Vec::with_capacity(n);
    for i in 0..n {
        let xyz = [vals[(i + rot * 7) % n], vals[(i + n / 3 + rot * 13) % n], vals[(i + 2 * n / 3 + 1) % n]];
        let rgb = [(i % 256) as u8, ((i * 7 + 85) % 256) as u8, ((i / 256 * 17 + i + 170) % 256) as u8];
        lines.push(Line { text: format!("{} {} {} {} {} {}", spell(xyz[0], how), spell(xyz[1], how), spell(xyz[2], how), rgb[0], rgb[1], rgb[2]), exp: Some((xyz, rgb)) });
    }
    ctx.describe(|| format!("{n} lines: mini-float lattice + specials in spelling {} (e.g. '{}'), column rotation {rot}, colours cycling through 0..=255", ["shortest", "exponent", "plain decimal"][how], lines[5].text.chars().take(80).collect::<String>()));
    ctx.evals(n as u64);
    if roundtrip_xyz(ctx, &lines, "\n", true, &format!("lattice, spelling {how}, rotation {rot}")) {
        ctx.observe_u64((how * 10 + rot) as u64);
        ctx.nontrivial();
    }
}

/// directory mode with many damaged files: 255 / 256 / 257 damaged files next to 0 or 2 intact ones
/// (an exit status that counts failures wraps around at 256)
pub fn t2_check_crc_many(ctx: &Ctx) {
    let bad = [255usize, 256, 257, 512][ctx.pick("damaged-files", 4)];
    let good = [0usize, 2][ctx.pick("intact-files", 2)];
    let base = crate::c07::file(4);
    let wd = WorkDir::new("many");
    let d = wd.path("in");
    let _ = std::fs::create_dir_all(&d);
    for i in 0..bad {
        let mut b = base.clone();
        let pg = (i % (b.len() / 1024)).min(b.len() / 1024 - 1);
        b[pg * 1024 + 100 + i % 800] ^= 0x10;
        if std::fs::write(d.join(format!("bad{i:04}.e57")), &b).is_err() {
            return;
        }
    }
    for i in 0..good {
        if std::fs::write(d.join(format!("good{i}.e57")), &base).is_err() {
            return;
        }
    }
    ctx.describe(|| format!("e57-check-crc on a directory with {bad} damaged and {good} intact files"));
    let Some((ok, _, err)) = run_tool(ctx, "e57-check-crc", &d) else { return };
    if ok {
        ctx.violation(format!("{P}/check-crc-directory-verdict"), format!("e57-check-crc exits with success on a directory with {bad} damaged files ({good} intact); stderr: {}", err.chars().take(200).collect::<String>()));
        return;
    }
    ctx.observe_u64((bad * 10 + good) as u64);
    ctx.nontrivial();
}

/// T1c: every colour triple over {0, 1, 2, 254, 255} (125 lines): small values that could be taken
/// for normalised colours, the extremes, and their neighbours, in every combination
pub fn t1_colours(ctx: &Ctx) {
    let rot = ctx.pick("channel-rotation", 3);
    const V: [u8; 5] = [0, 1, 2, 254, 255];
    let mut lines = Vec::new();
    for i in 0..125usize {
        let t = [V[i % 5], V[i / 5 % 5], V[i / 25]];
        let rgb = [t[rot % 3], t[(rot + 1) % 3], t[(rot + 2) % 3]];
        let xyz = [i as f32 * 0.25, -1.5, 3.0 + i as f32];
        lines.push(Line { text: format!("{} {} {} {} {} {}", xyz[0], xyz[1], xyz[2], rgb[0], rgb[1], rgb[2]), exp: Some((xyz, rgb)) });
    }
    ctx.describe(|| format!("125 lines with every colour triple over {{0,1,2,254,255}}, channel rotation {rot}"));
    ctx.evals(125);
    if roundtrip_xyz(ctx, &lines, "\n", true, &format!("colour triples, rotation {rot}")) {
        ctx.observe_u64(rot as u64);
        ctx.nontrivial();
    }
}

/// T1b: line shapes within <= 2 deviations of "6 clean columns"; line counts 0, 1, cap-1, cap, cap+1
pub fn t1_shapes(ctx: &Ctx) {
    let count_kind = ctx.pick("line-count", 6);
    let cap = 4334usize; // packet capacity of the tool's prototype (96 + 24 bits per point); verified below
    let n = [5usize, 0, 1, cap - 1, cap, cap + 1][count_kind];
    let crlf = ctx.flag("crlf");
    let no_final_newline = ctx.flag("no-final-newline");
    let shape_a = ctx.choose("shape-of-line-1", 7);
    let shape_b = ctx.choose("shape-of-line-3", 7);
    let mut lines: Vec<Line> = Vec::new();
    for i in 0..n {
        let xyz = [i as f32 * 0.5 - 3.0, -(i as f32) / 3.0, 1e-3 * (i * i) as f32];
        let rgb = [(i % 256) as u8, (255 - i % 256) as u8, ((i * 3) % 256) as u8];
        let clean = format!("{} {} {} {} {} {}", xyz[0], xyz[1], xyz[2], rgb[0], rgb[1], rgb[2]);
        let shape = if i == 1 { shape_a } else if i == 3 { shape_b } else { 0 };
        let (text, exp) = match shape {
            0 => (clean, Some((xyz, rgb))),
            1 => (format!("{clean} 77 extra columns"), Some((xyz, rgb))),
            2 => (format!("{} {} {} {} {}", xyz[0], xyz[1], xyz[2], rgb[0], rgb[1]), None),
            3 => (String::new(), None),
            4 => (format!("{clean} "), Some((xyz, rgb))),
            5 => (format!(" {clean}"), Some((xyz, rgb))),
            _ => ("# comment".to_string(), None),
        };
        lines.push(Line { text, exp });
    }
    ctx.describe(|| format!("{n} lines, line 1 shape {shape_a}, line 3 shape {shape_b}, crlf {crlf}, final newline {}", !no_final_newline));
    let what = format!("{n} lines, shapes {shape_a}/{shape_b}, crlf {crlf}, final newline {}", !no_final_newline);
    if roundtrip_xyz(ctx, &lines, if crlf { "\r\n" } else { "\n" }, !no_final_newline, &what) {
        ctx.observe_u64((count_kind * 1000 + shape_a * 100 + shape_b * 10 + crlf as usize * 2 + no_final_newline as usize) as u64);
        ctx.nontrivial();
    }
}

fn corpus_file(ctx: &Ctx, rich: bool) -> Option<(Vec<u8>, String)> {
    let kind = ctx.pick("corpus", 2);
    if kind == 0 {
        let k = ctx.pick("file", crate::c07::N_FILES + 3);
        let b = if k < crate::c07::N_FILES {
            crate::c07::file(k)
        } else if k < crate::c07::N_FILES + 2 {
            crate::c17::variant(0)
        } else {
            // images whose blobs / masks have length zero, next to ordinary ones
            use crate::alpha::{cloud, image};
            use crate::wprog::{run_program, ExecOpts, Op, Program};
            let mut a = image(4, true, 40, 1);
            if let Some(v) = &mut a.visual {
                v.blob.data.clear();
            }
            if let Some(pr) = &mut a.projection {
                if let Some(m) = &mut pr.mask {
                    m.data.clear();
                }
            }
            let mut c = image(2, true, 25, 2);
            if let Some(pr) = &mut c.projection {
                pr.blob.data.clear();
                if let Some(m) = &mut pr.mask {
                    m.data.clear();
                }
            }
            let p = Program { guid: "g".into(), ops: vec![Op::Image(a), Op::Cloud(cloud(crate::cat::xyz(crate::cat::F32), 3, 4)), Op::Image(c), Op::Image(image(3, true, 1100, 5))], ..Default::default() };
            let dev = Dev::empty();
            let h = dev.handle();
            let _ = run_program(dev, &p, &ExecOpts::default());
            h.snapshot()
        };
        Some((b, format!("C07/C17/zero-length-blob file {k}")))
    } else {
        let si = ctx.pick("scene", crate::scenes::N_SCENES);
        let scene = crate::scenes::scene(si);
        // page checksums do not depend on packetisation or XML spelling: the checksum tool gets the
        // gap / order layouts only, the unpack tool the full menu
        let k = if rich { Knobs { packets: true, non_data_packets: true, gaps: true, order: true, xml_lexical: true, max_packets: 2, ..Knobs::NONE } } else { Knobs { gaps: true, order: true, ..Knobs::NONE } };
        let (enc, _) = model_file(ctx, &scene, k)?;
        Some((enc.bytes, format!("scene {si} layout {:?}", enc.notes)))
    }
}

/// T2: e57-check-crc exits successfully exactly when every page checksum is valid
pub fn t2_check_crc(ctx: &Ctx) {
    let Some((bytes, name)) = corpus_file(ctx, false) else { return };
    let pages = bytes.len() / 1024;
    // 0 intact; 1..=pages payload damage; pages+1..=2*pages checksum damage; then truncations
    let d = ctx.pick("damage", 2 * pages + 3 + 4);
    let mut b = bytes.clone();
    let what = if d >= 2 * pages + 3 {
        // the file signature and the header fields (all part of page 0 and of its checksum)
        let at = [0usize, 7, 20, 44][d - (2 * pages + 3)];
        b[at] ^= 0x01;
        format!("byte {at} of the file header damaged")
    } else if d == 0 {
        "intact".to_string()
    } else if d <= pages {
        b[(d - 1) * 1024 + 333] ^= 0x20;
        format!("payload byte 333 of page {} damaged", d - 1)
    } else if d <= 2 * pages {
        b[(d - pages - 1) * 1024 + 1023] ^= 0x01;
        format!("checksum byte of page {} damaged", d - pages - 1)
    } else if d == 2 * pages + 1 {
        b.truncate(b.len() - 1024);
        "truncated by one page".to_string()
    } else {
        b.truncate(b.len() - 1);
        "truncated by one byte".to_string()
    };
    ctx.describe(|| format!("e57-check-crc on {name}, {what}"));
    let wd = WorkDir::new("crc");
    let f = wd.path("f.e57");
    if std::fs::write(&f, &b).is_err() {
        return;
    }
    let Some((ok, _, err)) = run_tool(ctx, "e57-check-crc", &f) else { return };
    let lib = E57Reader::validate_crc(Dev::new(b.clone())).is_ok();
    let spec = b.len() % 1024 == 0 && !b.is_empty() && e57spec::page::unseal(&b).map_or(false, |(_, bad)| bad.is_empty());
    if ok != lib || (b.len() % 1024 == 0 && ok != spec) {
        ctx.violation(
            format!("{P}/check-crc-verdict"),
            format!("e57-check-crc exit success = {ok}, library validate_crc ok = {lib}, independent page check = {spec} for {name}, {what}; stderr: {err}"),
        );
        return;
    }
    ctx.count(format!("verdict:{}", if ok { "ok" } else { "damaged" }));
    ctx.observe_u64(explore::fnv(&b));
    ctx.nontrivial();
}

/// T3: e57-extract-xml prints raw_xml; e57-unpack writes reader.xml(), the raw values and every blob
pub fn t3_unpack(ctx: &Ctx) {
    let Some((bytes, name)) = corpus_file(ctx, true) else { return };
    let pages = bytes.len() / 1024;
    let d = ctx.pick("damaged-page", pages + 1); // 0 = intact
    let mut b = bytes.clone();
    if d > 0 {
        b[(d - 1) * 1024 + 700] ^= 0x08;
    }
    ctx.describe(|| format!("e57-extract-xml and e57-unpack on {name}{}", if d > 0 { format!(" with page {} damaged", d - 1) } else { String::new() }));
    let wd = WorkDir::new("unp");
    let f = wd.path("f.e57");
    if std::fs::write(&f, &b).is_err() {
        return;
    }
    let what = format!("{name}, damaged page {:?}", d.checked_sub(1));
    // extract-xml
    let lib_xml = E57Reader::raw_xml(Dev::new(b.clone()));
    let Some((ok, out, err)) = run_tool(ctx, "e57-extract-xml", &f) else { return };
    match (&lib_xml, ok) {
        (Ok(x), true) => {
            if *x != out {
                ctx.violation(format!("{P}/extract-xml-differs"), format!("e57-extract-xml printed {} bytes, raw_xml returns {} bytes ({what})", out.len(), x.len()));
                return;
            }
        }
        (Err(_), false) => {}
        (Ok(_), false) => {
            ctx.violation(format!("{P}/extract-xml-fails"), format!("e57-extract-xml fails ({err}) although raw_xml succeeds ({what})"));
            return;
        }
        (Err(e), true) => {
            ctx.violation(format!("{P}/extract-xml-succeeds"), format!("e57-extract-xml succeeds although raw_xml fails with {} ({what})", err_string(e)));
            return;
        }
    }
    // unpack
    let Some((ok, _, err)) = run_tool(ctx, "e57-unpack", &f) else { return };
    let dir = wd.path("f.e57_unpacked");
    let lib = E57Reader::new(Dev::new(b.clone()));
    let Ok(mut r) = lib else {
        if ok {
            ctx.violation(format!("{P}/unpack-succeeds-on-unreadable"), format!("e57-unpack succeeds although the library cannot open the file ({what})"));
        } else {
            ctx.count("unpack:both-fail");
            ctx.nontrivial();
        }
        return;
    };
    // what the library returns
    let mut lib_fail = false;
    let mut expect_files: Vec<(String, Vec<u8>)> = vec![("metadata.xml".into(), r.xml().as_bytes().to_vec())];
    for (i, img) in r.images().iter().enumerate() {
        let mut blob = |r: &mut E57Reader<Dev>, b: &e57::Blob| -> Option<Vec<u8>> {
            let mut v = Vec::new();
            r.blob(b, &mut v).ok().map(|_| v)
        };
        if let Some(v) = &img.visual_reference {
            let ext = format!("{:?}", v.blob.format).to_lowercase();
            match blob(&mut r, &v.blob.data) {
                Some(d) => expect_files.push((format!("image_{i}_preview.{ext}"), d)),
                None => lib_fail = true,
            }
            if let Some(m) = &v.mask {
                match blob(&mut r, m) {
                    Some(d) => expect_files.push((format!("image_{i}_preview_mask.png"), d)),
                    None => lib_fail = true,
                }
            }
        }
        if let Some(p) = &img.projection {
            let (bl, mk, tn) = match p {
                e57::Projection::Pinhole(x) => (&x.blob, &x.mask, "pinhole"),
                e57::Projection::Spherical(x) => (&x.blob, &x.mask, "spherical"),
                e57::Projection::Cylindrical(x) => (&x.blob, &x.mask, "cylindrical"),
            };
            let ext = format!("{:?}", bl.format).to_lowercase();
            match blob(&mut r, &bl.data) {
                Some(d) => expect_files.push((format!("image_{i}_{tn}.{ext}"), d)),
                None => lib_fail = true,
            }
            if let Some(m) = mk {
                match blob(&mut r, m) {
                    Some(d) => expect_files.push((format!("image_{i}_{tn}_mask.png"), d)),
                    None => lib_fail = true,
                }
            }
        }
    }
    for (i, pc) in r.pointclouds().iter().enumerate() {
        let mut csv = pc.prototype.iter().map(|rc| format!("{:?} {:?}", rc.name, rc.data_type)).collect::<Vec<_>>().join(";");
        csv.push('\n');
        match r.pointcloud_raw(pc) {
            Ok(it) => {
                let mut n = 0u64;
                for p in it {
                    match p {
                        Ok(p) => {
                            csv.push_str(&p.iter().map(|v| v.to_string()).collect::<Vec<_>>().join(";"));
                            csv.push('\n');
                        }
                        Err(_) => {
                            lib_fail = true;
                            break;
                        }
                    }
                    n += 1;
                    if n > pc.records {
                        break;
                    }
                }
            }
            Err(_) => lib_fail = true,
        }
        expect_files.push((format!("pc_{i}.csv"), csv.into_bytes()));
    }
    if lib_fail {
        if ok {
            ctx.violation(format!("{P}/unpack-succeeds-on-read-error"), format!("e57-unpack exits successfully although the library fails to read part of the file ({what})"));
        } else {
            ctx.count("unpack:both-fail");
            ctx.nontrivial();
        }
        return;
    }
    if !ok {
        ctx.violation(format!("{P}/unpack-fails/{}", msg_class(&err)), format!("e57-unpack fails ({err}) although the library reads everything ({what})"));
        return;
    }
    for (n, want) in &expect_files {
        let got = match std::fs::read(dir.join(n)) {
            Ok(g) => g,
            Err(_) => {
                ctx.violation(format!("{P}/unpack-file-missing"), format!("e57-unpack did not write {n} ({} bytes returned by the library) ({what})", want.len()));
                return;
            }
        };
        if got != *want {
            let pos = got.iter().zip(want.iter()).position(|(a, b)| a != b);
            ctx.violation(
                format!("{P}/unpack-differs/{}", n.split(|c: char| c.is_ascii_digit() || c == '.').next().unwrap_or("")),
                format!("e57-unpack wrote {n} with {} bytes, the library returns {} bytes (first difference at {pos:?}) ({what})", got.len(), want.len()),
            );
            return;
        }
    }
    ctx.count_n("unpack:files-compared", expect_files.len() as u64);
    ctx.observe_u64(explore::fnv(&b));
    ctx.nontrivial();
}

/// T2b: directory mode of e57-check-crc: files a.e57, b.e57, sub/c.E57 and a non-E57 file; none or
/// exactly one of them damaged; success exactly when every E57 file is valid
pub fn t2_check_crc_dir(ctx: &Ctx) {
    let damaged = ctx.pick("damaged-file", 4); // 0 none, 1 a, 2 b, 3 sub/c
    let kind = ctx.pick("damage", 2); // payload / checksum
    let order = ctx.pick("file-set", 3);
    let files: Vec<Vec<u8>> = (0..3).map(|i| crate::c07::file((i + order) % crate::c07::N_FILES)).collect();
    let wd = WorkDir::new("dir");
    let d = wd.path("in");
    let _ = std::fs::create_dir_all(d.join("sub"));
    let names = ["a.e57", "b.e57", "sub/c.E57"];
    let mut all_valid = true;
    for (i, n) in names.iter().enumerate() {
        let mut b = files[i].clone();
        if damaged == i + 1 {
            let pg = b.len() / 1024 - 1;
            b[pg * 1024 + if kind == 0 { 100 } else { 1021 }] ^= 0x40;
        }
        all_valid &= E57Reader::validate_crc(Dev::new(b.clone())).is_ok();
        if std::fs::write(d.join(n), &b).is_err() {
            return;
        }
    }
    let _ = std::fs::write(d.join("notes.txt"), b"not an e57 file");
    ctx.describe(|| format!("e57-check-crc on a directory with {names:?}, damaged file index {damaged} (0 = none), damage kind {kind}"));
    let Some((ok, _, err)) = run_tool(ctx, "e57-check-crc", &d) else { return };
    if ok != all_valid {
        ctx.violation(
            format!("{P}/check-crc-directory-verdict"),
            format!("e57-check-crc on a directory exits with success = {ok} although 'all files valid' = {all_valid} (damaged file index {damaged}); stderr: {err}"),
        );
        return;
    }
    ctx.observe_u64((damaged * 10 + kind * 3 + order) as u64);
    ctx.nontrivial();
}
