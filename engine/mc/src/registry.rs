//! Registry of checks (one per property) and their exploration stages.

use explore::json::J;
use explore::{CaseFn, ViolationRec};
use std::time::Instant;

pub struct Stage {
    pub space: &'static str,
    pub f: CaseFn,
    /// deviation bound (quick, thorough)
    pub bound: (u32, u32),
    /// 1 = quick only, 2 = thorough only, 3 = both
    pub tiers: u8,
    /// per-case watchdog
    pub timeout_s: u64,
    pub what: &'static str,
}

/// Result of an in-process engine stage (E2 explicit-state BFS, E4 syndrome table).
pub struct ExtraResult {
    pub states: u64,
    pub transitions: u64,
    pub traces: u64,
    pub exhaustive: bool,
    pub note: String,
    pub violations: Vec<ViolationRec>,
    pub machinery_errors: Vec<String>,
    pub samples: Vec<J>,
    pub json: J,
}

pub type ExtraFn = fn(thorough: bool, seed: u64, deadline: Instant) -> ExtraResult;

pub struct Check {
    pub id: &'static str,
    pub level: &'static str,
    pub stages: Vec<Stage>,
    pub extra: Option<ExtraFn>,
    pub rule: &'static str,
    pub assumptions: &'static [&'static str],
    /// wall-clock budget in seconds (quick, thorough)
    pub budget_s: (u64, u64),
}

fn st(space: &'static str, f: CaseFn, bound: (u32, u32), tiers: u8, what: &'static str) -> Stage {
    Stage { space, f, bound, tiers, timeout_s: 20, what }
}

pub fn checks() -> Vec<Check> {
    use crate::*;
    vec![Check {
        id: "C01",
        level: "model_checking",
        stages: vec![
            st("c01.s1", c01::s1, (0, 0), 3, "pad blob at all 255 aligned residues x 6 prototypes x npoints {0,1,3}"),
            st("c01.s2", c01::s2, (0, 0), 3, "all writer programs of depth <=3 (quick) / <=4 (thorough) over the 30-op alphabet"),
            st("c01.s3", c01::s3, (0, 0), 3, "8 prototypes x point counts around 1x/2x/3x the natural packet capacity"),
            st("c01.s4", c01::s4, (0, 0), 3, "hooked packet capacity 1..9 x npoints 0..3c+1 x every catalogue type"),
            st("c01.s5", c01::s5, (0, 0), 2, "two hooked-capacity clouds around a pad blob at all 255 residues x prototype pairs"),
        ],
        extra: None,
        rule: "every case of the stated finite product is executed once on the real writer and read back with the real raw reader; a case is non-trivial when at least one point was stored; distinct = distinct hash of the produced file bytes",
        assumptions: &[
            "only prototypes satisfying the documented validate_* rules and in-range, correctly typed values are generated (rejected inputs belong to C10)",
            "values come from finite catalogues (boundaries, walking bits, float specials), not all 2^64 payloads",
        ],
        budget_s: (45, 900),
    },
    Check {
        id: "C06",
        level: "model_checking",
        stages: vec![
            st("c06.product", c06::product, (0, 0), 3, "full product: blob length 0..=1023 x all 255 aligned start residues"),
            st("c06.long", c06::long, (0, 0), 3, "multi-page lengths 1020k+d (k=1..3, d=-20..20), 65535, 65536, 200000 x 16 residues x 3 fill patterns"),
            st("c06.neighbours", c06::neighbours, (0, 0), 3, "all programs of depth <=3 over blobs, every image kind with/without mask, cloud; unique payload patterns"),
            st("c06.tamper", c06::tamper, (0, 0), 3, "crafted descriptors (length -1,+1,+3,+4,+16,+17,+5000,2^63,2^64-1) x section-length patches x 51 residues x 7 lengths"),
        ],
        extra: None,
        rule: "every (length, start residue) pair of the product and every program of the neighbour space is written by the real writer and read by the real reader; distinct = distinct file bytes; non-trivial = at least one non-empty payload compared byte by byte",
        assumptions: &[
            "tampering clause in its weakest sound form: any descriptor yields Err or exactly `length` bytes equal to the logical bytes after the 16-byte header",
        ],
        budget_s: (45, 900),
    },
    Check {
        id: "C10",
        level: "model_checking",
        stages: vec![
            st("c10.protos_short", c10::protos_short, (0, 0), 3, "all prototypes of length <=2 over 25 names x 14 types"),
            st("c10.protos_base", c10::protos_base, (0, 0), 3, "valid base (XYZ f32 | spherical f64) + <=2 extra records over 25 names x 14 types"),
            st("c10.protos_mutated", c10::protos_mutated, (0, 0), 3, "catalogue prototypes with one record deleted / duplicated / retyped"),
            st("c10.values", c10::values, (0, 0), 3, "unstorable value (9 kinds) at every position 0..8 of a 9-point cloud x 8 integer types x 2 record slots"),
            st("c10.orders", c10::orders, (0, 0), 3, "all sequences of depth <=3 (quick) / <=4 (thorough) over 15 API sessions incl. misuse x 3 finalize modes"),
        ],
        extra: None,
        rule: "every prototype / value / call-order case of the stated products is executed on the real writer under catch_unwind; expected verdicts come from a plain predicate of the documented rules; non-trivial = all calls succeeded and the file was read back and compared",
        assumptions: &[
            "T2 demands rejection only for the classes the statement lists (arity, type, integer range, documented prototype rules incl. max<min, extension names)",
            "prototype shapes the documentation does not forbid (duplicate names) are judged by no-panic and read-back only",
            "API misuse outside the listed classes (add_point after finalize, second finalize) is judged by no-panic and by read-back of whatever finalize reported as success",
        ],
        budget_s: (45, 900),
    },
    Check {
        id: "C14",
        level: "model_checking",
        stages: vec![st(
            "c14.bounds",
            c14::bounds,
            (2, 3),
            3,
            "48 attribute-group subsets x 4 sequence kinds; <=2 (quick) / <=3 (thorough) deviations over types, value sets, limit overrides and per-attribute value orders (all 6 orders of 3 distinct values)",
        )],
        extra: None,
        rule: "deviation-bounded DFS: all cases with at most d non-default choices; bounds compared numerically with an independent fold over the harness's point list; non-trivial = cloud with points",
        assumptions: &["NaN coordinates are excluded (min/max over NaN is not defined by the statement)", "partial limit overrides are not judged"],
        budget_s: (45, 900),
    }]
}
