//! Registry of checks (one per property) and their exploration stages.

use explore::json::J;
use explore::{CaseFn, ViolationRec};
use std::time::Instant;

pub struct Stage {
    pub space: &'static str,
    pub f: CaseFn,
    /// deviation bound (quick, thorough)
    pub bound: (u32, u32),
    /// 1 = quick only, 2 = thorough only, 3 = both
    pub tiers: u8,
    /// per-case watchdog
    pub timeout_s: u64,
    pub what: &'static str,
    /// run the stage a second time with the workers of the `crc32c`-feature build and require
    /// identical per-case observations
    pub hw_compare: bool,
    /// run the stage a second time with fresh worker processes of the same build and require
    /// identical per-case observations (determinism across processes)
    pub twice: bool,
}

/// Result of an in-process engine stage (E2 explicit-state BFS, E4 syndrome table).
pub struct ExtraResult {
    pub states: u64,
    pub transitions: u64,
    pub traces: u64,
    pub exhaustive: bool,
    pub note: String,
    pub violations: Vec<ViolationRec>,
    pub machinery_errors: Vec<String>,
    pub samples: Vec<J>,
    pub json: J,
}

pub type ExtraFn = fn(thorough: bool, seed: u64, deadline: Instant) -> ExtraResult;

pub struct Check {
    pub id: &'static str,
    pub level: &'static str,
    pub stages: Vec<Stage>,
    pub extra: Option<ExtraFn>,
    pub rule: &'static str,
    pub assumptions: &'static [&'static str],
    /// wall-clock budget in seconds (quick, thorough)
    pub budget_s: (u64, u64),
    /// worker deaths by memory exhaustion and watchdog timeouts are not verdicts of this check
    pub ignore_resource_deaths: bool,
}

fn st(space: &'static str, f: CaseFn, bound: (u32, u32), tiers: u8, what: &'static str) -> Stage {
    Stage { space, f, bound, tiers, timeout_s: 60, what, hw_compare: false, twice: false }
}

pub fn checks() -> Vec<Check> {
    use crate::*;
    vec![Check {
        id: "C01",
        level: "model_checking",
        stages: vec![
            st("c01.s1", c01::s1, (0, 0), 3, "pad blob at all 255 aligned residues x 6 prototypes x npoints {0,1,3}"),
            st("c01.s2", c01::s2, (0, 0), 3, "all writer programs of depth <=3 (quick) / <=4 (thorough) over the 30-op alphabet"),
            st("c01.s3", c01::s3, (0, 0), 3, "8 prototypes x point counts around 1x/2x/3x the natural packet capacity"),
            st("c01.s4", c01::s4, (0, 0), 3, "hooked packet capacity 1..9 x npoints 0..3c+1 x every catalogue type"),
            st("c01.s6", c01::s6, (0, 0), 3, "extension attribute of every catalogue type at the first/last prototype position x capacity {1,3} x npoints {0,1,4} x one or two registered extensions"),
            st("c01.s7", c01::s7, (0, 0), 3, "every attribute-group subset (3 coordinate kinds x 2^10 group/flag bits, invalid combinations skipped), 5 points, capacity 2"),
            Stage { timeout_s: 120, ..st("c01.s8", c01::s8, (0, 0), 3, "scale: 255/256/257/300 point clouds in one file; 65535/65536/65537 points in one cloud; 300 and 70000 one-point data packets (hooked capacity 1); XYZ + 100..5900 extension records with one point more than a natural data packet takes; 4 bit-packed prototypes x 5 natural capacities + 3 points") },
            st("c01.s9", c01::s9, (0, 0), 3, "8 prototypes x 0..3 accepted points x capacity {natural,1,2} x 3 kinds of refused call x every subset of positions between the accepted points: count, points and order are those of the accepted calls"),
            st("c01.tiny", c01::tiny, (0, 0), 3, "only narrow records: 7x7x3 widths below a byte for X, Y, Z (Integer / ScaledInteger) with no, a 1-bit or a zero-width fourth record x 0..17 points x capacity {natural, 1, 3}: no stream fills a byte per point, flushes find no complete byte"),
            st("c01.s2deep", c01::s2deep, (0, 0), 3, "all writer programs of depth exactly 4 (quick: 20 736) / 5 (thorough: 248 832) over a 12-op sub-alphabet (4 blob sizes, 2 images, 6 clouds)"),
            st("c01.s5", c01::s5, (0, 0), 2, "two hooked-capacity clouds around a pad blob at all 255 residues x prototype pairs"),
        ],
        extra: None,
        rule: "every case of the stated finite product is executed once on the real writer and read back with the real raw reader; a case is non-trivial when at least one point was stored; distinct = distinct hash of the produced file bytes",
        assumptions: &[
            "only prototypes satisfying the documented validate_* rules and in-range, correctly typed values are generated (rejected inputs belong to C10)",
            "values come from finite catalogues (boundaries, walking bits, float specials), not all 2^64 payloads",
        ],
        ignore_resource_deaths: false,
        budget_s: (120, 900),
    },
    Check {
        id: "C02",
        level: "model_checking",
        stages: vec![
            st("c02.s1", c02::s1, (0, 0), 3, "C01-S1 programs (255 residues x 6 prototypes x 3 point counts) judged by the independent validator/decoder"),
            st("c02.s2", c02::s2, (0, 0), 3, "all programs of depth <=3/4 over the 30-op alphabet x 3 finalize modes (plain, identity transformer, transformer appending a foreign element)"),
            st("c02.s4", c02::s4, (0, 0), 3, "C01-S4 programs (hooked capacity x point counts x every catalogue type)"),
            st("c02.meta", c02::meta, (0, 0), 3, "1905 metadata-rich files (every catalogue string incl. non-ASCII and astral characters in every string field, 5 image kinds rotating)"),
            st("c02.ext", c02::ext, (0, 0), 3, "all sequences of <=3 extension registration attempts over 2 prefixes x {2 URLs, empty URL, the E57 namespace, the two reserved XML namespace names} (a prefix can be registered once, never with one of the unusable names), then a cloud with an extension attribute"),
            st("c02.blobs", c02::blobs, (0, 0), 3, "blob + cylindrical image payload length 0..=1023 x 17 start residues; payload sources delivering in full / in halves / alternating (rotated)"),
            st("c02.tiny", c02::tiny, (0, 0), 3, "only narrow records: 7x7x3 widths below a byte for X, Y, Z (Integer / ScaledInteger) with no, a 1-bit or a zero-width fourth record x 0..17 points x capacity {natural, 1, 3}: no stream fills a byte per point, flushes find no complete byte"),
            st("c02.failed_source", c02::failed_source, (0, 0), 3, "add_blob whose payload source fails after k bytes (11 values around 0, 4 and the page size) behind 5 alignments, followed by a small cloud / a multi-packet cloud / an image / a blob: the call reports the failure and the finalized file is still well-formed and complete"),
            st("c02.long_blobs", c02::long_blobs, (0, 0), 3, "blob and image payloads of 12 long lengths (multi-page, around powers of two, up to 1 MiB) x 3 source read modes"),
        ],
        extra: None,
        rule: "every program of the listed spaces is written by the real writer and judged by e57spec (rules R1-R10: size, page CRCs, header fields, XML well-formedness/namespaces/names/types, offsets and section ids, section/packet lengths and alignment, exact stream byte counts, blob section length convention, overlap, decoded content == harness record); distinct = distinct file bytes",
        assumptions: &[
            "e57spec encodes the ASTM E2807 layout as observed in the libE57Format/E57RefImpl-written files bundled in /repo/testdata (all of which it validates without complaint)",
            "element names not present in any bundled foreign file are taken from the standard from memory (listed in DESIGN.md §5 C02)",
        ],
        ignore_resource_deaths: false,
        budget_s: (120, 900),
    },
    Check {
        id: "C03",
        level: "model_checking",
        stages: vec![
            st("c03.layout", c03::layout, (2, 3), 3, "10 scenes x all layouts with <=2 (quick) / <=3 (thorough) deviations over packets, cuts, index/ignored packets, data/index offsets, section order, gaps {4,1000,1016}, omitted default attributes, XML lexical forms"),
            st("c03.gaps", c03::gaps, (1, 2), 3, "10 scenes x every gap 4..1020 before every section and before the XML (all 255 aligned start residues); thorough: all pairs"),
            st("c03.tail", c03::tail, (1, 2), 3, "XML section directly behind the header, binary sections last: 10 scenes x every gap 4..1020 before every section (the last packet ends anywhere relative to the end of the file, incl. exactly at it); thorough: all pairs"),
            st("c03.cuts", c03::cuts, (2, 2), 3, "10 scenes encoded with 2 (thorough 3) data packets per cloud x every byte cut of every record stream, all pairs of cuts, x index/ignored packets"),
            st("c03.maxpacket", c03::maxpacket, (1, 1), 3, "one 8-bit record, first data packet of 65520/65524/65528 stream bytes (packet length up to 65536, the maximum of the length field) x 3 tail sizes x gaps {4,1000,1016}"),
            st("c03.xml", c03::xml, (3, 4), 3, "10 scenes x all combinations of <=3 (thorough <=4) XML lexical / omitted-attribute deviations"),
        ],
        extra: None,
        rule: "deviation-bounded DFS over the layout choice points of the independent encoder; every emitted file is first validated and decoded by e57spec itself (self round trip), then read by the real reader; distinct = distinct file bytes; non-trivial = non-canonical layout",
        assumptions: &[
            "only layouts libE57Format accepts are offered (packets skipped by length, empty byte streams, <4 padding bytes, 4-byte aligned sections, infoset-preserving lexical variants)",
            "scenes are 10 fixed small scenes (<=5 points per cloud)",
        ],
        ignore_resource_deaths: false,
        budget_s: (120, 900),
    },
    Check {
        id: "C04",
        level: "model_checking",
        stages: vec![
            st("c04.lattice", c04::lattice, (3, 4), 3, "presence lattice of 34 optional fields (root, cloud, image): all subsets within <=3 (thorough <=4) toggles of all-absent and of all-present x 5 image kinds x 3 finalize modes"),
            st("c04.types", c04::types, (0, 0), 3, "every catalogue data type (floats with none / both / one-sided limits, ~190 integer and scaled-integer ranges) as coordinate, intensity, colour, time stamp and extension record: prototype read back unchanged"),
            st("c04.poses", c04::poses, (0, 0), 3, "42 poses (5 unit rotations x every zero / non-zero pattern of the translation, negative zeros, extreme magnitudes) for the point cloud and a neighbouring pose for the image x 5 image kinds"),
            st("c04.scale", c04::scale, (0, 0), 3, "strings of 65535 / 70001 characters (ASCII, 2-byte, 4-byte, markup) in every string field x image kinds; 300 registered extensions"),
            st("c04.ext", c04::ext, (0, 0), 3, "all sequences of <=3 extension registration attempts over 2 prefixes x {2 URLs, empty URL, E57 namespace, reserved XML namespace names}: the reader lists exactly the accepted registrations"),
            st("c04.strings", c04::strings, (0, 0), 3, "every catalogue string (all strings of length <=3 over 12 XML-critical characters + 20 long ones) in every string field, rotated per field"),
            st("c04.floats", c04::floats, (0, 0), 3, "every float of the mini-float lattice + specials (NaN, inf, subnormals, extremes) in every float field x 3 projection kinds"),
        ],
        extra: None,
        rule: "every case is written by the real writer with the given metadata and read back by the real reader; all settable fields compared exactly (floats by bits, NaN == NaN); xml() compared with the transformer output and with the XML bytes located by the independent header decoder; distinct = distinct XML",
        assumptions: &[
            "strings are built from characters XML can carry; carriage return excluded (XML parsers normalise it)",
            "file GUID non-empty (documented requirement); partial limit overrides are not expected to round-trip",
        ],
        ignore_resource_deaths: false,
        budget_s: (120, 900),
    },
    Check {
        id: "C05",
        level: "model_checking",
        stages: vec![
            st("c05.view", c05::view_space, (2, 3), 3, "3 coordinate kinds x 6 poses; <=2/3 deviations over attribute presence (states, flags, colour, intensity, row/col), coordinate type, out-of-set state values (3,-1,255 at first/middle/last point), packetisation; every case under all 64 option vectors"),
            st("c05.scenes", c05::scenes_space, (2, 2), 3, "the 10 C03 scenes under <=2 layout deviations (packets, cuts, index/ignored packets, gaps) x 8 option vectors"),
        ],
        extra: None,
        rule: "deviation-bounded DFS; each case is an e57spec-encoded file read by the real simple iterator under every option vector and compared point by point with an independent 'documented view' function of the encoded raw values; evaluations = (case, option vector) pairs; non-trivial = all 64 vectors compared",
        assumptions: &[
            "trigonometric and pose results compared within relative 1e-9, normalised values within one f32 ulp",
            "where the statement is silent (Cartesian direction derived from a spherical direction and vice versa) both Invalid and the converted direction are accepted",
            "an Err is accepted if anywhere in the cloud an invalid-state value outside its documented set is stored",
        ],
        ignore_resource_deaths: false,
        budget_s: (120, 2400),
    },
    Check {
        id: "C06",
        level: "model_checking",
        stages: vec![
            st("c06.product", c06::product, (0, 0), 3, "full product: blob length 0..=1023 (thorough 0..=3071) x all 255 aligned start residues; payload source delivering in full / in halves / alternating (rotated)"),
            st("c06.long", c06::long, (0, 0), 3, "multi-page lengths 1020k+d (k=1..3, d=-20..20), 2^k-1, 2^k, 2^k+1 for k=12..17 and 20, 200000 x 16 residues x 3 fill patterns x 3 source read modes"),
            st("c06.neighbours", c06::neighbours, (0, 0), 3, "all programs of depth <=3 (thorough <=4: 111 151 programs) over blobs, every image kind with/without mask, cloud; unique payload patterns"),
            st("c06.flows", c06::flows, (0, 0), 3, "all programs of depth <=2 (thorough <=3, checkpoint after every op) over the 18-op blob/image alphabet x 7 flows: projection added before the visual reference, an additional finalize() after the first op, a finalize_customized_xml with failing transformer in front of the real finalize, and their combinations; every payload must be listed and lead to its own data"),
            st("c06.behind", c06::behind, (0, 0), 3, "a blob and an image with masks (one empty) behind 100 KiB .. 4 MiB of other content x {nothing, a blob, a cloud} behind them"),
            st("c06.foreign", c06::foreign, (0, 0), 3, "3 documents x every child position of every image representation x foreign jpegImage / pngImage / imageMask elements (blob typed; inside a foreign wrapper): descriptors and data unchanged"),
            st("c06.many", c06::many, (0, 0), 3, "255 / 256 / 257 / 300 images in one file (kinds rotating, mask on every third, unique payloads): every descriptor leads to its own data"),
            st("c06.tamper", c06::tamper, (0, 0), 3, "crafted descriptors (length -1,+1,+3,+4,+16,+17,+5000,2^63,2^64-1) x section-length patches x 51 residues x 7 lengths"),
        ],
        extra: None,
        rule: "every (length, start residue) pair of the product and every program of the neighbour space is written by the real writer and read by the real reader; distinct = distinct file bytes; non-trivial = at least one non-empty payload compared byte by byte",
        assumptions: &[
            "tampering clause in its weakest sound form: any descriptor yields Err or exactly `length` bytes equal to the logical bytes after the 16-byte header",
        ],
        ignore_resource_deaths: false,
        budget_s: (120, 900),
    },
    Check {
        id: "C07",
        level: "model_checking",
        stages: vec![
            st("c07.f1", c07::f1, (0, 0), 3, "6 files (2-9 pages, one with the XML starting exactly at a page boundary, one with runs of identical pages) x every single-bit flip of every byte of every page x [validate_crc, raw_xml, open, every read op forwards and backwards on one reader]"),
            st("c07.f2", c07::f2, (0, 0), 3, "6 files x every page x {payload byte, checksum byte, last payload byte} damaged x all read-op histories of depth 3 (thorough 4) on one reader"),
            st("c07.poll", c07::poll, (0, 0), 3, "2 packet geometries (17 / 300 points per packet) x cloud shifted through all 255 aligned page residues x every page of the cloud damaged (payload bit, checksum bit) x {raw, simple} iterator polled 3n+8 times past its errors: every delivered item equals the same-index item of the unaltered file"),
            st("c07.big", c07::big, (0, 0), 3, "files of 255, 256, 257, 300, 513, 770 pages x every page damaged in turn, files of 2049, 4100, 8200 pages x the first and last 32 pages and every 32nd group of 16 pages (one payload bit, one checksum bit): validate_crc must fail, and must pass on the unaltered file"),
            Stage { hw_compare: true, ..st("c07.pagesize", c07::pagesize, (0, 0), 3, "every page size 64..=4200 and 8191, 8192, 8193, 65535, 65536, 65537, 2^20 (validate_crc / raw_xml take it from the header): 3-page images sealed with the independent CRC; unaltered image validates and yields its XML, 21 single-byte damages per image are all rejected; both CRC backends") },
            Stage { hw_compare: true, ..st("c07.f6", c07::f6, (0, 0), 3, "backend comparison: all writer programs of depth <=2 (file bytes) and damaged-file verdict vectors, executed with the built-in CRC and with the crc32c feature; per-case observations must be identical") },
        ],
        extra: Some(c07::extra),
        rule: "F1/F2: full products executed on the real reader, every outcome must be Err or equal to the pristine outcome, validate_crc must fail for every flip; F3: all 1-bit and 2-bit flips of a page through the real PagedReader; F4: 3-bit and burst clauses decided on a syndrome table measured with the crate's CRC whose affinity is verified on every executed pair; F6: identical observations in both builds; distinct = distinct verdict vectors",
        assumptions: &[
            "files are small enough that the operation list reads every page",
            "3-bit and <=32-bit-burst clauses rest on the affinity of CRC (verified on all executed 2-bit flips of one page), not on executing all 9.2e10 triples",
        ],
        ignore_resource_deaths: false,
        budget_s: (120, 1200),
    },
    Check {
        id: "C08",
        level: "model_checking",
        stages: vec![Stage { timeout_s: 120, ..st("c08.sweep", c08::sweep_nopanic, (0, 0), 3, "33 seeds (e57spec scenes, writer files, 14 bundled files) x the complete single-mutation menu (header fields, XML numeric/type slots, element delete/duplicate/move, prototype conspiracies, section and packet fields, payload flips, truncation/extension, unsealed flips); thorough: pairs with a second numeric mutation and all 64 option vectors; every read entry point per mutant") }, Stage { timeout_s: 1800, ..st("c08.pagecount", c08::pagecount, (0, 0), 3, "validate_crc over formula devices of 2^k+3 valid 52-byte pages, k in {8, 15, 16, 24} (thorough: and 31, i.e. 111 GB that exist only as a formula): the call returns, no counter overflows") }],
        extra: None,
        rule: "mutation neighbourhood enumerated completely: every item of the finite, ordered menu of every seed; each mutant runs validate_crc, raw_xml, new, descriptor listing, raw and simple iteration (8 / 64 option vectors, to the first Err/None or the step cap) and blob extraction under catch_unwind in a subprocess; overflow checks and debug assertions on; distinct = distinct mutant bytes; non-trivial = mutant ran through all entry points",
        assumptions: &["'all byte strings' is covered as the <=1 (thorough <=2) mutation neighbourhood of the seed corpus under a fixed menu", "memory exhaustion and hangs are attributed to C09"],
        ignore_resource_deaths: true,
        budget_s: (120, 2400),
    },
    Check {
        id: "C09",
        level: "model_checking",
        stages: vec![Stage { timeout_s: 120, ..st("c09.sweep", c08::sweep_budget, (0, 0), 3, "the C08 sweep with per-call budgets: bytes allocated and peak live bytes <= 128*L + 8 MiB (open/XML), 64*L + 192 MiB (iterator steps), L + 1 MiB (blob), device bytes requested <= 4*L + 64 KiB (validate_crc 2*L), every single call < 10 s wall, 120 s (thorough 960 s) watchdog per mutant, iterators yield <= recordCount items; live-byte cap 2 GiB per worker") }],
        extra: None,
        rule: "same enumeration as C08; a counting global allocator and a counting device measure every single call (open, each next(), each blob); a worker that exceeds the live-byte cap exits with a distinguished status and the case is reported; distinct = distinct mutant bytes; non-trivial = all calls within budget",
        assumptions: &["budgets are per kind of call; the iterator constant covers the legitimate worst case of one 64 KiB packet of 1-bit values (2^19 values held twice)", "watchdog is a timeout, not a termination proof"],
        ignore_resource_deaths: false,
        budget_s: (120, 1500),
    },
    Check {
        id: "C10",
        level: "model_checking",
        stages: vec![
            st("c10.protos_short", c10::protos_short, (0, 0), 3, "all prototypes of length <=2 over 25 names x 16 types"),
            st("c10.protos_base", c10::protos_base, (0, 0), 3, "valid base (XYZ f32 | spherical f64) + <=2 extra records over 25 names x 16 types"),
            st("c10.protos_mutated", c10::protos_mutated, (0, 0), 3, "catalogue prototypes with one record deleted / duplicated / retyped"),
            st("c10.protos_groups", c10::protos_groups, (0, 0), 3, "all name sequences of length 1..4 over the 9 coordinate/colour component names (every combination of missing and repeated group members)"),
            st("c10.names", c10::names, (0, 0), 3, "30 candidate names (the reserved word xml in every case, its prefixes and extensions, every character class first / later / last, empty, non-ASCII) x {namespace prefix, attribute name} x {as is, 300 characters longer}: refused exactly when the documented name rule says so, accepted names read back"),
            Stage { timeout_s: 120, ..st("c10.protos_wide", c10::protos_wide, (0, 0), 3, "XYZ + k extension records (64-bit / 1-bit / zero-width) for every k in 5880..5930, 20790..20830, 21650..21700, 60..64 x {1,3} points: every call returns, success implies read-back") },
            st("c10.strings", c10::strings, (0, 0), 3, "12 strings with characters XML cannot carry (NUL, C0 controls, U+FFFE/FFFF) or with carriage returns x every string field (rotation over 40 fields) x 2 image kinds: refused by some call, or stored faithfully"),
            st("c10.image_calls", c10::image_calls, (0, 0), 3, "all sequences of <=3 representation calls (4 kinds x with/without mask) on one ImageWriter: accepted exactly when the visual / projection slot is empty; the image reads back with the accepted representations"),
            st("c10.values", c10::values, (0, 0), 3, "unstorable value (9 kinds) at every position 0..8 of a 9-point cloud x 8 integer types x 2 record slots"),
            st("c10.orders", c10::orders, (0, 0), 3, "all sequences of depth <=4 (quick) / <=5 (thorough) over 15 API sessions incl. misuse x 3 finalize modes"),
        ],
        extra: None,
        rule: "every prototype / value / call-order case of the stated products is executed on the real writer under catch_unwind; expected verdicts come from a plain predicate of the documented rules; non-trivial = all calls succeeded and the file was read back and compared",
        assumptions: &[
            "T2 demands rejection only for the classes the statement lists (arity, type, integer range, documented prototype rules incl. max<min, extension names)",
            "prototype shapes the documentation does not forbid (duplicate names) are judged by no-panic and read-back only",
            "API misuse outside the listed classes (add_point after finalize, second finalize) is judged by no-panic and by read-back of whatever finalize reported as success",
        ],
        ignore_resource_deaths: false,
        budget_s: (120, 900),
    },
    Check {
        id: "C11",
        level: "model_checking",
        stages: vec![st("c11.bulk", c11::bulk, (0, 0), 3, "large transfers outside the BFS bound: one write call of k pages -1/0/+1 byte, k in {1,2,3,8,16,31,32,33,34,64,65,100}, behind a prefix of 0/1/1019/1020/1021 bytes, then flush / patch of the first 48 bytes and append / the same write again / align; device delivering in full or in halves; image, position and size against the logical stream after every step")],
        extra: Some(c11::extra),
        rule: "explicit-state BFS: a state is the op history; canonical state = (device bytes, device cursor, page offset, page buffer, generation) read through the verification hooks - every field PagedWriter has, so merging equal states is exact; invariants I1-I5 evaluated on every transition and on the image left by flush (even ops) or drop (odd ops); read side: every op sequence to the depth bound on every distinct image; distinct_nontrivial = distinct canonical states",
        assumptions: &[
            "logical length capped at 4 pages; 10 write sizes and 12 seek targets chosen around page boundaries",
            "reader seeks beyond the end or into checksum bytes are not specified by the statement and not judged",
        ],
        ignore_resource_deaths: false,
        budget_s: (120, 900),
    },
    Check {
        id: "C12",
        level: "model_checking",
        stages: vec![
            st("c12.g1", c12::g1, (0, 0), 3, "writer direction: widths 0..64 x 3 range shapes x 4 anchors (0, -3, i64::MIN, i64::MAX) x hooked capacity 1..16 x Integer/ScaledInteger; boundary + walking-bit values; stream bytes vs independent bit codec, then read back with the real reader"),
            st("c12.g2", c12::g2, (1, 2), 3, "reader direction: widths 0..64 x 4 anchors x Integer/ScaledInteger, e57spec-encoded streams in 2 (thorough 3) packets, every byte cut of every record stream (thorough: all pairs), default limits optionally left out (one-sided declarations)"),
            st("c12.g5", c12::g5, (0, 0), 3, "prototypes whose four records all have zero width, every Integer / ScaledInteger combination x {1, 3, 100} points x {real writer, independent encoder}"),
            st("c12.g6", c12::g6, (0, 0), 3, "only narrow records: 7x7x3 widths below a byte for X, Y, Z (Integer / ScaledInteger) with no, a 1-bit or a zero-width fourth record x 0..17 points x capacity {natural, 1, 3}: no stream fills a byte per point, flushes find no complete byte; streams vs independent codec, validator, read-back"),
            st("c12.g3", c12::g3, (0, 0), 3, "natural packet capacity: for every width one file of capacity+9 points (w-bit + 1-bit + 0-bit records)"),
            st("c12.g4", c12::g4, (0, 0), 3, "direct drive (hook): w<=12, every value of the width at every position of a 9-value stream, get_full_bytes after every index, reader append split at every byte"),
            st("c12.g4b", c12::g4b, (0, 0), 3, "direct drive (hook): w<=5, every 3-value sequence after 0..7 leading values, flushed after every value"),
        ],
        extra: None,
        rule: "full products; writer output compared bit by bit with e57spec::bits (value - min, LSB first, contiguous), total stream length exactly ceil(N*w/8); reader fed with independently encoded streams under every cut; evaluations count inner (value, flush/split) combinations; distinct = distinct file / stream",
        assumptions: &["only same-width streams are driven through the buffers, i.e. exactly the phases the library can produce", "values inside the declared range only (out-of-range belongs to C10)"],
        ignore_resource_deaths: false,
        budget_s: (120, 2400),
    },
    Check {
        id: "C13",
        level: "model_checking",
        stages: vec![st(
            "c13.normalise",
            c13::normalise,
            (0, 0),
            3,
            "22 attribute types x 23 limit shapes x {intensity, red, green, blue} x {next colour channel's limits complete / without maximum / absent} x normalisation on/off; per case every stored value of the range (<=4097; thorough: <=65537, else 5000 grid points) or boundaries + mini-float lattice (thorough: + the 65536 floats whose low 16 bits are zero)",
        ),
            st("c13.late_switch", c13::late_switch, (0, 0), 3, "4 types (thorough: all 22) x 4 attributes x {on->off, off->on} x switch after 1 / 4 points (thorough: after every count 0..40 in front of the third packet) on a 3-packet cloud: the values of the third packet equal those of an iterator configured that way up front"),
        ],
        extra: None,
        rule: "full product; each case is an e57spec-encoded cloud holding the whole stored-value list, read by the real simple iterator with normalisation on and off; invariants (in [0,1], not NaN, monotone) on every value, equality with clamp((v-lo)/(hi-lo)) within 2.4e-7; non-trivial = both switch settings judged",
        assumptions: &[
            "ambiguous limits (variant differing between min and max, ScaledInteger limits) accept either the limit range, the type range or the scaled limit range, the same for all values of a cloud",
            "limits that are not a range (lo > hi, NaN) only require the invariants (in [0,1], not NaN, monotone)",
        ],
        ignore_resource_deaths: false,
        budget_s: (120, 900),
    },
    Check {
        id: "C15",
        level: "fault_enumeration",
        stages: vec![
            st("c15.crash", c15::crash, (0, 0), 3, "12 hand-listed shapes + all programs of depth <=2 (thorough <=3) over the 30-op alphabet x every prefix of the device write log x every byte cut of the cut write"),
            st("c15.stale_device", c15::stale_device, (0, 0), 3, "device holding an older complete file (14 shapes) x handle at start / end x crash after E57Writer::new, add_pointcloud, 3 points: the writer refuses to start, or what is on the device before its finalize is rejected"),
            st("c15.dropped", c15::dropped, (0, 0), 3, "the same programs with the writers dropped without top-level finalize after every API position (optionally abandoning the last point cloud writer)"),
        ],
        extra: None,
        rule: "crash image(k,c) = device writes 0..k applied completely + first c bytes of write k; every (k,c) of every program is built and offered to the real reader; accepted images must stem from inside finalize, list the completed file's content and answer every read op with Err or the completed file's result; evaluations = crash images; distinct = distinct image bytes per case; non-trivial = case with at least one image judged",
        assumptions: &["writes reach the device in issue order; a torn write leaves a prefix of the new bytes followed by the old bytes (as the statement says)"],
        ignore_resource_deaths: false,
        budget_s: (120, 900),
    },
    Check {
        id: "C16",
        level: "fault_enumeration",
        stages: vec![
            st("c16.writer_faults", c16::writer_faults, (0, 0), 3, "12 hand-listed shapes + 10 image programs (5 representation kinds x with/without mask) + all programs of depth <=2 (thorough <=3): in the fault-free run every device write is covered by a flush when finalize returns; one injected device error at every device-operation index (read/write/seek/flush)"),
            st("c16.writer_chunks", c16::writer_chunks, (1, 2), 3, "the same programs: every chunking schedule with <=1 (thorough <=2) short transfers {1 byte, half, len-1} of device and blob-source transfers + 3 uniform schedules"),
            st("c16.reader_faults", c16::reader_faults, (0, 0), 3, "4 files x reader program (validate_crc, raw_xml, open, every read op): one injected device error at every device-operation index"),
            st("c16.reader_chunks", c16::reader_chunks, (1, 2), 3, "4 files x reader program under every schedule with <=1 (thorough <=2) short reads + 3 uniform schedules"),
        ],
        extra: None,
        rule: "faults: the fault-free run numbers the device operations, then one run per index with exactly that operation failing; the call in progress must return Err, finalize Ok implies the fault-free bytes; chunking: deviation-bounded DFS over the short-transfer choice at every transfer, bytes / results must equal the full-transfer run; distinct = distinct (bytes | failing step); non-trivial = fault fired / at least one short transfer",
        assumptions: &["a short transfer never returns 0 bytes for a non-empty request (that would be EOF / WriteZero, i.e. a fault)", "faults that fire while the writer is dropped are exempt from the 'call returns Err' clause"],
        ignore_resource_deaths: false,
        budget_s: (120, 2400),
    },
    Check {
        id: "C17",
        level: "model_checking",
        stages: vec![
            st("c17.histories", c17::histories, (0, 0), 3, "8 file variants (intact; payload / blob / checksum damage; destroyed section id and packet header; illegal invalid-state value in the middle of a cloud; two clouds sharing one GUID) x all read-op histories of depth 3 (thorough 4) on one reader"),
            st("c17.faults", c17::faults, (0, 0), 3, "2 file variants x warm-up op x faulted op x one-shot device error at every device operation of the faulted op x every following op on the healthy device"),
            Stage { timeout_s: 120, ..st("c17.far", c17::far, (0, 0), 3, "306-page file (cloud of 26000 points, image blob, second cloud) x 17 damaged-page choices (12 pages behind the big cloud, 4 inside it, none) x all ordered pairs of read operations on one reader vs fresh-reader results") },
            st("c17.pairs", c17::pairs, (0, 0), 3, "page reader on a 300-page image x every damaged page q (payload / checksum bit) x every other page a: read a, read q (must fail), read a, on one reader"),
        ],
        extra: Some(c17::extra),
        rule: "every result on a reader with history must equal the memoised result of the same operation on a freshly opened reader over the same bytes (Ok payload hashes exact, Err by class and message); BFS: canonical state = (cached page number, page buffer) through the verification hook, expanded to a fixpoint, every op evaluated in every reachable cache state; distinct_nontrivial = distinct cache states / histories",
        assumptions: &["the canonical-state abstraction is only used to prune the BFS; every kept state is still checked against the fresh-reader oracle", "alphabet: raw/simple iterators with take 0, 1, all per cloud; every image blob and mask; a bogus blob descriptor; xml; pointclouds; images"],
        ignore_resource_deaths: false,
        budget_s: (120, 900),
    },
    Check {
        id: "C18",
        level: "model_checking",
        stages: vec![
            st("c18.elements", c18::elements, (0, 0), 3, "6 base documents (3 writer, 3 e57spec; thorough: + every scene of the catalogue) x every insertion position inside every Structure/Vector/CompressedVector element outside prototypes x 88 local names (every name the reader searches for + an unknown one) x 4 foreign element shapes"),
            st("c18.attributes", c18::attributes, (0, 0), 3, "6 base documents x every standard element x 6 foreign attributes (vx:type, vx:fileOffset, vx:recordCount, vx:length, vx:minimum, vx:precision)"),
            st("c18.proto_extensions", c18::proto_extensions, (0, 0), 3, "extension attribute named like 6 standard attributes and 6 other accepted names x 5 namespace prefixes x every position in the prototype x optional second extension attribute: written by the real writer, read back exactly"),
            st("c18.scoped_ns", c18::scoped_ns, (0, 0), 3, "2 documents x 2 extension prefixes x declaration moved from e57Root to {record element, prototype, points, data3D child}: prototype names, points and metadata reported as before"),
            st("c18.depth", c18::depth, (0, 0), 3, "2 documents x {below e57Root, inside a data3D child} x foreign elements nested to a maximum depth of 100 / 200 / 254 / 255 / 256 tags (256 is the documented limit): report unchanged"),
            st("c18.pairs", c18::pairs, (0, 0), 2, "two foreign elements at once: 6 documents x every ordered pair of insertion positions (the first named like the element that follows it, the second a nested box with a rotating name)"),
        ],
        extra: None,
        rule: "full products; the inserted content is always in a namespace different from the E57 namespace (prefix declared on the inserted element) and well-formed (checked with the independent parser); oracle = the report on the unmodified base document (root fields, every descriptor, points and blobs); evaluations = (position, name, shape) triples",
        assumptions: &["foreign child elements are only inserted into container elements (type Structure/Vector/CompressedVector), never into scalar elements and never inside a prototype", "children of an inserted foreign element are prefixed too, i.e. really foreign"],
        ignore_resource_deaths: false,
        budget_s: (120, 900),
    },
    Check {
        id: "C19",
        level: "model_checking",
        stages: vec![
            st("c19.layouts", c19::layouts, (2, 3), 3, "11 scenes encoded by e57spec under every layout with <=2 (thorough <=3) deviations: copy, compare as read, copy the copy (byte-identical), write twice (byte-identical)"),
            st("c19.programs", c19::programs, (0, 0), 3, "outputs of all writer programs of depth <=2 (thorough <=3) and 1905 metadata-rich files (every catalogue string in every string field, 5 image kinds rotating)"),
            Stage { timeout_s: 120, ..st("c19.payloads", c19::payloads, (0, 0), 3, "independently encoded files: 42 poses for cloud and images x image / mask payloads of 12 long lengths (1019 .. 1 MiB, around the page size and powers of two): copy, compare, copy the copy") },
            st("c19.align", c19::align, (0, 0), 3, "first cloud of 0..344 byte-sized points moves the second cloud's section of the copy through all 255 aligned residues of the page payload"),
            Stage { timeout_s: 120, ..st("c19.bulk", c19::bulk, (0, 0), 3, "4 bit-packed prototypes (12/12/12/2, 10/10/10/8, 7/7/7, 21/21/21/3 bits) x 5 natural packet capacities + 3 points, source encoded independently: copy, compare, copy the copy") },
            st("c19.bundled", c19::bundled, (0, 0), 3, "every bundled /repo/testdata/*.e57 that opens and whose prototypes follow the writer's documented rules"),
            Stage { twice: true, ..st("c19.determinism", c19::determinism, (0, 0), 3, "all writer programs of depth <=2 executed in two separate sets of worker processes: per-case file bytes must be identical") },
        ],
        extra: None,
        rule: "differential oracle: read(copy(F)) vs read(F) through the real reader (descriptors except file offsets and writer-computed bounds, raw points, blob bytes; limits when complete), byte equality of copy(copy(F)) and of repeated writes; the copier is the obvious public-API loop; files outside the writer's documented prototype rules or without GUIDs are filtered by rule, not by trying; distinct = distinct copies",
        assumptions: &["bounds are recomputed by the writer and therefore not compared with foreign originals", "partial limits are dropped by design of the writer (documented in the changelog)"],
        ignore_resource_deaths: false,
        budget_s: (120, 900),
    },
    Check {
        id: "C20",
        level: "model_checking",
        stages: vec![
            Stage { timeout_s: 120, ..st("c20.t1_lattice", c20::t1_lattice, (0, 0), 3, "XYZ -> E57 -> XYZ through the built binaries: every finite f32 of the mini-float lattice + specials in 3 spellings (shortest, exponent, plain decimal) x 3 column rotations, all 256 colour values per channel") },
            Stage { timeout_s: 120, ..st("c20.t1_shapes", c20::t1_shapes, (2, 2), 3, "line counts {5, 0, 1, cap-1, cap, cap+1} x <=2 deviations over CRLF, missing final newline and 7 line shapes (7+ columns, 5 columns, empty, trailing/leading space, comment)") },
            st("c20.t2_check_crc", c20::t2_check_crc, (1, 1), 3, "e57-check-crc on 6 files + 11 scenes (<=1 layout deviation): intact, every page damaged in payload, in checksum, truncated by a page, by a byte; exit status vs library and independent page check; signature and header bytes 0, 7, 20, 44 damaged"),
            st("c20.t2_check_crc_dir", c20::t2_check_crc_dir, (0, 0), 3, "directory mode of e57-check-crc: 3 E57 files (one in a sub directory, upper-case extension) + a non-E57 file, none or exactly one damaged (payload / checksum), 3 file sets"),
            st("c20.t3_unpack", c20::t3_unpack, (1, 1), 3, "e57-extract-xml and e57-unpack on the same corpus, intact and with every single page damaged: output files vs raw_xml / xml() / raw values / blob bytes from the library"),
        ],
        extra: None,
        rule: "the five tool binaries are built from /repo's workspace and run as subprocesses on files in a private work directory; T1 numeric comparison of parsed output with the f32 values / colour integers written (-0 == 0), T2 exit status, T3 byte equality with library results; evaluations = lines / files compared",
        assumptions: &["T1 judges single-space separated clean tokens (what the tool documents) and finite coordinates", "a tool may fail where the library fails; it must not succeed with other data"],
        ignore_resource_deaths: false,
        budget_s: (120, 900),
    },
    Check {
        id: "C14",
        level: "model_checking",
        stages: vec![st(
            "c14.bounds",
            c14::bounds,
            (2, 3),
            3,
            "48 attribute-group subsets x 4 sequence kinds; <=2 (quick) / <=3 (thorough) deviations over types, value sets, limit overrides, per-attribute value orders (all 6 orders of 3 distinct values) hooked packet capacity {natural, 1, 2, 3} and one refused add_point call (new extremes in every attribute, wrong type in the last value) before / amid / after the accepted points, default limits cleared explicitly before a possible override",
        )],
        extra: None,
        rule: "deviation-bounded DFS: all cases with at most d non-default choices; bounds compared numerically with an independent fold over the harness's point list; non-trivial = cloud with points",
        assumptions: &["NaN coordinates are excluded (min/max over NaN is not defined by the statement)", "partial limit overrides are not judged"],
        ignore_resource_deaths: false,
        budget_s: (120, 900),
    }]
}
