//! Registry of checks (one per property) and their exploration stages.

use explore::json::J;
use explore::{CaseFn, ViolationRec};
use std::time::Instant;

pub struct Stage {
    pub space: &'static str,
    pub f: CaseFn,
    /// deviation bound (quick, thorough)
    pub bound: (u32, u32),
    /// 1 = quick only, 2 = thorough only, 3 = both
    pub tiers: u8,
    /// per-case watchdog
    pub timeout_s: u64,
    pub what: &'static str,
}

/// Result of an in-process engine stage (E2 explicit-state BFS, E4 syndrome table).
pub struct ExtraResult {
    pub states: u64,
    pub transitions: u64,
    pub traces: u64,
    pub exhaustive: bool,
    pub note: String,
    pub violations: Vec<ViolationRec>,
    pub machinery_errors: Vec<String>,
    pub samples: Vec<J>,
    pub json: J,
}

pub type ExtraFn = fn(thorough: bool, seed: u64, deadline: Instant) -> ExtraResult;

pub struct Check {
    pub id: &'static str,
    pub level: &'static str,
    pub stages: Vec<Stage>,
    pub extra: Option<ExtraFn>,
    pub rule: &'static str,
    pub assumptions: &'static [&'static str],
    /// wall-clock budget in seconds (quick, thorough)
    pub budget_s: (u64, u64),
}

fn st(space: &'static str, f: CaseFn, bound: (u32, u32), tiers: u8, what: &'static str) -> Stage {
    Stage { space, f, bound, tiers, timeout_s: 20, what }
}

pub fn checks() -> Vec<Check> {
    use crate::*;
    vec![Check {
        id: "C01",
        level: "model_checking",
        stages: vec![
            st("c01.s1", c01::s1, (0, 0), 3, "pad blob at all 255 aligned residues x 6 prototypes x npoints {0,1,3}"),
            st("c01.s2", c01::s2, (0, 0), 3, "all writer programs of depth <=3 (quick) / <=4 (thorough) over the 30-op alphabet"),
            st("c01.s3", c01::s3, (0, 0), 3, "8 prototypes x point counts around 1x/2x/3x the natural packet capacity"),
            st("c01.s4", c01::s4, (0, 0), 3, "hooked packet capacity 1..9 x npoints 0..3c+1 x every catalogue type"),
            st("c01.s5", c01::s5, (0, 0), 2, "two hooked-capacity clouds around a pad blob at all 255 residues x prototype pairs"),
        ],
        extra: None,
        rule: "every case of the stated finite product is executed once on the real writer and read back with the real raw reader; a case is non-trivial when at least one point was stored; distinct = distinct hash of the produced file bytes",
        assumptions: &[
            "only prototypes satisfying the documented validate_* rules and in-range, correctly typed values are generated (rejected inputs belong to C10)",
            "values come from finite catalogues (boundaries, walking bits, float specials), not all 2^64 payloads",
        ],
        budget_s: (45, 900),
    }]
}
