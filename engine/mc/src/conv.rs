//! Conversions between the e57 crate's public types and the plain model of `e57spec`.

use e57::*;
use e57spec::model as m;

pub fn ty_to_e57(t: &m::Ty) -> RecordDataType {
    match t {
        m::Ty::F32 { min, max } => RecordDataType::Single { min: *min, max: *max },
        m::Ty::F64 { min, max } => RecordDataType::Double { min: *min, max: *max },
        m::Ty::Int { min, max } => RecordDataType::Integer { min: *min, max: *max },
        m::Ty::Scaled { min, max, scale, offset } => {
            RecordDataType::ScaledInteger { min: *min, max: *max, scale: *scale, offset: *offset }
        }
    }
}

pub fn ty_from_e57(t: &RecordDataType) -> m::Ty {
    match t {
        RecordDataType::Single { min, max } => m::Ty::F32 { min: *min, max: *max },
        RecordDataType::Double { min, max } => m::Ty::F64 { min: *min, max: *max },
        RecordDataType::Integer { min, max } => m::Ty::Int { min: *min, max: *max },
        RecordDataType::ScaledInteger { min, max, scale, offset } => {
            m::Ty::Scaled { min: *min, max: *max, scale: *scale, offset: *offset }
        }
    }
}

pub fn val_to_e57(v: &m::Val) -> RecordValue {
    match v {
        m::Val::F32(x) => RecordValue::Single(*x),
        m::Val::F64(x) => RecordValue::Double(*x),
        m::Val::Int(x) => RecordValue::Integer(*x),
        m::Val::Scaled(x) => RecordValue::ScaledInteger(*x),
    }
}

pub fn val_from_e57(v: &RecordValue) -> m::Val {
    match v {
        RecordValue::Single(x) => m::Val::F32(*x),
        RecordValue::Double(x) => m::Val::F64(*x),
        RecordValue::Integer(x) => m::Val::Int(*x),
        RecordValue::ScaledInteger(x) => m::Val::Scaled(*x),
    }
}

pub const STD_NAMES: [&str; 20] = [
    "cartesianX",
    "cartesianY",
    "cartesianZ",
    "cartesianInvalidState",
    "sphericalRange",
    "sphericalAzimuth",
    "sphericalElevation",
    "sphericalInvalidState",
    "intensity",
    "isIntensityInvalid",
    "colorRed",
    "colorGreen",
    "colorBlue",
    "isColorInvalid",
    "rowIndex",
    "columnIndex",
    "returnCount",
    "returnIndex",
    "timeStamp",
    "isTimeStampInvalid",
];

pub fn name_to_e57(ns: &Option<String>, name: &str) -> RecordName {
    if let Some(ns) = ns {
        return RecordName::Unknown { namespace: ns.clone(), name: name.to_string() };
    }
    match name {
        "cartesianX" => RecordName::CartesianX,
        "cartesianY" => RecordName::CartesianY,
        "cartesianZ" => RecordName::CartesianZ,
        "cartesianInvalidState" => RecordName::CartesianInvalidState,
        "sphericalRange" => RecordName::SphericalRange,
        "sphericalAzimuth" => RecordName::SphericalAzimuth,
        "sphericalElevation" => RecordName::SphericalElevation,
        "sphericalInvalidState" => RecordName::SphericalInvalidState,
        "intensity" => RecordName::Intensity,
        "isIntensityInvalid" => RecordName::IsIntensityInvalid,
        "colorRed" => RecordName::ColorRed,
        "colorGreen" => RecordName::ColorGreen,
        "colorBlue" => RecordName::ColorBlue,
        "isColorInvalid" => RecordName::IsColorInvalid,
        "rowIndex" => RecordName::RowIndex,
        "columnIndex" => RecordName::ColumnIndex,
        "returnCount" => RecordName::ReturnCount,
        "returnIndex" => RecordName::ReturnIndex,
        "timeStamp" => RecordName::TimeStamp,
        "isTimeStampInvalid" => RecordName::IsTimeStampInvalid,
        other => RecordName::Unknown { namespace: String::new(), name: other.to_string() },
    }
}

pub fn name_from_e57(n: &RecordName) -> (Option<String>, String) {
    let s = match n {
        RecordName::CartesianX => "cartesianX",
        RecordName::CartesianY => "cartesianY",
        RecordName::CartesianZ => "cartesianZ",
        RecordName::CartesianInvalidState => "cartesianInvalidState",
        RecordName::SphericalRange => "sphericalRange",
        RecordName::SphericalAzimuth => "sphericalAzimuth",
        RecordName::SphericalElevation => "sphericalElevation",
        RecordName::SphericalInvalidState => "sphericalInvalidState",
        RecordName::Intensity => "intensity",
        RecordName::IsIntensityInvalid => "isIntensityInvalid",
        RecordName::ColorRed => "colorRed",
        RecordName::ColorGreen => "colorGreen",
        RecordName::ColorBlue => "colorBlue",
        RecordName::IsColorInvalid => "isColorInvalid",
        RecordName::RowIndex => "rowIndex",
        RecordName::ColumnIndex => "columnIndex",
        RecordName::ReturnCount => "returnCount",
        RecordName::ReturnIndex => "returnIndex",
        RecordName::TimeStamp => "timeStamp",
        RecordName::IsTimeStampInvalid => "isTimeStampInvalid",
        RecordName::Unknown { namespace, name } => return (Some(namespace.clone()), name.clone()),
    };
    (None, s.to_string())
}

pub fn rec_to_e57(r: &m::Rec) -> Record {
    Record { name: name_to_e57(&r.ns, &r.name), data_type: ty_to_e57(&r.ty) }
}
pub fn rec_from_e57(r: &Record) -> m::Rec {
    let (ns, name) = name_from_e57(&r.name);
    m::Rec { ns, name, ty: ty_from_e57(&r.data_type) }
}

pub fn dt_to_e57(d: &m::DateTime) -> DateTime {
    DateTime { gps_time: d.gps, atomic_reference: d.atomic }
}
pub fn dt_from_e57(d: &DateTime) -> m::DateTime {
    m::DateTime { gps: d.gps_time, atomic: d.atomic_reference }
}
pub fn pose_to_e57(p: &m::Pose) -> Transform {
    Transform {
        rotation: Quaternion { w: p.rot[0], x: p.rot[1], y: p.rot[2], z: p.rot[3] },
        translation: Translation { x: p.trans[0], y: p.trans[1], z: p.trans[2] },
    }
}
pub fn pose_from_e57(t: &Transform) -> m::Pose {
    m::Pose {
        rot: [t.rotation.w, t.rotation.x, t.rotation.y, t.rotation.z],
        trans: [t.translation.x, t.translation.y, t.translation.z],
    }
}
pub fn lval_to_e57(v: &m::LVal) -> RecordValue {
    match v {
        m::LVal::Int(x) => RecordValue::Integer(*x),
        m::LVal::Scaled(x) => RecordValue::ScaledInteger(*x),
        m::LVal::F32(x) => RecordValue::Single(*x),
        m::LVal::F64(x) => RecordValue::Double(*x),
    }
}
pub fn lval_from_e57(v: &RecordValue) -> m::LVal {
    match v {
        RecordValue::Integer(x) => m::LVal::Int(*x),
        RecordValue::ScaledInteger(x) => m::LVal::Scaled(*x),
        RecordValue::Single(x) => m::LVal::F32(*x),
        RecordValue::Double(x) => m::LVal::F64(*x),
    }
}

pub fn cloud_meta_from_e57(pc: &PointCloud) -> m::CloudMeta {
    m::CloudMeta {
        guid: pc.guid.clone(),
        name: pc.name.clone(),
        description: pc.description.clone(),
        original_guids: pc.original_guids.clone(),
        sensor_vendor: pc.sensor_vendor.clone(),
        sensor_model: pc.sensor_model.clone(),
        sensor_serial: pc.sensor_serial.clone(),
        sensor_hw: pc.sensor_hw_version.clone(),
        sensor_sw: pc.sensor_sw_version.clone(),
        sensor_fw: pc.sensor_fw_version.clone(),
        temperature: pc.temperature,
        humidity: pc.humidity,
        pressure: pc.atmospheric_pressure,
        pose: pc.transform.as_ref().map(pose_from_e57),
        acq_start: pc.acquisition_start.as_ref().map(dt_from_e57),
        acq_end: pc.acquisition_end.as_ref().map(dt_from_e57),
        cartesian_bounds: pc.cartesian_bounds.as_ref().map(|b| [b.x_min, b.x_max, b.y_min, b.y_max, b.z_min, b.z_max]),
        spherical_bounds: pc
            .spherical_bounds
            .as_ref()
            .map(|b| [b.range_min, b.range_max, b.elevation_min, b.elevation_max, b.azimuth_start, b.azimuth_end]),
        index_bounds: pc
            .index_bounds
            .as_ref()
            .map(|b| [b.row_min, b.row_max, b.column_min, b.column_max, b.return_min, b.return_max]),
        color_limits: pc.color_limits.as_ref().map(|l| {
            [
                l.red_min.as_ref().map(lval_from_e57),
                l.red_max.as_ref().map(lval_from_e57),
                l.green_min.as_ref().map(lval_from_e57),
                l.green_max.as_ref().map(lval_from_e57),
                l.blue_min.as_ref().map(lval_from_e57),
                l.blue_max.as_ref().map(lval_from_e57),
            ]
        }),
        intensity_limits: pc
            .intensity_limits
            .as_ref()
            .map(|l| [l.intensity_min.as_ref().map(lval_from_e57), l.intensity_max.as_ref().map(lval_from_e57)]),
    }
}

pub fn color_limits_to_e57(l: &[Option<m::LVal>; 6]) -> ColorLimits {
    ColorLimits {
        red_min: l[0].as_ref().map(lval_to_e57),
        red_max: l[1].as_ref().map(lval_to_e57),
        green_min: l[2].as_ref().map(lval_to_e57),
        green_max: l[3].as_ref().map(lval_to_e57),
        blue_min: l[4].as_ref().map(lval_to_e57),
        blue_max: l[5].as_ref().map(lval_to_e57),
    }
}
pub fn intensity_limits_to_e57(l: &[Option<m::LVal>; 2]) -> IntensityLimits {
    IntensityLimits { intensity_min: l[0].as_ref().map(lval_to_e57), intensity_max: l[1].as_ref().map(lval_to_e57) }
}

fn fmt_from_e57(f: &ImageFormat) -> m::ImgFormat {
    match f {
        ImageFormat::Png => m::ImgFormat::Png,
        ImageFormat::Jpeg => m::ImgFormat::Jpeg,
    }
}
pub fn fmt_to_e57(f: &m::ImgFormat) -> ImageFormat {
    match f {
        m::ImgFormat::Png => ImageFormat::Png,
        m::ImgFormat::Jpeg => ImageFormat::Jpeg,
    }
}
fn blobref(b: &Blob) -> m::BlobRef {
    m::BlobRef { offset: b.offset, length: b.length, data: Vec::new() }
}

/// image descriptor -> model (blob payloads are left empty; the caller fills them)
pub fn image_from_e57(i: &Image) -> m::Image {
    let visual = i.visual_reference.as_ref().map(|v| m::Rep {
        format: fmt_from_e57(&v.blob.format),
        blob: blobref(&v.blob.data),
        mask: v.mask.as_ref().map(blobref),
        width: v.properties.width as i64,
        height: v.properties.height as i64,
        proj: None,
    });
    let projection = i.projection.as_ref().map(|p| match p {
        Projection::Pinhole(p) => m::Rep {
            format: fmt_from_e57(&p.blob.format),
            blob: blobref(&p.blob.data),
            mask: p.mask.as_ref().map(blobref),
            width: p.properties.width as i64,
            height: p.properties.height as i64,
            proj: Some(m::ProjKind::Pinhole {
                focal: p.properties.focal_length,
                pw: p.properties.pixel_width,
                ph: p.properties.pixel_height,
                ppx: p.properties.principal_x,
                ppy: p.properties.principal_y,
            }),
        },
        Projection::Spherical(p) => m::Rep {
            format: fmt_from_e57(&p.blob.format),
            blob: blobref(&p.blob.data),
            mask: p.mask.as_ref().map(blobref),
            width: p.properties.width as i64,
            height: p.properties.height as i64,
            proj: Some(m::ProjKind::Spherical { pw: p.properties.pixel_width, ph: p.properties.pixel_height }),
        },
        Projection::Cylindrical(p) => m::Rep {
            format: fmt_from_e57(&p.blob.format),
            blob: blobref(&p.blob.data),
            mask: p.mask.as_ref().map(blobref),
            width: p.properties.width as i64,
            height: p.properties.height as i64,
            proj: Some(m::ProjKind::Cylindrical {
                radius: p.properties.radius,
                ppy: p.properties.principal_y,
                pw: p.properties.pixel_width,
                ph: p.properties.pixel_height,
            }),
        },
    });
    m::Image {
        guid: i.guid.clone(),
        visual,
        projection,
        pose: i.transform.as_ref().map(pose_from_e57),
        pc_guid: i.pointcloud_guid.clone(),
        name: i.name.clone(),
        description: i.description.clone(),
        acquisition: i.acquisition.as_ref().map(dt_from_e57),
        sensor_vendor: i.sensor_vendor.clone(),
        sensor_model: i.sensor_model.clone(),
        sensor_serial: i.sensor_serial.clone(),
    }
}
