//! C11 — page layer: the file payload always equals the logical stream written.
//! Explicit-state BFS (E2) over the real `PagedWriter`, and exhaustive op sequences over the real
//! `PagedReader` on every distinct device image reached.

use crate::bfs::{bfs, StepOut};
use crate::dev::{Chunk, Dev};
use crate::harness::guarded;
use crate::registry::ExtraResult;
use e57::verif::{PagedReader, PagedWriter};
use e57spec::crc::crc32c_fast;
use explore::json::J;
use explore::{Fnv, ViolationRec};
use std::io::{Read, Write};
use std::time::Instant;

const WRITES: [usize; 10] = [1, 2, 3, 4, 47, 1016, 1019, 1020, 1021, 2041];
/// seek targets; u64::MAX = current size, u64::MAX-1 = size + 1
const SEEKS: [u64; 12] = [0, 1, 48, 1019, 1020, 1023, 1024, 1025, 2047, 2048, u64::MAX, u64::MAX - 1];
const N_OPS: usize = WRITES.len() + SEEKS.len() + 4;
const MAX_LOGICAL: usize = 4 * 1020;

pub fn op_name(o: u8) -> String {
    let o = o as usize;
    if o < WRITES.len() {
        format!("write({})", WRITES[o])
    } else if o < WRITES.len() + SEEKS.len() {
        match SEEKS[o - WRITES.len()] {
            u64::MAX => "physical_seek(size)".into(),
            x if x == u64::MAX - 1 => "physical_seek(size+1)".into(),
            p => format!("physical_seek({p})"),
        }
    } else {
        ["flush", "align", "physical_position", "physical_size"][o - WRITES.len() - SEEKS.len()].to_string()
    }
}
pub fn history_name(h: &[u8]) -> String {
    h.iter().map(|o| op_name(*o)).collect::<Vec<_>>().join("; ")
}

struct Ref {
    data: Vec<u8>,
    cur: usize,
    gen: u8,
}
fn fill(idx: usize, gen: u8) -> u8 {
    (idx as u32).wrapping_mul(7).wrapping_add(gen as u32 * 61).wrapping_add(13) as u8 | 1
}
fn phys(l: usize) -> u64 {
    (l + 4 * (l / 1020)) as u64
}
fn size_of(len: usize) -> u64 {
    (((len + 1019) / 1020) * 1024) as u64
}

fn check_image(dev: &[u8], r: &Ref) -> Option<String> {
    if dev.len() % 1024 != 0 {
        return Some(format!("I1: device length {} is not a multiple of 1024", dev.len()));
    }
    if dev.len() as u64 != size_of(r.data.len()) {
        return Some(format!("I3: device holds {} bytes, logical stream of {} bytes needs {}", dev.len(), r.data.len(), size_of(r.data.len())));
    }
    for (p, page) in dev.chunks(1024).enumerate() {
        let crc = crc32c_fast(&page[..1020]).to_be_bytes();
        if crc != page[1020..] {
            return Some(format!("I2: page {p} has checksum {:02x?}, CRC-32C of its payload is {crc:02x?}", &page[1020..]));
        }
        for i in 0..1020 {
            let l = p * 1020 + i;
            let want = r.data.get(l).copied().unwrap_or(0);
            if page[i] != want {
                return Some(format!("I3: payload byte at logical offset {l} (page {p}, offset {i}) is {:#04x}, the logical stream has {:#04x}", page[i], want));
            }
        }
    }
    None
}

fn step(h: &[u8]) -> StepOut {
    let r = guarded(|| {
        let full = step_inner(h, Chunk::Full);
        if full.violation.is_some() || full.canon.is_none() {
            return full;
        }
        // the same history on a device that transfers at most half of every request (short reads
        // when a page is loaded back, short writes when it is flushed) must leave the same image
        let half = step_inner(h, Chunk::AlwaysHalf);
        let same = match (&full.artefact, &half.artefact) {
            (Some(a), Some(b)) => a.1 == b.1,
            (None, None) => true,
            _ => false,
        };
        if let Some((sig, d)) = half.violation {
            return StepOut { violation: Some((format!("{sig}/short-transfers"), format!("on a device with short transfers: {d}"))), ..full };
        }
        if !same {
            return StepOut {
                violation: Some(("C11/short-transfers-change-image".into(), format!("device image differs when the device transfers half of every request; history: {}", history_name(h)))),
                ..full
            };
        }
        full
    });
    match r {
        Ok(s) => s,
        Err(pi) => StepOut {
            canon: Some(explore::fnv(h)),
            violation: Some((format!("C11/panic/{}", pi.class()), format!("page writer panicked at {} ({}) after: {}", pi.loc, pi.msg, history_name(h)))),
            artefact: None,
        },
    }
}

fn step_inner(h: &[u8], chunk: Chunk) -> StepOut {
    let dev = Dev::empty();
    dev.with(|s| s.chunk = chunk);
    let view = dev.handle();
    let mut w = match PagedWriter::new(dev) {
        Ok(w) => w,
        Err(_) => return StepOut { canon: None, violation: Some(("C11/new".into(), "PagedWriter::new failed on an empty device".into())), artefact: None },
    };
    let mut r = Ref { data: Vec::new(), cur: 0, gen: 0 };
    let mut viol: Option<(String, String)> = None;
    for (k, o) in h.iter().enumerate() {
        let last = k + 1 == h.len();
        let o = *o as usize;
        let mut note = |sig: &str, d: String| {
            if last && viol.is_none() {
                viol = Some((format!("C11/{sig}"), format!("{d}; history: {}", history_name(h))));
            }
        };
        if o < WRITES.len() {
            let n = WRITES[o];
            if r.cur + n > MAX_LOGICAL {
                if last {
                    return StepOut { canon: None, violation: None, artefact: None };
                }
                continue;
            }
            let bytes: Vec<u8> = (0..n).map(|i| fill(r.cur + i, r.gen)).collect();
            if r.data.len() < r.cur + n {
                r.data.resize(r.cur + n, 0);
            }
            r.data[r.cur..r.cur + n].copy_from_slice(&bytes);
            r.cur += n;
            if let Err(e) = w.write_all(&bytes) {
                note("write-failed", format!("write({n}) returned Err({e})"));
            }
        } else if o < WRITES.len() + SEEKS.len() {
            let size = size_of(r.data.len());
            let p = match SEEKS[o - WRITES.len()] {
                u64::MAX => size,
                x if x == u64::MAX - 1 => size + 1,
                p => p,
            };
            let ok_expected = p <= size && p % 1024 < 1020;
            let res = w.physical_seek(p);
            if res.is_ok() != ok_expected {
                note("I5-seek-verdict", format!("physical_seek({p}) returned {:?} with file size {size}; expected {}", res.as_ref().map(|_| ()).map_err(|e| e.to_string()), if ok_expected { "Ok" } else { "Err" }));
            }
            if res.is_ok() {
                let l = (p / 1024 * 1020 + p % 1024) as usize;
                if r.data.len() < l {
                    r.data.resize(l, 0);
                }
                r.cur = l;
                r.gen = (r.gen + 1) % 4;
            }
        } else {
            match o - WRITES.len() - SEEKS.len() {
                0 => {
                    if let Err(e) = w.flush() {
                        note("flush-failed", format!("flush returned Err({e})"));
                    }
                }
                1 => {
                    if let Err(e) = w.align() {
                        note("align-failed", format!("align returned Err({e})"));
                    }
                    let to = (r.cur + 3) / 4 * 4;
                    if to > r.cur {
                        if r.data.len() < to {
                            r.data.resize(to, 0);
                        }
                        for i in r.cur..to {
                            r.data[i] = 0;
                        }
                        r.cur = to;
                    }
                }
                2 => match w.physical_position() {
                    Ok(p) if p == phys(r.cur) => {}
                    other => note("I4-position", format!("physical_position() returned {other:?}, logical cursor {} corresponds to {}", r.cur, phys(r.cur))),
                },
                _ => match w.physical_size() {
                    Ok(s) if s == size_of(r.data.len()) => {}
                    other => note("I4-size", format!("physical_size() returned {other:?}, expected {}", size_of(r.data.len()))),
                },
            }
        }
    }
    // canonical state
    let (off, buf) = w.verif_state();
    let mut f = Fnv::default();
    let devbytes = view.snapshot();
    f.bytes(&devbytes);
    f.u64(devbytes.len() as u64);
    f.u64(w.verif_device().pos());
    f.u64(off as u64);
    f.bytes(&buf[..1020]);
    f.u64(r.gen as u64);
    f.u64(r.cur as u64);
    let canon = f.0;
    // every flush point must leave a consistent image: explicit flush for even, drop for odd last ops
    if h.last().map_or(true, |o| o % 2 == 0) {
        if let Err(e) = w.flush() {
            if viol.is_none() {
                viol = Some(("C11/flush-failed".into(), format!("flush returned Err({e}); history: {}", history_name(h))));
            }
        }
        let img = view.snapshot();
        if let Some(d) = check_image(&img, &r) {
            if viol.is_none() {
                viol = Some((format!("C11/{}", d.split(':').next().unwrap_or("image")), format!("after flush: {d}; history: {}", history_name(h))));
            }
        }
        drop(w);
    } else {
        drop(w);
    }
    let img = view.snapshot();
    if let Some(d) = check_image(&img, &r) {
        if viol.is_none() {
            viol = Some((format!("C11/{}", d.split(':').next().unwrap_or("image")), format!("after drop: {d}; history: {}", history_name(h))));
        }
    }
    let key = explore::fnv(&img);
    StepOut { canon: Some(canon), violation: viol, artefact: Some((key, img)) }
}

// ------------------------------------------------------------------------------------------
// read side

const RSEEK: [u64; 8] = [0, 1, 48, 1019, 1024, 1025, 2048, u64::MAX]; // MAX = last payload byte of the file
const RREAD: [usize; 7] = [0, 1, 4, 1019, 1020, 1021, 5000];
const N_ROPS: usize = RSEEK.len() + RREAD.len() + 1;

fn rop_name(o: usize) -> String {
    if o < RSEEK.len() {
        if RSEEK[o] == u64::MAX {
            "seek_physical(last payload byte)".into()
        } else {
            format!("seek_physical({})", RSEEK[o])
        }
    } else if o < RSEEK.len() + RREAD.len() {
        format!("read({})", RREAD[o - RSEEK.len()])
    } else {
        "align".into()
    }
}

/// run one op sequence on a fresh PagedReader over `img`; returns a discrepancy
fn read_seq(img: &[u8], logical: &[u8], seq: &[usize]) -> Option<String> {
    let mut r = match PagedReader::new(Dev::new(img.to_vec()), 1024) {
        Ok(r) => r,
        Err(e) => return Some(format!("PagedReader::new failed: {e}")),
    };
    let mut cur: usize = 0;
    for (k, o) in seq.iter().enumerate() {
        let o = *o;
        let ctx = || seq[..=k].iter().map(|x| rop_name(*x)).collect::<Vec<_>>().join("; ");
        if o < RSEEK.len() {
            let p = if RSEEK[o] == u64::MAX { img.len() as u64 - 5 } else { RSEEK[o] };
            if p >= img.len() as u64 {
                // beyond the end: whether the seek is refused is not specified - but a refused seek
                // must not move the cursor: what is read next continues where the reader stood
                match r.seek_physical(p) {
                    Err(_) => continue,
                    Ok(_) => return None, // accepted: what follows is not specified, not judged
                }
            }
            let l = (p / 1024 * 1020 + p % 1024) as usize;
            match r.seek_physical(p) {
                Ok(got) if got as usize == l => cur = l,
                other => return Some(format!("seek_physical({p}) returned {other:?}, expected Ok({l}) [{}]", ctx())),
            }
        } else if o < RSEEK.len() + RREAD.len() {
            let n = RREAD[o - RSEEK.len()];
            let mut buf = vec![0xAAu8; n];
            let mut got = 0usize;
            // read until n bytes arrived or the reader reports the end
            loop {
                if got == n {
                    break;
                }
                match r.read(&mut buf[got..]) {
                    Ok(0) => break,
                    Ok(k) => got += k,
                    Err(e) => return Some(format!("read({n}) at logical {cur} failed: {e} [{}]", ctx())),
                }
            }
            let want_end = (cur + n).min(logical.len());
            let want = &logical[cur.min(logical.len())..want_end];
            if &buf[..got] != want {
                let first = buf[..got].iter().zip(want.iter()).position(|(a, b)| a != b);
                return Some(format!("read({n}) at logical {cur} returned {got} bytes, expected {} (first difference at {:?}) [{}]", want.len(), first, ctx()));
            }
            cur += got;
        } else {
            let to = (cur + 3) / 4 * 4;
            match r.align() {
                Ok(()) => {
                    if to > logical.len() {
                        return Some(format!("align at logical {cur} succeeded beyond the end of the stream [{}]", ctx()));
                    }
                    cur = to;
                }
                Err(e) => {
                    if to <= logical.len() {
                        return Some(format!("align at logical {cur} failed: {e} [{}]", ctx()));
                    }
                }
            }
        }
    }
    None
}

pub fn extra(thorough: bool, _seed: u64, deadline: Instant) -> ExtraResult {
    let threads = std::thread::available_parallelism().map(|n| n.get()).unwrap_or(8);
    let max_depth = if thorough { 7 } else { 5 };
    let t0 = Instant::now();
    // leave a third of the budget to the read side
    let total = deadline.saturating_duration_since(t0);
    let wdead = t0 + total * 2 / 3;
    let res = bfs(N_OPS, max_depth, wdead, threads, if thorough { 4000 } else { 600 }, &step);
    let mut violations = res.violations.clone();
    // read side on every collected image
    let rdepth = if thorough { 4 } else { 3 };
    let mut seqs: Vec<Vec<usize>> = vec![vec![]];
    let mut all: Vec<Vec<usize>> = Vec::new();
    for _ in 0..rdepth {
        let mut next = Vec::new();
        for s in &seqs {
            for o in 0..N_ROPS {
                let mut t = s.clone();
                t.push(o);
                next.push(t);
            }
        }
        all.extend(next.iter().cloned());
        seqs = next;
    }
    let images: Vec<&Vec<u8>> = res.artefacts.iter().filter(|a| !a.is_empty()).collect();
    let read_viol: std::sync::Mutex<Vec<ViolationRec>> = std::sync::Mutex::new(Vec::new());
    let done = std::sync::atomic::AtomicU64::new(0);
    let images_done = std::sync::atomic::AtomicU64::new(0);
    let next_img = std::sync::atomic::AtomicUsize::new(0);
    let capped_r = std::sync::atomic::AtomicBool::new(false);
    std::thread::scope(|s| {
        for _ in 0..threads {
            s.spawn(|| loop {
                let i = next_img.fetch_add(1, std::sync::atomic::Ordering::Relaxed);
                if i >= images.len() {
                    break;
                }
                if Instant::now() > deadline {
                    capped_r.store(true, std::sync::atomic::Ordering::Relaxed);
                    break;
                }
                let img = images[i];
                let logical = match e57spec::page::unseal(img) {
                    Ok((l, bad)) if bad.is_empty() => l,
                    _ => continue,
                };
                for sq in &all {
                    done.fetch_add(1, std::sync::atomic::Ordering::Relaxed);
                    let r = guarded(|| read_seq(img, &logical, sq));
                    let d = match r {
                        Ok(None) => continue,
                        Ok(Some(d)) => ("C11/read-side".to_string(), d),
                        Err(pi) => (format!("C11/read-panic/{}", pi.class()), format!("page reader panicked at {} ({})", pi.loc, pi.msg)),
                    };
                    let mut g = read_viol.lock().unwrap();
                    if g.len() < 20 {
                        g.push(ViolationRec { choices: sq.iter().map(|x| *x as u32).collect(), sig: d.0, detail: format!("{} on a {}-byte image", d.1, img.len()), desc: String::new(), kind: "oracle" });
                    }
                    break;
                }
                images_done.fetch_add(1, std::sync::atomic::Ordering::Relaxed);
            });
        }
    });
    violations.extend(read_viol.into_inner().unwrap());
    let read_execs = done.into_inner();
    let exhaustive = !res.capped && !capped_r.into_inner();
    let samples: Vec<J> = res
        .sample_histories
        .iter()
        .map(|h| J::obj().with("space", J::s("c11.bfs")).with("history", J::s(history_name(h))))
        .chain(all.iter().skip(40).take(1).map(|s| J::obj().with("space", J::s("c11.read")).with("ops", J::s(s.iter().map(|x| rop_name(*x)).collect::<Vec<_>>().join("; ")))))
        .collect();
    let json = J::obj()
        .with("space", J::s("c11.bfs+read"))
        .with("what", J::s("explicit-state BFS over PagedWriter histories (26-op alphabet, logical length <= 4 pages) with invariants I1-I5 on every transition and at every flush/drop point, each history executed on a full-transfer device and on a device transferring half of every request (images must be identical); then every read-op sequence on every distinct device image"))
        .with("bfs_depth_bound", J::Int(max_depth as i64))
        .with("bfs_depth_reached", J::Int(res.depth_reached as i64))
        .with("bfs_fixpoint", J::Bool(res.fixpoint))
        .with("bfs_states", J::Int(res.states as i64))
        .with("bfs_states_per_depth", J::Arr(res.per_depth.iter().map(|x| J::Int(*x as i64)).collect()))
        .with("bfs_transitions", J::Int(res.transitions as i64))
        .with("bfs_replays", J::Int(res.replays as i64))
        .with("distinct_device_images_read", J::Int(images_done.into_inner() as i64))
        .with("distinct_device_images_collected", J::Int(images.len() as i64))
        .with("read_sequences_per_image", J::Int(all.len() as i64))
        .with("read_depth_bound", J::Int(rdepth as i64))
        .with("read_sequences_executed", J::Int(read_execs as i64))
        .with("capped", J::Bool(!exhaustive))
        .with("wall_s", J::Num((t0.elapsed().as_secs_f64() * 100.0).round() / 100.0));
    ExtraResult {
        states: res.states,
        transitions: res.transitions + read_execs,
        traces: res.replays + read_execs,
        exhaustive,
        note: format!(
            "BFS depth {} of {} ({} states, {} transitions, fixpoint {}), read side {} sequences on {} images{}",
            res.depth_reached,
            max_depth,
            res.states,
            res.transitions,
            res.fixpoint,
            read_execs,
            images.len(),
            if exhaustive { "" } else { " (time cap hit)" }
        ),
        violations,
        machinery_errors: Vec::new(),
        samples,
        json,
    }
}

// ------------------------------------------------------------------------------------------
// large transfers (E1): the BFS keeps the stream below four pages; a single write call of many
// pages, in front of / behind partial pages, is enumerated here against the same invariants

/// one write call of k pages +-1 byte (k up to 100) behind a prefix of 0 / 1 / 1019 / 1020 / 1021
/// bytes, delivered by `write` in one call or through `write_all`, followed by flush / a patch of
/// the first bytes / a second large write; device image vs logical stream after every step
pub fn bulk(ctx: &explore::Ctx) {
    const PAGES: [usize; 12] = [1, 2, 3, 8, 16, 31, 32, 33, 34, 64, 65, 100];
    let prefix = [0usize, 1, 1019, 1020, 1021][ctx.pick("prefix", 5)];
    let k = PAGES[ctx.pick("pages", PAGES.len())];
    let d = ctx.pick("delta", 3) as isize - 1;
    let n = (k * 1020) as isize + d;
    let n = n as usize;
    let tail = ctx.pick("then", 4);
    let chunk = [Chunk::Full, Chunk::AlwaysHalf][ctx.pick("device-chunking", 2)];
    // the bytes written: the usual pattern (never zero), or zeros only - a page of zeros that was never
    // stored looks like one that was, except that the device is shorter
    let zeros = ctx.pick("bytes", 2) == 1;
    ctx.describe(|| format!("[{}] write({prefix}); write({n}) in one call; then {}; device {chunk:?}", if zeros { "zero bytes" } else { "pattern bytes" }, ["flush", "seek(0) write(48) seek(end)", "write of the same size again", "align, physical_size"][tail]));
    let dev = Dev::empty();
    dev.with(|s| s.chunk = chunk);
    let view = dev.handle();
    let out = guarded(|| -> Result<(), String> {
        let mut w = PagedWriter::new(dev).map_err(|e| format!("new: {e}"))?;
        let mut r = Ref { data: Vec::new(), cur: 0, gen: 0 };
        let mut put = |w: &mut PagedWriter<Dev>, r: &mut Ref, n: usize| -> Result<(), String> {
            let bytes: Vec<u8> = (0..n).map(|i| if zeros { 0 } else { fill(r.cur + i, r.gen) }).collect();
            if r.data.len() < r.cur + n {
                r.data.resize(r.cur + n, 0);
            }
            r.data[r.cur..r.cur + n].copy_from_slice(&bytes);
            r.cur += n;
            // `write` may take less than it was given, but it must say so
            let mut done = 0;
            while done < n {
                let took = w.write(&bytes[done..]).map_err(|e| format!("write({}) failed: {e}", n - done))?;
                if took == 0 || took > n - done {
                    return Err(format!("write({}) returned {took}", n - done));
                }
                done += took;
            }
            Ok(())
        };
        put(&mut w, &mut r, prefix)?;
        put(&mut w, &mut r, n)?;
        let check = |w: &mut PagedWriter<Dev>, r: &Ref, at: &str| -> Result<(), String> {
            w.flush().map_err(|e| format!("flush failed {at}: {e}"))?;
            let pos = w.physical_position().map_err(|e| format!("physical_position failed {at}: {e}"))?;
            if pos != phys(r.cur) {
                return Err(format!("I4: physical_position {pos} {at}, logical cursor {} is at {}", r.cur, phys(r.cur)));
            }
            let size = w.physical_size().map_err(|e| format!("physical_size failed {at}: {e}"))?;
            if size != size_of(r.data.len()) {
                return Err(format!("I4: physical_size {size} {at}, {} logical bytes need {}", r.data.len(), size_of(r.data.len())));
            }
            match check_image(&view.snapshot(), r) {
                Some(m) => Err(format!("{m} ({at})")),
                None => Ok(()),
            }
        };
        check(&mut w, &r, "after the large write")?;
        match tail {
            0 => {}
            1 => {
                w.physical_seek(0).map_err(|e| format!("seek(0): {e}"))?;
                r.cur = 0;
                r.gen = 1;
                put(&mut w, &mut r, 48)?;
                let end = phys(r.data.len());
                // the end of the stream may lie on a page boundary: the position behind the last
                // payload byte of a full page is the start of the next page
                let end = if r.data.len() % 1020 == 0 { size_of(r.data.len()) } else { end };
                w.physical_seek(end).map_err(|e| format!("seek({end}): {e}"))?;
                r.cur = r.data.len();
                r.gen = 2;
                put(&mut w, &mut r, 5)?;
                check(&mut w, &r, "after patching the first 48 bytes and appending 5")?;
            }
            2 => {
                put(&mut w, &mut r, n)?;
                check(&mut w, &r, "after the second large write")?;
            }
            _ => {
                w.align().map_err(|e| format!("align: {e}"))?;
                let to = (r.cur + 3) / 4 * 4;
                if r.data.len() < to {
                    r.data.resize(to, 0);
                }
                r.cur = to;
                check(&mut w, &r, "after align")?;
            }
        }
        Ok(())
    });
    ctx.ops(3);
    match out {
        Err(pi) => ctx.violation(format!("C11/panic/{}", pi.class()), format!("page writer panicked at {} ({})", pi.loc, pi.msg)),
        Ok(Err(m)) => {
            let sig = m.split(':').next().unwrap_or("bulk").to_string();
            ctx.violation(format!("C11/bulk/{}", crate::oracle::msg_class(&sig)), m)
        }
        Ok(Ok(())) => {
            ctx.nontrivial();
            ctx.observe(&view.snapshot());
        }
    }
}
