//! C05 — the simple reader equals the documented view of the raw data.

use crate::c03::model_file;
use crate::cat::rec;
use crate::dev::Dev;
use crate::harness::{err_string, guarded};
use crate::oracle::*;
use e57::{CartesianCoordinate as CC, E57Reader, Point, SphericalCoordinate as SC};
use e57spec::encode::Knobs;
use e57spec::model::{self as m, Rec, Ty, Val};
use explore::Ctx;

const P: &str = "C05";

#[derive(Clone, Copy, Debug)]
pub struct Opts {
    pub s2c: bool,
    pub c2s: bool,
    pub i2c: bool,
    pub ni: bool,
    pub nc: bool,
    pub pose: bool,
}
impl Opts {
    pub fn from_bits(b: usize) -> Opts {
        // bit set = deviates from the documented default (s2c on, c2s off, i2c on, ni on, nc on, pose on)
        Opts { s2c: b & 1 == 0, c2s: b & 2 != 0, i2c: b & 4 == 0, ni: b & 8 == 0, nc: b & 16 == 0, pose: b & 32 == 0 }
    }
}

#[derive(Clone, Debug, PartialEq)]
pub enum RC {
    Valid(f64, f64, f64),
    Dir(f64, f64, f64),
    Invalid,
}
#[derive(Clone, Debug, PartialEq)]
pub enum RS {
    Valid(f64, f64, f64), // range, azimuth, elevation
    Dir(f64, f64),
    Invalid,
}
#[derive(Clone, Debug)]
pub struct RefPoint {
    pub cart: RC,
    pub sph: RS,
    /// the under-specified corner: Cartesian built from a spherical *direction*; Invalid is accepted too
    pub cart_from_sph_dir: bool,
    pub sph_from_cart_dir: bool,
    /// the Cartesian value is the stored one itself (not converted, no pose applied): it must come
    /// back unchanged even if a component is not finite
    pub cart_stored: bool,
    pub color: Option<[f32; 3]>,
    pub intensity: Option<f32>,
    pub row: i64,
    pub col: i64,
}

fn real(v: &Val, ty: &Ty) -> f64 {
    match (v, ty) {
        (Val::F32(x), _) => *x as f64,
        (Val::F64(x), _) => *x,
        (Val::Int(x), _) => *x as f64,
        (Val::Scaled(x), Ty::Scaled { scale, offset, .. }) => *x as f64 * *scale + *offset,
        (Val::Scaled(x), _) => *x as f64,
    }
}

/// the declared range of a type (None when a float type declares none)
pub fn type_range(ty: &Ty) -> (f64, f64) {
    match ty {
        Ty::F32 { min, max } => (min.unwrap_or(f32::MIN) as f64, max.unwrap_or(f32::MAX) as f64),
        Ty::F64 { min, max } => (min.unwrap_or(f64::MIN), max.unwrap_or(f64::MAX)),
        Ty::Int { min, max } => (*min as f64, *max as f64),
        Ty::Scaled { min, max, scale, offset } => (*min as f64 * scale + offset, *max as f64 * scale + offset),
    }
}

/// clamp((v-lo)/(hi-lo), 0, 1) computed with halved operands (no overflow), 0 for a degenerate range
pub fn norm_ref(v: f64, lo: f64, hi: f64) -> f64 {
    // degenerate or undefined range
    if !(lo < hi) {
        return 0.0;
    }
    if v <= lo {
        return 0.0;
    }
    if v >= hi {
        return 1.0;
    }
    // lo < v < hi: the differences are exact enough as long as they do not overflow; only then
    // the halved form is used (halving is inexact for subnormal numbers)
    let d = hi - lo;
    let x = if d.is_finite() { (v - lo) / d } else { (v * 0.5 - lo * 0.5) / (hi * 0.5 - lo * 0.5) };
    x.clamp(0.0, 1.0)
}

/// Reference "documented view" of one raw point. Err(()) = a stored invalid-state value outside its set.
pub fn view(raw: &[Val], proto: &[Rec], meta: &m::CloudMeta, o: &Opts) -> Result<RefPoint, ()> {
    let idx = |n: &str| proto.iter().position(|r| r.ns.is_none() && r.name == n);
    let val = |k: usize| real(&raw[k], &proto[k].ty);
    let ival = |k: usize| match raw[k] {
        Val::Int(x) | Val::Scaled(x) => x,
        Val::F32(x) => x as i64,
        Val::F64(x) => x as i64,
    };
    let xyz = (idx("cartesianX"), idx("cartesianY"), idx("cartesianZ"));
    let mut cart = match xyz {
        (Some(x), Some(y), Some(z)) => {
            let st = idx("cartesianInvalidState").map(ival).unwrap_or(0);
            match st {
                0 => RC::Valid(val(x), val(y), val(z)),
                1 => RC::Dir(val(x), val(y), val(z)),
                2 => RC::Invalid,
                _ => return Err(()),
            }
        }
        _ => RC::Invalid,
    };
    let rae = (idx("sphericalRange"), idx("sphericalAzimuth"), idx("sphericalElevation"));
    let mut sph = match rae {
        (Some(r), Some(a), Some(e)) => {
            let st = idx("sphericalInvalidState").map(ival).unwrap_or(0);
            match st {
                0 => RS::Valid(val(r), val(a), val(e)),
                1 => RS::Dir(val(a), val(e)),
                2 => RS::Invalid,
                _ => return Err(()),
            }
        }
        _ => RS::Invalid,
    };
    let lim = |l: &Option<m::LVal>| l.as_ref().map(|v| v.as_f64());
    let chan = |name: &str, li: usize| -> Option<(f64, f64, f64)> {
        let k = idx(name)?;
        let (mut lo, mut hi) = type_range(&proto[k].ty);
        if let Some(cl) = &meta.color_limits {
            if let (Some(a), Some(b)) = (lim(&cl[2 * li]), lim(&cl[2 * li + 1])) {
                lo = a;
                hi = b;
            }
        }
        Some((val(k), lo, hi))
    };
    let mut color = match (chan("colorRed", 0), chan("colorGreen", 1), chan("colorBlue", 2)) {
        (Some(r), Some(g), Some(b)) => {
            let fl = idx("isColorInvalid").map(ival).unwrap_or(0);
            match fl {
                0 => {
                    let f = |(v, lo, hi): (f64, f64, f64)| if o.nc { norm_ref(v, lo, hi) as f32 } else { v as f32 };
                    Some([f(r), f(g), f(b)])
                }
                1 => None,
                _ => return Err(()),
            }
        }
        _ => None,
    };
    let intensity = match idx("intensity") {
        Some(k) => {
            let fl = idx("isIntensityInvalid").map(ival).unwrap_or(0);
            match fl {
                0 => {
                    let (mut lo, mut hi) = type_range(&proto[k].ty);
                    if let Some(il) = &meta.intensity_limits {
                        if let (Some(a), Some(b)) = (lim(&il[0]), lim(&il[1])) {
                            lo = a;
                            hi = b;
                        }
                    }
                    Some(if o.ni { norm_ref(val(k), lo, hi) as f32 } else { val(k) as f32 })
                }
                1 => None,
                _ => return Err(()),
            }
        }
        None => None,
    };
    let row = idx("rowIndex").map(ival).unwrap_or(-1);
    let col = idx("columnIndex").map(ival).unwrap_or(-1);
    let mut cart_from_sph_dir = false;
    let mut sph_from_cart_dir = false;
    let mut cart_stored = !matches!(cart, RC::Invalid);
    if o.s2c && !matches!(cart, RC::Valid(..)) {
        match sph {
            RS::Valid(r, az, el) => {
                cart = RC::Valid(r * el.cos() * az.cos(), r * el.cos() * az.sin(), r * el.sin());
                cart_stored = false;
            }
            RS::Dir(az, el) if !matches!(cart, RC::Dir(..)) => {
                cart = RC::Dir(el.cos() * az.cos(), el.cos() * az.sin(), el.sin());
                cart_from_sph_dir = true;
                cart_stored = false;
            }
            _ => {}
        }
    }
    if o.c2s && !matches!(sph, RS::Valid(..)) {
        match cart {
            RC::Valid(x, y, z) => {
                let r = (x * x + y * y + z * z).sqrt();
                sph = RS::Valid(r, y.atan2(x), (z / r).asin());
            }
            RC::Dir(x, y, z) if !matches!(sph, RS::Dir(..)) => {
                let r = (x * x + y * y + z * z).sqrt();
                sph = RS::Dir(y.atan2(x), (z / r).asin());
                sph_from_cart_dir = true;
            }
            _ => {}
        }
    }
    if o.i2c && color.is_none() {
        if let Some(i) = intensity {
            color = Some([i, i, i]);
        }
    }
    if o.pose {
        if let (RC::Valid(x, y, z), Some(p)) = (&cart, &meta.pose) {
            let (w, qx, qy, qz) = (p.rot[0], p.rot[1], p.rot[2], p.rot[3]);
            // v' = v + 2w (q x v) + 2 q x (q x v)
            let c1 = (qy * z - qz * y, qz * x - qx * z, qx * y - qy * x);
            let c2 = (qy * c1.2 - qz * c1.1, qz * c1.0 - qx * c1.2, qx * c1.1 - qy * c1.0);
            cart_stored = false;
            cart = RC::Valid(
                x + 2.0 * w * c1.0 + 2.0 * c2.0 + p.trans[0],
                y + 2.0 * w * c1.1 + 2.0 * c2.1 + p.trans[1],
                z + 2.0 * w * c1.2 + 2.0 * c2.2 + p.trans[2],
            );
        }
    }
    Ok(RefPoint { cart, sph, cart_from_sph_dir, sph_from_cart_dir, cart_stored, color, intensity, row, col })
}

fn close(a: f64, b: f64, rel: f64) -> bool {
    if a.is_nan() || b.is_nan() {
        return a.is_nan() && b.is_nan();
    }
    if a == b {
        return true;
    }
    let scale = a.abs().max(b.abs()).max(1.0);
    (a - b).abs() <= rel * scale
}
/// `a` is the reference value; a NaN reference means "not defined by the statement" (the stored
/// value itself is not finite), then anything is accepted
fn close32(a: f32, b: f32) -> bool {
    if a.is_nan() {
        return true;
    }
    if b.is_nan() {
        return false;
    }
    a == b || (a as f64 - b as f64).abs() <= 2.4e-7 * (a.abs().max(b.abs()).max(1.0)) as f64
}

/// coordinates with a non-finite component are outside what the statement defines (IEEE: 0 * inf
/// and 0 * NaN contaminate every component of a rotated vector): only the variant is compared then
fn finite3(a: f64, b: f64, c: f64) -> bool {
    a.is_finite() && b.is_finite() && c.is_finite()
}

pub fn compare(exp: &RefPoint, got: &Point, tol: f64) -> Option<String> {
    let c_ok = match (&exp.cart, &got.cartesian) {
        (RC::Valid(a, b, c), CC::Valid { .. }) | (RC::Dir(a, b, c), CC::Direction { .. }) if !finite3(*a, *b, *c) && !exp.cart_stored => true,
        (RC::Valid(a, b, c), CC::Valid { x, y, z }) | (RC::Dir(a, b, c), CC::Direction { x, y, z }) => close(*a, *x, tol) && close(*b, *y, tol) && close(*c, *z, tol),
        (RC::Invalid, CC::Invalid) => true,
        (RC::Dir(..), CC::Invalid) if exp.cart_from_sph_dir => true,
        _ => false,
    };
    if !c_ok {
        return Some(format!("cartesian: expected {:?}, got {:?}", exp.cart, got.cartesian));
    }
    let s_ok = match (&exp.sph, &got.spherical) {
        (RS::Valid(r, a, e), SC::Valid { .. }) if !finite3(*r, *a, *e) => true,
        (RS::Dir(a, e), SC::Direction { .. }) if !finite3(0.0, *a, *e) => true,
        (RS::Valid(r, a, e), SC::Valid { range, azimuth, elevation }) => close(*r, *range, tol) && close(*a, *azimuth, tol) && close(*e, *elevation, tol),
        (RS::Dir(a, e), SC::Direction { azimuth, elevation }) => close(*a, *azimuth, tol) && close(*e, *elevation, tol),
        (RS::Invalid, SC::Invalid) => true,
        (RS::Dir(..), SC::Invalid) if exp.sph_from_cart_dir => true,
        _ => false,
    };
    if !s_ok {
        return Some(format!("spherical: expected {:?}, got {:?}", exp.sph, got.spherical));
    }
    let col_ok = match (&exp.color, &got.color) {
        (None, None) => true,
        (Some(a), Some(c)) => close32(a[0], c.red) && close32(a[1], c.green) && close32(a[2], c.blue),
        _ => false,
    };
    if !col_ok {
        return Some(format!("color: expected {:?}, got {:?}", exp.color, got.color));
    }
    let i_ok = match (exp.intensity, got.intensity) {
        (None, None) => true,
        (Some(a), Some(b)) => close32(a, b),
        _ => false,
    };
    if !i_ok {
        return Some(format!("intensity: expected {:?}, got {:?}", exp.intensity, got.intensity));
    }
    if exp.row != got.row || exp.col != got.column {
        return Some(format!("row/column: expected {}/{}, got {}/{}", exp.row, exp.col, got.row, got.column));
    }
    None
}

pub const POSES: [([f64; 4], [f64; 3]); 8] = [
    ([1.0, 0.0, 0.0, 0.0], [0.0, 0.0, 0.0]),
    ([std::f64::consts::FRAC_1_SQRT_2, std::f64::consts::FRAC_1_SQRT_2, 0.0, 0.0], [0.0, 0.0, 0.0]),
    ([std::f64::consts::FRAC_1_SQRT_2, 0.0, std::f64::consts::FRAC_1_SQRT_2, 0.0], [1.0, 2.0, 3.0]),
    ([std::f64::consts::FRAC_1_SQRT_2, 0.0, 0.0, std::f64::consts::FRAC_1_SQRT_2], [0.0, 0.0, 0.0]),
    ([0.5, 0.5, -0.5, 0.5], [-10.0, 0.25, 1e3]),
    ([1.0, 0.0, 0.0, 0.0], [5.0, -6.0, 7.0]),
    // rotations so small that w rounds to exactly 1 (or -1) while the vector part is not zero
    ([1.0, 0.0, 0.0, 1e-7], [0.0, 0.0, 0.0]),
    ([-1.0, 3e-7, 0.0, 0.0], [1.0, 2.0, 3.0]),
];

/// Check one cloud of an open reader under one option vector against the reference view of `pts`.
/// Returns the first discrepancy.
pub fn check_cloud(bytes: &[u8], ci: usize, proto: &[Rec], meta: &m::CloudMeta, pts: &[Vec<Val>], records: u64, ob: usize) -> Result<(), (String, String)> {
    let o = Opts::from_bits(ob);
    let mut r = E57Reader::new(Dev::new(bytes.to_vec())).map_err(|e| ("open".to_string(), err_string(&e)))?;
    let pcs = r.pointclouds();
    let pc = pcs.get(ci).ok_or(("descriptor".to_string(), "cloud missing".to_string()))?;
    let expect: Vec<Result<RefPoint, ()>> = pts.iter().map(|p| view(p, proto, meta, &o)).collect();
    let any_bad_state = expect.iter().any(|e| e.is_err());
    let mut it = r.pointcloud_simple(pc).map_err(|e| ("pointcloud_simple".to_string(), err_string(&e)))?;
    // A switch that keeps its documented default is either not touched at all (vectors with an even
    // number of deviations: the default itself is observed) or set to the default explicitly.
    let explicit = ob.count_ones() % 2 == 1;
    if ob & 1 != 0 || explicit {
        it.spherical_to_cartesian(o.s2c);
    }
    if ob & 2 != 0 || explicit {
        it.cartesian_to_spherical(o.c2s);
    }
    if ob & 4 != 0 || explicit {
        it.intensity_to_color(o.i2c);
    }
    if ob & 8 != 0 || explicit {
        it.normalize_intensity(o.ni);
    }
    if ob & 16 != 0 || explicit {
        it.normalize_color(o.nc);
    }
    if ob & 32 != 0 || explicit {
        it.apply_pose(o.pose);
    }
    let mut n = 0usize;
    loop {
        match it.next() {
            None => break,
            Some(Err(e)) => {
                if any_bad_state {
                    return Ok(()); // legitimate: an out-of-set state value is stored in this cloud
                }
                return Err(("simple-iterator-err".to_string(), format!("item #{n}: Err({}) although the raw data is sound and every state value is in its documented set", err_string(&e))));
            }
            Some(Ok(p)) => {
                if n as u64 >= records {
                    return Err(("too-many".to_string(), format!("yielded more than {records} points")));
                }
                match &expect[n] {
                    Ok(exp) => {
                        if let Some(d) = compare(exp, &p, 1e-9) {
                            return Err((format!("point-differs/{}", d.split(':').next().unwrap_or("")), format!("point #{n}: {d}; raw values {:?}", pts[n].iter().map(|v| v.describe()).collect::<Vec<_>>())));
                        }
                    }
                    Err(()) => return Err(("bad-state-accepted".to_string(), format!("point #{n} has an invalid-state value outside its documented set but was delivered as {p:?}"))),
                }
                n += 1;
            }
        }
    }
    if any_bad_state {
        return Err(("bad-state-accepted".to_string(), "iterator finished without error although a state value outside the documented set is stored".to_string()));
    }
    if n as u64 != records {
        return Err(("count".to_string(), format!("yielded {n} points, record count is {records}")));
    }
    Ok(())
}

fn build_scene(ctx: &Ctx) -> m::Scene {
    let coords = ctx.pick("coords", 3); // 0 cartesian, 1 spherical, 2 both
    // the last option: the cloud has no pose element at all
    let pose = ctx.pick("pose", POSES.len() + 1);
    // one coordinate of one point is not finite (float coordinates only)
    let special = ctx.choose("non-finite-coordinate", 4);
    let no_cstate = ctx.flag("no-cartesian-state");
    let no_sstate = ctx.flag("no-spherical-state");
    let no_colour = ctx.flag("no-colour");
    let no_cflag = ctx.flag("no-colour-flag");
    let no_int = ctx.flag("no-intensity");
    let no_iflag = ctx.flag("no-intensity-flag");
    // 0 both, 1 neither, 2 only the row index, 3 only the column index
    let rowcol = ctx.choose("row-column-presence", 4);
    let ctype = ctx.choose("coord-type", 6);
    let bad = ctx.choose("bad-state", 1 + 4 * 3);
    let cty = match ctype {
        0 => Ty::F64 { min: None, max: None },
        1 => Ty::F32 { min: None, max: None },
        2 => Ty::Scaled { min: -100_000, max: 100_000, scale: 0.001, offset: 0.5 },
        // scale exactly 1 with an offset, offset 0 with a scale, and plain integers
        3 => Ty::Scaled { min: -100_000, max: 100_000, scale: 1.0, offset: -120.5 },
        4 => Ty::Scaled { min: -100_000, max: 100_000, scale: -0.25, offset: 0.0 },
        _ => Ty::Int { min: -100_000, max: 100_000 },
    };
    let state_ty = Ty::Int { min: -1, max: 255 };
    let mut proto: Vec<Rec> = Vec::new();
    if coords != 1 {
        for n in ["cartesianX", "cartesianY", "cartesianZ"] {
            proto.push(rec(n, cty.clone()));
        }
        if !no_cstate {
            proto.push(rec("cartesianInvalidState", state_ty.clone()));
        }
    }
    if coords != 0 {
        proto.push(rec("sphericalRange", cty.clone()));
        proto.push(rec("sphericalAzimuth", cty.clone()));
        proto.push(rec("sphericalElevation", cty.clone()));
        if !no_sstate {
            proto.push(rec("sphericalInvalidState", state_ty.clone()));
        }
    }
    if !no_colour {
        proto.push(rec("colorRed", Ty::Int { min: 0, max: 255 }));
        proto.push(rec("colorGreen", Ty::Int { min: 0, max: 1023 }));
        proto.push(rec("colorBlue", Ty::F32 { min: Some(0.0), max: Some(2.0) }));
        if !no_cflag {
            proto.push(rec("isColorInvalid", state_ty.clone()));
        }
    }
    if !no_int {
        proto.push(rec("intensity", Ty::Scaled { min: 0, max: 4095, scale: 0.5, offset: 10.0 }));
        if !no_iflag {
            proto.push(rec("isIntensityInvalid", state_ty.clone()));
        }
    }
    if rowcol == 0 || rowcol == 2 {
        proto.push(rec("rowIndex", Ty::Int { min: 0, max: 1000 }));
    }
    if rowcol == 0 || rowcol == 3 {
        proto.push(rec("columnIndex", Ty::Int { min: -5, max: 5 }));
    }
    // 9 points: all 3x3 combinations of the two coordinate states, flags alternate
    let n = 9;
    let mut points = Vec::new();
    for i in 0..n {
        let mut pt = Vec::new();
        for r in &proto {
            let f = |a: f64| -> Val {
                match &r.ty {
                    Ty::F64 { .. } => Val::F64(a),
                    Ty::F32 { .. } => Val::F32(a as f32),
                    Ty::Int { .. } => Val::Int(((a - 0.5) * 1000.0).round() as i64),
                    _ => Val::Scaled(((a - 0.5) * 1000.0).round() as i64),
                }
            };
            let v = match r.name.as_str() {
                "cartesianX" => f(1.0 + i as f64),
                "cartesianY" => f(-2.5 * i as f64),
                "cartesianZ" => f(0.25 * (i * i) as f64 - 3.0),
                "cartesianInvalidState" => Val::Int((i % 3) as i64),
                "sphericalRange" => f(2.0 + i as f64),
                "sphericalAzimuth" => f(-3.0 + 0.7 * i as f64),
                "sphericalElevation" => f(-1.5 + 0.35 * i as f64),
                "sphericalInvalidState" => Val::Int((i / 3) as i64),
                "colorRed" => Val::Int((i * 31 % 256) as i64),
                "colorGreen" => Val::Int((1023 - i * 100) as i64),
                "colorBlue" => Val::F32(0.25 * i as f32),
                "isColorInvalid" => Val::Int((i % 2) as i64),
                "intensity" => Val::Scaled((i * 511) as i64),
                "isIntensityInvalid" => Val::Int(((i / 2) % 2) as i64),
                "rowIndex" => Val::Int((i * 111) as i64),
                _ => Val::Int(i as i64 - 4),
            };
            pt.push(v);
        }
        points.push(pt);
    }
    if bad > 0 {
        let which = (bad - 1) / 3;
        let value = [3i64, -1, 255][(bad - 1) % 3];
        let pos = [0usize, 4, 8][(bad - 1) % 3];
        let name = ["cartesianInvalidState", "sphericalInvalidState", "isColorInvalid", "isIntensityInvalid"][which];
        if let Some(k) = proto.iter().position(|r| r.name == name) {
            points[pos][k] = Val::Int(value);
        }
    }
    if special > 0 {
        let (name, value, pos) = [("cartesianY", f64::INFINITY, 0usize), ("cartesianX", f64::NAN, 3), ("sphericalRange", f64::NEG_INFINITY, 6)][special - 1];
        if let Some(k) = proto.iter().position(|r| r.name == name) {
            match proto[k].ty {
                Ty::F64 { .. } => points[pos][k] = Val::F64(value),
                Ty::F32 { .. } => points[pos][k] = Val::F32(value as f32),
                _ => {}
            }
        }
    }
    let mut s = crate::scenes::scene(0);
    s.clouds.clear();
    s.clouds.push(m::Cloud {
        meta: m::CloudMeta { guid: Some("c".into()), pose: POSES.get(pose).map(|p| m::Pose { rot: p.0, trans: p.1 }), ..Default::default() },
        proto,
        points,
        records: n as u64,
        file_offset: 0,
    });
    s
}

/// encoder files: attribute-group subsets x poses x state combinations x packetisations x all 64 option vectors
pub fn view_space(ctx: &Ctx) {
    let scene = build_scene(ctx);
    let k = Knobs { packets: true, cuts: true, max_packets: 3, non_data_packets: true, max_ignored: true, ..Knobs::NONE };
    let Some((enc, exp)) = model_file(ctx, &scene, k) else { return };
    ctx.describe(|| {
        format!(
            "cloud [{}] pose {:?} 9 points, layout {:?}; all 64 option vectors",
            exp.clouds[0].proto.iter().map(|r| r.name.clone()).collect::<Vec<_>>().join(","),
            exp.clouds[0].meta.pose,
            enc.notes
        )
    });
    ctx.observe(&enc.bytes);
    let c = &exp.clouds[0];
    for ob in 0..64 {
        ctx.evals(1);
        ctx.ops(12);
        match guarded(|| check_cloud(&enc.bytes, 0, &c.proto, &c.meta, &c.points, c.records, ob)) {
            Err(pi) => {
                ctx.violation(format!("{P}/panic/{}", pi.class()), format!("simple iterator panicked at {} ({}) with options {:?}; layout {:?}", pi.loc, pi.msg, Opts::from_bits(ob), enc.notes));
                return;
            }
            Ok(Err((class, detail))) => {
                ctx.violation(format!("{P}/{}", msg_class(&class)), format!("{detail}; options {:?}; layout {:?}", Opts::from_bits(ob), enc.notes));
                return;
            }
            Ok(Ok(())) => {}
        }
    }
    ctx.nontrivial();
}

/// files of the C03 scene list under layout deviations x 8 option vectors (count and order clause)
pub fn scenes_space(ctx: &Ctx) {
    let si = ctx.pick("scene", crate::scenes::N_SCENES);
    let scene = crate::scenes::scene(si);
    let k = Knobs { packets: true, cuts: true, max_packets: 3, non_data_packets: true, gaps: true, ..Knobs::NONE };
    let Some((enc, exp)) = model_file(ctx, &scene, k) else { return };
    ctx.describe(|| format!("scene {si}, layout {:?}; 8 option vectors", enc.notes));
    ctx.observe(&enc.bytes);
    for (ci, c) in exp.clouds.iter().enumerate() {
        for ob in [0usize, 63, 1, 2, 4, 8, 16, 32] {
            ctx.evals(1);
            match guarded(|| check_cloud(&enc.bytes, ci, &c.proto, &c.meta, &c.points, c.records, ob)) {
                Err(pi) => {
                    ctx.violation(format!("{P}/panic/{}", pi.class()), format!("simple iterator panicked at {} ({}); scene {si} cloud {ci}; layout {:?}", pi.loc, pi.msg, enc.notes));
                    return;
                }
                Ok(Err((class, detail))) => {
                    ctx.violation(format!("{P}/{}", msg_class(&class)), format!("scene {si} cloud {ci}: {detail}; options {:?}; layout {:?}", Opts::from_bits(ob), enc.notes));
                    return;
                }
                Ok(Ok(())) => {}
            }
        }
    }
    if !enc.notes.is_empty() {
        ctx.nontrivial();
    }
}
