//! C15 — an interrupted write is never mistaken for a complete file.

use crate::alpha::*;
use crate::cat::{xyz, F32, F64};
use crate::dev::{Dev, DevOp};
use crate::harness::{guarded, pattern};
use crate::rops::*;
use crate::wprog::*;
use e57::E57Reader;
use e57spec::model as m;
use explore::Ctx;

const P: &str = "C15";

/// hand-listed program shapes (DESIGN §5 C15)
pub fn special(k: usize) -> Program {
    let mut p = Program { guid: "g".into(), ..Default::default() };
    match k {
        0 => p.ops.push(Op::Cloud(cloud(xyz(F32), 200, 1))), // cloud spanning 3 pages
        1 => p.ops.push(Op::Blob(pattern(1, 1020 - 48 - 16))), // blob ending exactly on a page end
        2 => p.ops.push(Op::Blob(pattern(2, 1020 - 48 - 16 + 1))),
        3 => p.ops.push(Op::CoordMeta(Some("x".repeat(300)))),  // XML ends near a page end
        4 => p.ops.push(Op::CoordMeta(Some("y".repeat(1500)))), // XML crosses one page boundary
        5 => p.ops.push(Op::CoordMeta(Some("z".repeat(2600)))), // XML crosses two
        6 => {
            // header patch of sections that lie in page 0
            p.ops.push(Op::Blob(pattern(3, 5)));
            p.ops.push(Op::Cloud(cloud(xyz(F32), 2, 2)));
        }
        7 => {
            p.ops.push(Op::Cloud(cloud(xyz(F64), 40, 3)));
            p.ops.push(Op::Image(image(4, true, 700, 4)));
            p.ops.push(Op::Cloud(cloud(xyz(F32), 90, 5)));
        }
        8 => {
            p.ops.push(Op::Blob(pattern(4, 2040)));
            p.ops.push(Op::Blob(pattern(5, 0)));
        }
        9 => {
            let mut c = cloud(xyz(F32), 30, 6);
            c.cap = Some(7);
            p.ops.push(Op::Cloud(c));
        }
        10 => {
            p.ops.push(Op::Image(image(1, false, 1004, 7)));
            p.ops.push(Op::Image(image(2, true, 20, 8)));
        }
        11 => {
            p.ops.push(Op::Cloud(cloud(xyz(F32), 85, 9)));
            p.ops.push(Op::Blob(pattern(6, 3)));
        }
        12 => {
            // the 16-byte header of the second blob straddles the end of page 0 (in-page offset 1008)
            p.ops.push(Op::Blob(pattern(7, 944)));
            p.ops.push(Op::Blob(pattern(8, 100)));
        }
        _ => {
            // the 32-byte section header of the cloud straddles the end of page 0 (in-page offset 1000)
            p.ops.push(Op::Blob(pattern(9, 936)));
            p.ops.push(Op::Cloud(cloud(xyz(F32), 5, 10)));
        }
    }
    p
}
pub const N_SPECIAL: usize = 14;

fn program_d(ctx: &Ctx, shallow: bool) -> Program {
    let kind = ctx.pick("program-kind", 2);
    if kind == 0 {
        special(ctx.pick("special", N_SPECIAL))
    } else {
        let d = if ctx.tier_thorough { 3 } else { 2 };
        pick_program(ctx, if shallow { d - 1 } else { d })
    }
}
fn program(ctx: &Ctx) -> Program {
    program_d(ctx, false)
}

/// one completed file (the device content right after a successful top-level finalize)
struct Done {
    bytes: Vec<u8>,
    ops: Vec<ROp>,
    results: Vec<Outcome>,
    blobs: Vec<e57::Blob>,
    desc: String,
    raw_xml: Vec<u8>,
}

struct Complete {
    /// device content after the last finalize
    bytes: Vec<u8>,
    log: Vec<DevOp>,
    /// index into `log` of the first device write issued by the first top-level finalize
    f: usize,
    /// the completed files, in the order in which they existed on the device
    done: Vec<Done>,
}

fn done_from(bytes: Vec<u8>) -> Result<Done, String> {
    let rd = E57Reader::new(Dev::new(bytes.clone())).map_err(|e| crate::harness::err_string(&e))?;
    let blobs = blob_list(&rd);
    let ops = alphabet(rd.pointclouds().len(), blobs.len());
    let desc = format!("{:?}|{:?}|{}|{}|{:?}|{:?}|{:?}|{:?}|{:?}|{:?}", rd.pointclouds(), rd.images(), rd.guid(), rd.xml(), rd.header(), rd.extensions(), rd.creation(), rd.coordinate_metadata(), rd.format_name(), rd.library_version());
    let (results, _) = fresh_results(&bytes, &ops)?;
    let raw_xml = E57Reader::raw_xml(Dev::new(bytes.clone())).map_err(|e| crate::harness::err_string(&e))?;
    Ok(Done { bytes, ops, results, blobs, desc, raw_xml })
}

/// `second`: operations executed after the first finalize, followed by a second finalize
fn complete(p: &Program, second: Option<&Vec<Op>>) -> Result<Complete, String> {
    let dev = Dev::empty();
    dev.with(|s| s.log_on = true);
    let h = dev.handle();
    let mut f = usize::MAX;
    let mut snaps: Vec<Vec<u8>> = Vec::new();
    let r = guarded(|| -> Result<(), String> {
        let mut w = e57::E57Writer::new(dev, &p.guid).map_err(|e| crate::harness::err_string(&e))?;
        exec_ops(&mut w, p)?;
        f = h.with(|s| s.log.iter().filter(|o| matches!(o, DevOp::Write { .. })).count());
        w.finalize().map_err(|e| crate::harness::err_string(&e))?;
        snaps.push(h.snapshot());
        if let Some(ops2) = second {
            let p2 = Program { guid: p.guid.clone(), ops: ops2.clone(), ..Default::default() };
            exec_ops(&mut w, &p2)?;
            w.finalize().map_err(|e| crate::harness::err_string(&e))?;
            snaps.push(h.snapshot());
        }
        Ok(())
    });
    match r {
        Ok(Ok(())) => {}
        Ok(Err(e)) => return Err(format!("program failed: {e}")),
        Err(pi) => return Err(format!("program panicked at {}: {}", pi.loc, pi.msg)),
    }
    let bytes = h.snapshot();
    let log: Vec<DevOp> = h.with(|s| s.log.clone()).into_iter().filter(|o| matches!(o, DevOp::Write { .. })).collect();
    let mut done = Vec::new();
    for s in snaps {
        done.push(done_from(s)?);
    }
    Ok(Complete { bytes, log, f, done })
}

/// execute the ops of a program on an existing writer (no finalize)
pub fn exec_ops(w: &mut e57::E57Writer<Dev>, p: &Program) -> Result<(), String> {
    use crate::conv::*;
    let es = |e: e57::Error| crate::harness::err_string(&e);
    for op in &p.ops {
        match op {
            Op::Ext(a, b) => w.register_extension(e57::Extension::new(a, b)).map_err(es)?,
            Op::ExtTry(a, b) => {
                let _ = w.register_extension(e57::Extension::new(a, b));
            }
            Op::Creation(c) => w.set_creation(c.as_ref().map(dt_to_e57)),
            Op::CoordMeta(c) => w.set_coordinate_metadata(c.clone()),
            Op::Blob(b) => {
                w.add_blob(&mut crate::dev::Src::new(b.clone())).map_err(es)?;
            }
            Op::BlobFail(b, k) => {
                let _ = w.add_blob(&mut crate::wprog::FailingSrc { data: b.clone(), pos: 0, fail_at: *k });
            }
            Op::Image(img) => {
                let mut iw = w.add_image(img.guid.as_deref().unwrap_or("")).map_err(es)?;
                for rep in [&img.visual, &img.projection].into_iter().flatten() {
                    let mut d = crate::dev::Src::new(rep.blob.data.clone());
                    let mut ms = rep.mask.as_ref().map(|m| crate::dev::Src::new(m.data.clone()));
                    let mask = ms.as_mut().map(|m| m as &mut dyn std::io::Read);
                    let (wd, ht) = (rep.width as u32, rep.height as u32);
                    match &rep.proj {
                        None => iw.add_visual_reference(fmt_to_e57(&rep.format), &mut d, e57::VisualReferenceImageProperties { width: wd, height: ht }, mask),
                        Some(m::ProjKind::Pinhole { focal, pw, ph, ppx, ppy }) => iw.add_pinhole(
                            fmt_to_e57(&rep.format),
                            &mut d,
                            e57::PinholeImageProperties { width: wd, height: ht, focal_length: *focal, pixel_width: *pw, pixel_height: *ph, principal_x: *ppx, principal_y: *ppy },
                            mask,
                        ),
                        Some(m::ProjKind::Spherical { pw, ph }) => iw.add_spherical(fmt_to_e57(&rep.format), &mut d, e57::SphericalImageProperties { width: wd, height: ht, pixel_width: *pw, pixel_height: *ph }, mask),
                        Some(m::ProjKind::Cylindrical { radius, ppy, pw, ph }) => iw.add_cylindrical(
                            fmt_to_e57(&rep.format),
                            &mut d,
                            e57::CylindricalImageProperties { width: wd, height: ht, radius: *radius, principal_y: *ppy, pixel_width: *pw, pixel_height: *ph },
                            mask,
                        ),
                    }
                    .map_err(es)?;
                }
                iw.finalize().map_err(es)?;
            }
            Op::Cloud(c) => {
                let mut pw = w.add_pointcloud(c.meta.guid.as_deref().unwrap_or(""), c.proto.iter().map(rec_to_e57).collect()).map_err(es)?;
                if let Some(cap) = c.cap {
                    pw.verif_set_max_points_per_packet(cap);
                }
                for pt in &c.points {
                    pw.add_point(pt.iter().map(val_to_e57).collect()).map_err(es)?;
                }
                if !c.abandon {
                    pw.finalize().map_err(es)?;
                }
            }
        }
    }
    Ok(())
}

/// Judge one device image against the completed file. `before_finalize`: the image stems from
/// a point before the first device write of the top-level finalize.
fn judge_image(c: &Complete, img: &[u8], before_finalize: bool, what: &dyn Fn() -> String) -> Option<(String, String)> {
    let mut r = match E57Reader::new(Dev::new(img.to_vec())) {
        Ok(r) => r,
        Err(_) => return None,
    };
    if before_finalize {
        return Some((format!("{P}/accepted-before-finalize"), format!("the reader accepts a device image from before the top-level finalize call: {}", what())));
    }
    let desc = format!("{:?}|{:?}|{}|{}|{:?}|{:?}|{:?}|{:?}|{:?}|{:?}", r.pointclouds(), r.images(), r.guid(), r.xml(), r.header(), r.extensions(), r.creation(), r.coordinate_metadata(), r.format_name(), r.library_version());
    let Some(d) = c.done.iter().find(|d| d.desc == desc) else {
        return Some((format!("{P}/accepted-image-lists-other-content"), format!("an accepted crash image lists other point clouds / images / XML than any completed file: {}", what())));
    };
    // an accepted file is completely on the device: every page inside the length announced by
    // its header is there and intact
    let hl = r.header().phys_length as usize;
    if hl > img.len() || hl % 1024 != 0 {
        return Some((format!("{P}/accepted-image-is-incomplete/length"), format!("an accepted crash image announces a length of {hl} bytes but the device holds {}: {}", img.len(), what())));
    }
    for pg in 0..hl / 1024 {
        let page = &img[pg * 1024..pg * 1024 + 1024];
        if e57spec::crc::crc32c_fast(&page[..1020]).to_be_bytes() != page[1020..] {
            return Some((format!("{P}/accepted-image-is-incomplete/torn-page"), format!("an accepted crash image contains the torn page {pg} inside the {hl} bytes announced by its header: {}", what())));
        }
    }
    // the static entry points: error or the completed file's result
    if let Ok(x) = E57Reader::raw_xml(Dev::new(img.to_vec())) {
        if x != d.raw_xml {
            return Some((format!("{P}/partial-data-presented/raw_xml"), format!("raw_xml on an accepted crash image returns other bytes than on the completed file: {}", what())));
        }
    }
    // every operation, forwards and then backwards on the same reader
    let order: Vec<usize> = (0..d.ops.len()).chain((0..d.ops.len()).rev()).collect();
    for i in order {
        let op = &d.ops[i];
        let out = exec(&mut r, op, &d.blobs);
        if out.is_ok() && out != d.results[i] {
            return Some((
                format!("{P}/partial-data-presented/{}", op.name().split('(').next().unwrap_or("")),
                format!("on an accepted crash image {} returned {} but the completed file gives {}: {}", op.name(), out.short(), d.results[i].short(), what()),
            ));
        }
    }
    None
}

/// every prefix k of the device write log x every byte cut c of write k
pub fn crash(ctx: &Ctx) {
    // optionally: a second top-level finalize after more changes (on programs one level shallower)
    let re = ctx.pick("refinalize", 3);
    let mut p = program_d(ctx, re != 0);
    let second: Option<Vec<Op>> = match re {
        0 => None,
        1 => {
            // metadata changes of unchanged serialized length; a filler moves the XML start
            let filler = 51 * ctx.pick("xml-shift", 5);
            p.ops.insert(0, Op::Blob(pattern(77, 4 * filler)));
            p.ops.push(Op::CoordMeta(Some("CRS-AAAA".into())));
            p.ops.push(Op::Creation(Some(m::DateTime { gps: 1111.5, atomic: true })));
            Some(vec![Op::CoordMeta(Some("CRS-BBBB".into())), Op::Creation(Some(m::DateTime { gps: 2222.5, atomic: true }))])
        }
        _ => Some(vec![Op::Blob(pattern(78, 33)), Op::Cloud(cloud(xyz(F32), 3, 11)), Op::CoordMeta(Some("second".into()))]),
    };
    let c = match complete(&p, second.as_ref()) {
        Ok(c) => c,
        Err(e) => {
            ctx.violation(format!("{P}/program-failed"), format!("{e}; program {}", describe(&p)));
            return;
        }
    };
    let nw = c.log.len();
    // one case per write index (spreads the work); k = nw means "all writes applied"
    let k = ctx.pick("crash-at-write", nw.max(1));
    if nw == 0 {
        return;
    }
    ctx.describe(|| format!("{}{}: {} device writes (first finalize starts at write {}), crash inside write {k}: every cut 0..=len", describe(&p), second.as_ref().map(|o| format!("; then {}; finalize()", o.iter().map(describe_op).collect::<Vec<_>>().join("; "))).unwrap_or_default(), nw, c.f));
    // image before write k
    let mut base: Vec<u8> = Vec::new();
    for o in &c.log[..k] {
        if let DevOp::Write { pos, data } = o {
            let e = *pos as usize + data.len();
            if base.len() < e {
                base.resize(e, 0);
            }
            base[*pos as usize..e].copy_from_slice(data);
        }
    }
    let DevOp::Write { pos, data } = &c.log[k] else { return };
    let mut seen = std::collections::HashSet::new();
    let mut accepted = 0u64;
    for cut in 0..=data.len() {
        let mut img = base.clone();
        let e = *pos as usize + cut;
        if img.len() < e {
            img.resize(e, 0);
        }
        img[*pos as usize..e].copy_from_slice(&data[..cut]);
        ctx.evals(1);
        if !seen.insert(explore::fnv(&img)) {
            continue;
        }
        // an image is "from before finalize" when the crash happens before write f completes its first byte
        let before = k < c.f || (k == c.f && cut == 0);
        let complete_img = img == c.bytes || c.done.iter().any(|d| d.bytes == img);
        let what = || format!("writes 0..{k} applied and the first {cut} of {} bytes of write {k} (at device offset {pos}); program {}", data.len(), describe(&p));
        match guarded(|| judge_image(&c, &img, before && !complete_img, &what)) {
            Err(pi) => {
                ctx.violation(format!("{P}/panic/{}", pi.class()), format!("reader panicked at {} ({}) on crash image: {}", pi.loc, pi.msg, what()));
                return;
            }
            Ok(Some((sig, d))) => {
                ctx.violation(sig, d);
                return;
            }
            Ok(None) => {
                if E57Reader::new(Dev::new(img.clone())).is_ok() {
                    accepted += 1;
                }
            }
        }
    }
    ctx.count_n("crash-images:accepted", accepted);
    ctx.count_n("crash-images:distinct", seen.len() as u64);
    if k >= c.f {
        ctx.count("crash-position:inside-finalize");
    } else {
        ctx.count("crash-position:before-finalize");
    }
    ctx.ops(seen.len() as u64);
    ctx.observe_u64(explore::fnv(&c.bytes) ^ k as u64);
    ctx.nontrivial();
}

/// writers dropped without the top-level finalize after every API position
pub fn dropped(ctx: &Ctx) {
    let full = program(ctx);
    let n = ctx.pick("ops-before-drop", full.ops.len() + 1);
    let abandon_last = ctx.pick("abandon-last-cloud", 2) == 1;
    let mut p = full.clone();
    p.ops.truncate(n);
    p.no_finalize = true;
    if abandon_last {
        if let Some(Op::Cloud(c)) = p.ops.last_mut() {
            c.abandon = true;
        }
    }
    ctx.describe(|| describe(&p));
    let dev = Dev::empty();
    let h = dev.handle();
    let r = run_program(dev, &p, &ExecOpts::default());
    if let Some((_, pi)) = &r.panic {
        ctx.violation(format!("{P}/panic/{}", pi.class()), format!("writer panicked at {} ({}): {}", pi.loc, pi.msg, describe(&p)));
        return;
    }
    let img = h.snapshot();
    ctx.ops(r.api_calls);
    match guarded(|| E57Reader::new(Dev::new(img.clone())).is_ok()) {
        Err(pi) => ctx.violation(format!("{P}/panic/{}", pi.class()), format!("reader panicked at {} ({}) on the image left by: {}", pi.loc, pi.msg, describe(&p))),
        Ok(true) => ctx.violation(format!("{P}/accepted-without-finalize"), format!("the reader accepts what is on the device after the writer was dropped without finalize: {}", describe(&p))),
        Ok(false) => {
            ctx.observe(&img);
            ctx.nontrivial();
        }
    }
}

/// a device that still holds an older complete file: either the writer refuses to start (device
/// untouched), or - if it starts - what is on the device before its own finalize is rejected
pub fn stale_device(ctx: &Ctx) {
    let k = ctx.pick("old-file", N_SPECIAL);
    let at_end = ctx.pick("handle-position", 2) == 1;
    let steps = ctx.pick("calls-before-the-crash", 3); // 0: only new, 1: + add_pointcloud, 2: + 3 points (no finalize)
    let old = {
        let dev = Dev::empty();
        let h = dev.handle();
        let r = run_program(dev, &special(k), &ExecOpts::default());
        if r.err.is_some() || r.panic.is_some() {
            return;
        }
        h.snapshot()
    };
    ctx.describe(|| format!("device holds the complete file of shape {k} ({} bytes), handle at the {}; E57Writer::new + {steps} further steps, then the process dies", old.len(), if at_end { "end" } else { "start" }));
    let res = guarded(|| {
        let mut dev = Dev::new(old.clone());
        if at_end {
            use std::io::Seek;
            let _ = dev.seek(std::io::SeekFrom::End(0));
        }
        let h = dev.handle();
        let started = match e57::E57Writer::new(dev, "new-file") {
            Err(_) => false,
            Ok(mut w) => {
                if steps >= 1 {
                    if let Ok(mut pw) = w.add_pointcloud("new-pc", xyz(F32).iter().map(crate::conv::rec_to_e57).collect()) {
                        if steps >= 2 {
                            for i in 0..3 {
                                let _ = pw.add_point(vec![e57::RecordValue::Single(i as f32), e57::RecordValue::Single(1.0), e57::RecordValue::Single(2.0)]);
                            }
                        }
                        std::mem::forget(pw);
                    }
                }
                // the process dies: nothing is dropped or flushed any more
                std::mem::forget(w);
                true
            }
        };
        (started, h.snapshot())
    });
    match res {
        Err(pi) => ctx.violation(format!("{P}/panic/{}", pi.class()), format!("writer panicked at {} ({})", pi.loc, pi.msg)),
        Ok((false, img)) => {
            if img != old {
                ctx.violation(format!("{P}/refused-start-modified-device"), "E57Writer::new returned Err on a non-empty device but modified it".to_string());
                return;
            }
            ctx.count("stale-device:writer-refused");
            ctx.observe_u64((k * 100 + at_end as usize * 10 + steps) as u64);
            ctx.nontrivial();
        }
        Ok((true, img)) => {
            if let Ok(Ok(r)) = guarded(|| E57Reader::new(Dev::new(img.clone()))) {
                ctx.violation(
                    format!("{P}/accepted-before-finalize/stale-device"),
                    format!("the writer started on a device holding an old complete file; before its finalize the reader accepts the device and lists {:?} (the old content)", r.pointclouds().iter().map(|p| p.guid.clone()).collect::<Vec<_>>()),
                );
                return;
            }
            ctx.count("stale-device:writer-started-image-rejected");
            ctx.observe_u64((k * 100 + at_end as usize * 10 + steps) as u64 + 5000);
            ctx.nontrivial();
        }
    }
}
