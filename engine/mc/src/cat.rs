//! Finite catalogues (ordered simplest-first): data types, values per type, strings, prototypes.

use e57spec::model::{Rec, Ty, Val};

pub fn int_ranges() -> Vec<(i64, i64)> {
    let mut v = vec![(0, 0), (7, 7), (0, 1), (0, 2), (0, 255), (0, 2047), (-5, 5)];
    for k in 1..=63u32 {
        let p = 1i128 << k;
        v.push((0, (p - 1) as i64));
        if k < 63 {
            v.push((0, p as i64));
        }
        v.push(((-(p / 2)) as i64, (p / 2 - 1) as i64));
    }
    v.push((i64::MIN, i64::MAX));
    v.push((i64::MIN, -1));
    v.push((1, i64::MAX));
    v.push((-1, i64::MAX));
    v.dedup();
    v
}

pub const SCALES: [(f64, f64); 4] = [(1.0, 0.0), (0.001, 0.0), (2.1, 100.2), (-0.5, 3.0)];

/// The full type catalogue T of DESIGN §4.3.
pub fn types() -> Vec<Ty> {
    let mut t = vec![
        Ty::F32 { min: None, max: None },
        Ty::F64 { min: None, max: None },
        Ty::F32 { min: Some(0.0), max: Some(1.0) },
        Ty::F64 { min: Some(-1.0), max: Some(1.0) },
        // float limits given on one side only
        Ty::F32 { min: None, max: Some(5.5) },
        Ty::F32 { min: Some(-0.25), max: None },
        Ty::F64 { min: None, max: Some(1e300) },
        Ty::F64 { min: Some(f64::MIN_POSITIVE), max: None },
    ];
    for (a, b) in int_ranges() {
        t.push(Ty::Int { min: a, max: b });
    }
    for (i, (a, b)) in int_ranges().into_iter().enumerate() {
        let (s, o) = SCALES[i % 4];
        t.push(Ty::Scaled { min: a, max: b, scale: s, offset: o });
    }
    // offsets and scales whose sign or last digit is easily lost
    t.push(Ty::Scaled { min: -5, max: 5, scale: 0.5, offset: -0.0 });
    t.push(Ty::Scaled { min: 0, max: 9, scale: 0.1 + 0.2, offset: 1.0 / 3.0 });
    t.push(Ty::Scaled { min: 0, max: 9, scale: 5e-324, offset: -1.7976931348623157e308 });
    t
}

/// A small representative subset (one per kind and width class).
pub fn types_small() -> Vec<Ty> {
    vec![
        Ty::F32 { min: None, max: None },
        Ty::F64 { min: None, max: None },
        Ty::Int { min: 0, max: 0 },
        Ty::Int { min: 0, max: 1 },
        Ty::Int { min: -5, max: 5 },
        Ty::Int { min: 0, max: 2047 },
        Ty::Scaled { min: -1000, max: 100000, scale: 0.001, offset: 0.0 },
        Ty::Int { min: 0, max: (1i64 << 33) - 1 },
        Ty::Int { min: i64::MIN, max: i64::MAX },
        Ty::Scaled { min: 7, max: 7, scale: 2.1, offset: 100.2 },
        // offsets and scales whose sign or last digit is easily lost
        Ty::Scaled { min: -5, max: 5, scale: 0.5, offset: -0.0 },
        Ty::Scaled { min: 0, max: 9, scale: 0.1 + 0.2, offset: 1.0 / 3.0 },
        Ty::Scaled { min: 0, max: 9, scale: 5e-324, offset: -1.7976931348623157e308 },
    ]
}

fn f32_specials() -> Vec<f32> {
    vec![
        0.0,
        -0.0,
        1.0,
        -1.0,
        0.5,
        f32::MIN_POSITIVE,
        -f32::MIN_POSITIVE,
        f32::from_bits(1),
        f32::MAX,
        f32::MIN,
        f32::INFINITY,
        f32::NEG_INFINITY,
        f32::NAN,
        f32::from_bits(0x7fc0_0001),
        3.141_592_7,
        -123456.79,
    ]
}
fn f64_specials() -> Vec<f64> {
    vec![
        0.0,
        -0.0,
        1.0,
        -1.0,
        0.5,
        f64::MIN_POSITIVE,
        -f64::MIN_POSITIVE,
        f64::from_bits(1),
        f64::MAX,
        f64::MIN,
        f64::INFINITY,
        f64::NEG_INFINITY,
        f64::NAN,
        f64::from_bits(0x7ff8_0000_0000_0001),
        std::f64::consts::PI,
        -123456.789012345,
    ]
}

/// mini-float lattice: every sign x exponent x 3-bit mantissa pattern
pub fn f32_lattice() -> Vec<f32> {
    let mut v = Vec::with_capacity(4096);
    for s in 0..2u32 {
        for e in 0..256u32 {
            for mnt in 0..8u32 {
                v.push(f32::from_bits((s << 31) | (e << 23) | (mnt << 20)));
            }
        }
    }
    v
}
pub fn f64_lattice() -> Vec<f64> {
    let mut v = Vec::with_capacity(32768);
    for s in 0..2u64 {
        for e in 0..2048u64 {
            for mnt in 0..8u64 {
                v.push(f64::from_bits((s << 63) | (e << 52) | (mnt << 49)));
            }
        }
    }
    v
}

/// in-range integer values for a range: boundaries, mid, walking single bits and all-but-one-bit
/// patterns of (value - min) for every bit below the width.
pub fn int_values(min: i64, max: i64) -> Vec<i64> {
    if max < min {
        return vec![min];
    }
    let w = e57spec::bits::width(min, max);
    let range = (max as i128 - min as i128) as u128;
    let mut offs: Vec<u128> = vec![0, range, 1.min(range), range.saturating_sub(1), range / 2];
    for b in 0..w {
        let one = 1u128 << b;
        if one <= range {
            offs.push(one);
        }
        let all = if w == 128 { u128::MAX } else { (1u128 << w) - 1 };
        let abo = all & !one;
        if abo <= range {
            offs.push(abo);
        }
        // alternating patterns
        let alt = 0x5555_5555_5555_5555_5555u128 & all;
        if alt <= range {
            offs.push(alt);
        }
    }
    let mut out: Vec<i64> = offs.into_iter().map(|o| (min as i128 + o as i128) as i64).collect();
    let mut seen = std::collections::BTreeSet::new();
    out.retain(|v| seen.insert(*v));
    out
}

pub fn values_for(ty: &Ty) -> Vec<Val> {
    match ty {
        Ty::F32 { .. } => f32_specials().into_iter().map(Val::F32).collect(),
        Ty::F64 { .. } => f64_specials().into_iter().map(Val::F64).collect(),
        Ty::Int { min, max } => int_values(*min, *max).into_iter().map(Val::Int).collect(),
        Ty::Scaled { min, max, .. } => int_values(*min, *max).into_iter().map(Val::Scaled).collect(),
    }
}

fn gcd(a: usize, b: usize) -> usize {
    if b == 0 {
        a
    } else {
        gcd(b, a % b)
    }
}

/// n values cycling through the catalogue with a stride coprime to its length (so that all
/// adjacent pairs eventually occur); `salt` varies the start.
pub fn stream(ty: &Ty, n: usize, salt: usize) -> Vec<Val> {
    let vals = values_for(ty);
    let l = vals.len();
    let mut stride = 1 + salt % l.max(1);
    while gcd(stride, l) != 1 {
        stride += 1;
    }
    (0..n).map(|i| vals[(salt + i * stride) % l]).collect()
}

pub fn rec(name: &str, ty: Ty) -> Rec {
    Rec { ns: None, name: name.to_string(), ty }
}
pub fn ext_rec(ns: &str, name: &str, ty: Ty) -> Rec {
    Rec { ns: Some(ns.to_string()), name: name.to_string(), ty }
}

pub const F32: Ty = Ty::F32 { min: None, max: None };
pub const F64: Ty = Ty::F64 { min: None, max: None };

pub fn xyz(ty: Ty) -> Vec<Rec> {
    vec![rec("cartesianX", ty.clone()), rec("cartesianY", ty.clone()), rec("cartesianZ", ty)]
}

/// Named prototypes used by several spaces (all valid by the writer's documented rules).
pub fn prototypes() -> Vec<(&'static str, Vec<Rec>)> {
    let st = |n: &str, max: i64| rec(n, Ty::Int { min: 0, max });
    let mut v: Vec<(&'static str, Vec<Rec>)> = Vec::new();
    v.push(("xyz-f32", xyz(F32)));
    v.push(("xyz-f64", xyz(F64)));
    let mut p = xyz(F32);
    p.push(rec("intensity", Ty::Scaled { min: 0, max: 2047, scale: 0.001, offset: 0.0 }));
    v.push(("xyz-f32+i11", p));
    let mut p = xyz(Ty::Scaled { min: -(1 << 18), max: (1 << 18) - 1, scale: 0.001, offset: 0.0 });
    p.push(st("cartesianInvalidState", 2));
    p.push(rec("colorRed", Ty::Int { min: 0, max: 255 }));
    p.push(rec("colorGreen", Ty::Int { min: 0, max: 255 }));
    p.push(rec("colorBlue", Ty::Int { min: 0, max: 255 }));
    p.push(st("isColorInvalid", 1));
    v.push(("xyz-i19+state+rgb8+flag", p));
    let mut p = vec![
        rec("sphericalRange", F64),
        rec("sphericalAzimuth", F32),
        rec("sphericalElevation", Ty::Scaled { min: -1571, max: 1571, scale: 0.001, offset: 0.0 }),
        st("sphericalInvalidState", 2),
    ];
    p.push(rec("rowIndex", Ty::Int { min: 0, max: 1000 }));
    p.push(rec("columnIndex", Ty::Int { min: -3, max: 3 }));
    p.push(rec("returnCount", Ty::Int { min: 1, max: 4 }));
    p.push(rec("returnIndex", Ty::Int { min: 0, max: 3 }));
    p.push(rec("timeStamp", F64));
    p.push(st("isTimeStampInvalid", 1));
    v.push(("spherical+idx+ret+time", p));
    let mut p = xyz(F32);
    p.push(rec("intensity", Ty::Int { min: 5, max: 5 }));
    p.push(rec("rowIndex", Ty::Int { min: 0, max: 0 }));
    p.push(rec("columnIndex", Ty::Int { min: -9, max: -9 }));
    p.push(rec("isIntensityInvalid", Ty::Int { min: 0, max: 1 }));
    v.push(("xyz-f32+3zero+1bit", p));
    let mut p = xyz(Ty::Int { min: i64::MIN, max: i64::MAX });
    p.push(rec("timeStamp", Ty::Int { min: 0, max: i64::MAX }));
    v.push(("xyz-i64full+t63", p));
    let mut p = xyz(Ty::Int { min: 0, max: (1 << 19) - 1 });
    p.push(rec("intensity", F32));
    v.push(("xyz-i19+if32", p));
    v
}

/// point values for a prototype: record k of point i comes from the value catalogue of its
/// type, each record with a different salt
pub fn points_for(proto: &[Rec], n: usize, salt: usize) -> Vec<Vec<Val>> {
    let cols: Vec<Vec<Val>> = proto.iter().enumerate().map(|(k, r)| stream(&r.ty, n, salt + 3 * k + 1)).collect();
    (0..n).map(|i| cols.iter().map(|c| c[i]).collect()).collect()
}

// ------------------------------------------------------------------------------------------
// strings

pub const STR_ALPHABET: [&str; 12] = ["a", "<", ">", "&", "]", "\"", "'", " ", "\n", "\t", "\u{e9}", "\u{10000}"];

/// every string of length <= 3 over the alphabet, plus hand-listed long ones
pub fn strings() -> Vec<String> {
    let mut v = vec![String::new()];
    for a in STR_ALPHABET {
        v.push(a.to_string());
    }
    for a in STR_ALPHABET {
        for b in STR_ALPHABET {
            v.push(format!("{a}{b}"));
        }
    }
    for a in STR_ALPHABET {
        for b in STR_ALPHABET {
            for c in STR_ALPHABET {
                v.push(format!("{a}{b}{c}"));
            }
        }
    }
    v.extend(
        [
            "]]]]>>",
            "<![CDATA[x]]>",
            "x]]>y]]>z",
            "&lt;&amp;&#65;",
            "</guid>",
            "<!-- c -->",
            "<?pi?>",
            "  leading and trailing  ",
            "\n\n",
            "{00000000-0000-0000-0000-000000000000}",
            "PROJCS[\"WGS 84 / UTM zone 32N\",GEOGCS[\"WGS 84\"]]",
            "\u{4e2d}\u{6587}\u{1F600} mixed",
            "a\u{0301}",
            "\u{fffd}\u{d7ff}\u{e000}",
            "]]",
            "]>",
            "]]&gt;",
            "1e308",
            "NaN",
            // carriage returns (stored as character references since repair #33)
            "a\rb",
            "\r\n",
            "\r",
            "line\r\nline]]>\r",
            // the edges of what XML 1.0 can carry: first and last code point of every range of the
            // Char production, noncharacters that are nevertheless legal XML (U+FDD0, U+nFFFE,
            // U+nFFFF on the astral planes) and the last code point of all
            "\u{20}\u{d7ff}\u{e000}\u{fffd}\u{10000}\u{10ffff}",
            "\u{fdd0}\u{fdef}",
            "\u{1fffe}\u{1ffff}",
            "\u{10fffe}",
            "\u{7f}\u{80}\u{85}\u{9f}\u{a0}\u{2028}\u{2029}\u{feff}",
        ]
        .iter()
        .map(|s| s.to_string()),
    );
    v.push("]".repeat(4096));
    // many unclosed tag-like sequences (nothing a CDATA section cannot carry)
    v.push("<br>".repeat(300));
    v.push("<a ".repeat(400));
    v.push("<x><y>".repeat(150) + "</y>");
    v
}

/// Prototype built from attribute groups. `coords`: 0 cartesian, 1 spherical, 2 both.
/// mask bits: 0 cartesian state, 1 spherical state, 2 colour, 3 colour flag, 4 intensity,
/// 5 intensity flag, 6 row+column, 7 return count+index, 8 time stamp, 9 time stamp flag
pub const N_GROUP_BITS: usize = 10;
pub fn group_proto(coords: usize, mask: usize) -> Vec<Rec> {
    let st = |n: &str, max: i64| rec(n, Ty::Int { min: 0, max });
    let mut p = Vec::new();
    if coords != 1 {
        p.extend(xyz(F32));
        if mask & 1 != 0 {
            p.push(st("cartesianInvalidState", 2));
        }
    }
    if coords != 0 {
        p.push(rec("sphericalRange", F64));
        p.push(rec("sphericalAzimuth", F64));
        p.push(rec("sphericalElevation", F32));
        if mask & 2 != 0 {
            p.push(st("sphericalInvalidState", 2));
        }
    }
    if mask & 4 != 0 {
        p.push(rec("colorRed", Ty::Int { min: 0, max: 255 }));
        p.push(rec("colorGreen", Ty::Int { min: 0, max: 1023 }));
        p.push(rec("colorBlue", Ty::F32 { min: Some(0.0), max: Some(1.0) }));
        if mask & 8 != 0 {
            p.push(st("isColorInvalid", 1));
        }
    }
    if mask & 16 != 0 {
        p.push(rec("intensity", Ty::Scaled { min: 0, max: 4095, scale: 0.25, offset: 0.0 }));
        if mask & 32 != 0 {
            p.push(st("isIntensityInvalid", 1));
        }
    }
    if mask & 64 != 0 {
        p.push(rec("rowIndex", Ty::Int { min: 0, max: 4000 }));
        p.push(rec("columnIndex", Ty::Int { min: -8, max: 8 }));
    }
    if mask & 128 != 0 {
        p.push(rec("returnCount", Ty::Int { min: 1, max: 5 }));
        p.push(rec("returnIndex", Ty::Int { min: 0, max: 4 }));
    }
    if mask & 256 != 0 {
        p.push(rec("timeStamp", F64));
        if mask & 512 != 0 {
            p.push(st("isTimeStampInvalid", 1));
        }
    }
    p
}
/// is the mask meaningful (flags need their base attribute, states their coordinates)?
pub fn group_mask_valid(coords: usize, mask: usize) -> bool {
    let dep = |flag: usize, base: usize| mask & flag == 0 || mask & base != 0;
    dep(8, 4) && dep(32, 16) && dep(512, 256) && (mask & 1 == 0 || coords != 1) && (mask & 2 == 0 || coords != 0)
}


/// Pose catalogue: 5 unit rotations (identity, about each axis, general) x every zero / non-zero
/// pattern of the translation, plus negative zeros: a member that is left out, swapped or tested
/// in place of another one shows for at least one of them.
pub fn poses() -> Vec<e57spec::model::Pose> {
    let h = std::f64::consts::FRAC_1_SQRT_2;
    let rots = [[1.0, 0.0, 0.0, 0.0], [h, h, 0.0, 0.0], [h, 0.0, h, 0.0], [h, 0.0, 0.0, h], [0.5, 0.5, -0.5, 0.5]];
    let mut v = Vec::new();
    for rot in rots {
        for mask in 0..8 {
            let t = [if mask & 1 != 0 { 1.5 } else { 0.0 }, if mask & 2 != 0 { -2.25 } else { 0.0 }, if mask & 4 != 0 { 3.125 } else { 0.0 }];
            v.push(e57spec::model::Pose { rot, trans: t });
        }
    }
    v.push(e57spec::model::Pose { rot: [1.0, -0.0, 0.0, -0.0], trans: [-0.0, 0.0, -0.0] });
    v.push(e57spec::model::Pose { rot: [0.0, 0.0, 0.0, 1.0], trans: [1e-300, -1e300, 5e-324] });
    v
}
