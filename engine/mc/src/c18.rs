//! C18 — unknown extension content never alters standard content.

use crate::alpha::*;
use crate::cat::{self, ext_rec, rec, F32};
use crate::dev::Dev;
use crate::harness::{err_string, guarded};
use crate::oracle::*;
use crate::rops::*;
use crate::wprog::*;
use e57::E57Reader;
use e57spec::encode::{encode, Canonical, Knobs};
use e57spec::model as m;
use e57spec::page;
use explore::Ctx;

const P: &str = "C18";

/// every standard local name the reader searches for, plus one name unknown to the format
pub const NAMES: [&str; 88] = [
    "acquisitionDateTime",
    "acquisitionEnd",
    "acquisitionStart",
    "associatedData3DGuid",
    "atmosphericPressure",
    "azimuthEnd",
    "azimuthStart",
    "cartesianBounds",
    "colorBlueMaximum",
    "colorBlueMinimum",
    "colorGreenMaximum",
    "colorGreenMinimum",
    "colorLimits",
    "colorRedMaximum",
    "colorRedMinimum",
    "columnMaximum",
    "columnMinimum",
    "coordinateMetadata",
    "creationDateTime",
    "cylindricalRepresentation",
    "data3D",
    "dateTimeValue",
    "description",
    "e57LibraryVersion",
    "e57Root",
    "elevationMaximum",
    "elevationMinimum",
    "focalLength",
    "formatName",
    "guid",
    "imageHeight",
    "imageMask",
    "imageWidth",
    "images2D",
    "indexBounds",
    "intensityLimits",
    "intensityMaximum",
    "intensityMinimum",
    "isAtomicClockReferenced",
    "jpegImage",
    "name",
    "originalGuids",
    "pinholeRepresentation",
    "pixelHeight",
    "pixelWidth",
    "pngImage",
    "points",
    "pose",
    "principalPointX",
    "principalPointY",
    "prototype",
    "radius",
    "rangeMaximum",
    "rangeMinimum",
    "relativeHumidity",
    "returnMaximum",
    "returnMinimum",
    "rotation",
    "rowMaximum",
    "rowMinimum",
    "sensorFirmwareVersion",
    "sensorHardwareVersion",
    "sensorModel",
    "sensorSerialNumber",
    "sensorSoftwareVersion",
    "sensorVendor",
    "sphericalBounds",
    "sphericalRepresentation",
    "temperature",
    "translation",
    "vectorChild",
    "versionMajor",
    "versionMinor",
    "visualReferenceRepresentation",
    "w",
    "x",
    "xMaximum",
    "xMinimum",
    "y",
    "yMaximum",
    "yMinimum",
    "z",
    "zMaximum",
    "zMinimum",
    "cartesianX",
    "intensity",
    "codecs",
    "totallyUnknownName",
];

const VX: &str = "xmlns:vx=\"http://example.com/vendor-extension\"";

pub const N_BASES: usize = 6;

/// base files: 3 written by the real writer, 3 by the independent encoder
pub fn base(k: usize) -> Vec<u8> {
    match k {
        0 => {
            // every metadata field present, cylindrical image
            let vals_all = |_: usize| true;
            let p = crate::c04::build_public(&vals_all, 3);
            written(&p)
        }
        1 => {
            let protos = cat::prototypes();
            let mut pr = cat::xyz(F32);
            pr.push(ext_rec("ext", "classification", m::Ty::Int { min: 0, max: 31 }));
            pr.push(rec("intensity", m::Ty::Int { min: 0, max: 255 }));
            let p = Program {
                guid: "g".into(),
                ops: vec![
                    Op::Ext("ext".into(), "http://example.com/ext".into()),
                    Op::Cloud(cloud(pr, 4, 1)),
                    Op::Image(image(4, true, 30, 2)),
                    Op::Cloud(cloud(protos[4].1.clone(), 3, 3)),
                    Op::Image(image(2, true, 10, 4)),
                ],
                xml_mode: 2,
                ..Default::default()
            };
            written(&p)
        }
        2 => {
            let p = Program { guid: "g".into(), ops: vec![Op::Image(image(0, true, 12, 5)), Op::Image(image(1, false, 8, 6))], ..Default::default() };
            written(&p)
        }
        3 => encode(&crate::scenes::scene(6), &mut Canonical, Knobs::NONE).bytes,
        4 => encode(&crate::scenes::scene(5), &mut Canonical, Knobs::NONE).bytes,
        5 => encode(&crate::scenes::scene(3), &mut Canonical, Knobs::NONE).bytes,
        // thorough tier: every scene of the catalogue
        k => encode(&crate::scenes::scene((k - N_BASES) % crate::scenes::N_SCENES), &mut Canonical, Knobs::NONE).bytes,
    }
}

fn written(p: &Program) -> Vec<u8> {
    let dev = Dev::empty();
    let h = dev.handle();
    let _ = run_program(dev, p, &ExecOpts::default());
    h.snapshot()
}

/// what the reader reports about the standard content of a file
pub fn report(bytes: &[u8]) -> Result<Vec<String>, String> {
    let mut r = E57Reader::new(Dev::new(bytes.to_vec())).map_err(|e| err_string(&e))?;
    let mut out = vec![
        format!("guid={:?}", r.guid()),
        format!("format={:?}", r.format_name()),
        format!("library={:?}", r.library_version()),
        format!("creation={:?}", r.creation()),
        format!("coordinate_metadata={:?}", r.coordinate_metadata()),
        format!("extensions={:?}", r.extensions()),
    ];
    for (i, pc) in r.pointclouds().iter().enumerate() {
        out.push(format!("cloud[{i}]={pc:?}"));
    }
    for (i, img) in r.images().iter().enumerate() {
        out.push(format!("image[{i}]={img:?}"));
    }
    let blobs = blob_list(&r);
    let ops = alphabet(r.pointclouds().len(), blobs.len());
    for op in &ops {
        if matches!(op, ROp::Xml | ROp::Pointclouds | ROp::Images | ROp::BogusBlob) {
            continue;
        }
        if let ROp::Raw(_, t) | ROp::Simple(_, t) = op {
            if *t != usize::MAX {
                continue;
            }
        }
        out.push(format!("{}={}", op.name(), exec(&mut r, op, &blobs).short()));
    }
    Ok(out)
}

pub struct Doc {
    pub bytes: Vec<u8>,
    pub xml: String,
    xs: usize,
    xe: usize,
    log: Vec<u8>,
    /// (element local name, offset) insertion points for child content
    pub child_positions: Vec<(String, usize)>,
    /// (element local name, offset of the end of the start tag) for foreign attributes
    attr_positions: Vec<(String, usize)>,
}

pub fn doc(k: usize) -> Result<Doc, String> {
    let bytes = base(k);
    let h = e57spec::decode::read_header(&bytes)?;
    let (log, _) = page::unseal(&bytes)?;
    let xs = page::phys_to_log(h.xml_phys_offset).ok_or("xml offset")? as usize;
    let xe = xs + h.xml_length as usize;
    let xml = String::from_utf8(log[xs..xe].to_vec()).map_err(|e| e.to_string())?;
    let d = e57spec::xml::parse(&xml)?;
    let mut child_positions = Vec::new();
    let mut attr_positions = Vec::new();
    fn walk(xml: &str, e: &e57spec::xml::Elem, in_proto: bool, cp: &mut Vec<(String, usize)>, ap: &mut Vec<(String, usize)>) {
        if in_proto || e.local == "prototype" {
            return; // foreign children of a prototype are, by the format, additional point attributes
        }
        if e.ns == m::E57_NS {
            // a prefix used on the root element must be declared there, which (as documented)
            // lists it as an extension of the file: not a foreign attribute case
            if e.local != "e57Root" {
                // at the end of the start tag and directly behind the element name (before the
                // standard attributes)
                ap.push((e.local.clone(), e.open_end));
                let qlen = e.local.len() + if e.prefix.is_empty() { 0 } else { e.prefix.len() + 1 };
                ap.push((e.local.clone(), e.start + 1 + qlen));
            }
            let container = matches!(e.attr("type"), Some("Structure") | Some("Vector") | Some("CompressedVector"));
            if container && !e.self_closing {
                cp.push((e.local.clone(), e.open_end + 1));
                for c in e.child_elems() {
                    cp.push((e.local.clone(), c.end));
                }
            } else if !container && !e.self_closing {
                // scalar elements (String / Float / Integer): in front of and behind their own text
                cp.push((format!("{}#before-text", e.local), e.open_end + 1));
                let close = e.end - (e.local.len() + if e.prefix.is_empty() { 0 } else { e.prefix.len() + 1 } + 3);
                cp.push((format!("{}#after-text", e.local), close));
                // and in the middle of plain text (no references, CDATA or multi-byte characters)
                if let Some(t) = xml.get(e.open_end + 1..close) {
                    if t.len() >= 2 && t.is_ascii() && !t.contains('&') && !t.contains('<') {
                        cp.push((format!("{}#mid-text", e.local), e.open_end + 1 + t.len() / 2));
                    }
                }
            }
        }
        for c in e.child_elems() {
            walk(xml, c, false, cp, ap);
        }
    }
    walk(&xml, &d.root, false, &mut child_positions, &mut attr_positions);
    Ok(Doc { bytes, xml, xs, xe, log, child_positions, attr_positions })
}

pub fn rebuild(d: &Doc, new_xml: &str) -> Vec<u8> {
    let mut nl = d.log[..d.xs].to_vec();
    nl.extend_from_slice(new_xml.as_bytes());
    // the XML is the last section of every base file
    debug_assert!(d.log[d.xe..].iter().all(|b| *b == 0));
    let pages = (nl.len() + 1019) / 1020;
    nl[16..24].copy_from_slice(&((pages * 1024) as u64).to_le_bytes());
    nl[32..40].copy_from_slice(&(new_xml.len() as u64).to_le_bytes());
    page::seal(&nl)
}

pub fn shape(name: &str, s: usize) -> String {
    match s {
        0 => format!("<vx:{name} {VX}/>"),
        1 => format!("<vx:{name} {VX} type=\"Integer\">17</vx:{name}>"),
        2 => {
            // a plausible type with a different value
            let float_like = name.ends_with("imum") || name.ends_with("Start") || name.ends_with("End") || ["w", "x", "y", "z", "temperature", "relativeHumidity", "atmosphericPressure", "focalLength", "pixelWidth", "pixelHeight", "principalPointX", "principalPointY", "radius", "dateTimeValue"].contains(&name);
            let int_like = ["versionMajor", "versionMinor", "imageWidth", "imageHeight", "isAtomicClockReferenced"].contains(&name);
            let blob_like = ["jpegImage", "pngImage", "imageMask"].contains(&name);
            if float_like {
                format!("<vx:{name} {VX} type=\"Float\">-12345.5</vx:{name}>")
            } else if int_like {
                format!("<vx:{name} {VX} type=\"Integer\">77</vx:{name}>")
            } else if blob_like {
                format!("<vx:{name} {VX} type=\"Blob\" fileOffset=\"48\" length=\"1\"/>")
            } else if name == "points" {
                format!("<vx:{name} {VX} type=\"CompressedVector\" fileOffset=\"48\" recordCount=\"5\"><vx:prototype type=\"Structure\"/></vx:{name}>")
            } else if ["data3D", "images2D", "originalGuids"].contains(&name) {
                format!("<vx:{name} {VX} type=\"Vector\"><vx:vectorChild type=\"Structure\"><vx:guid type=\"String\">hijack</vx:guid></vx:vectorChild></vx:{name}>")
            } else if name.ends_with("Representation") || name.ends_with("Bounds") || name.ends_with("Limits") || ["pose", "rotation", "translation", "creationDateTime", "acquisitionStart", "acquisitionEnd", "acquisitionDateTime", "vectorChild", "prototype", "e57Root"].contains(&name) {
                format!("<vx:{name} {VX} type=\"Structure\"><vx:x type=\"Float\">9</vx:x><vx:w type=\"Float\">9</vx:w><vx:dateTimeValue type=\"Float\">9</vx:dateTimeValue><vx:isAtomicClockReferenced type=\"Integer\">1</vx:isAtomicClockReferenced></vx:{name}>")
            } else {
                format!("<vx:{name} {VX} type=\"String\"><![CDATA[hijacked]]></vx:{name}>")
            }
        }
        3 => format!("<vx:box {VX} type=\"Structure\"><vx:{name} type=\"String\">boxed</vx:{name}><vx:{name} type=\"Float\">2.5</vx:{name}></vx:box>"),
        // no prefix at all: the element moves itself (and everything inside it) into the foreign
        // namespace by declaring a new default namespace on its own start tag
        5 => shape(name, 2).replace("vx:", "").replacen(&format!(" {VX}"), " xmlns=\"http://example.com/vendor-extension\"", 1),
        // a foreign wrapper whose content uses unprefixed names: whatever is inside a foreign
        // element belongs to that extension and must be ignored together with it
        _ => {
            let inner = shape(name, 2).replace("vx:", "").replace(&format!(" {VX}"), "");
            format!("<vx:wrap {VX}>{inner}</vx:wrap>")
        }
    }
}

/// X1 elements: every insertion position x every standard local name x 6 shapes
pub fn elements(ctx: &Ctx) {
    let bk = ctx.pick("base-document", if ctx.tier_thorough { N_BASES + crate::scenes::N_SCENES } else { N_BASES });
    let d = match doc(bk) {
        Ok(d) => d,
        Err(e) => {
            ctx.violation(format!("{P}/base-document-unusable"), format!("base document {bk} (written by the real writer or encoded independently) cannot be prepared: {e}"));
            return;
        }
    };
    let base_report = match report(&d.bytes) {
        Ok(r) => r,
        Err(e) => {
            ctx.violation(format!("{P}/base-document-unusable"), format!("base document {bk} (written by the real writer or encoded independently) cannot be read: {e}"));
            return;
        }
    };
    let pi = ctx.pick("position", d.child_positions.len());
    let (parent, at) = d.child_positions[pi].clone();
    ctx.describe(|| format!("base document {bk}: foreign element inserted into <{parent}> at XML byte {at}: every name of the list x 6 shapes"));
    for (ni, name) in NAMES.iter().enumerate() {
        for s in 0..6 {
            ctx.evals(1);
            let ins = shape(name, s);
            let mut nx = String::with_capacity(d.xml.len() + ins.len());
            nx.push_str(&d.xml[..at]);
            nx.push_str(&ins);
            nx.push_str(&d.xml[at..]);
            if s == 0 && ni == 0 {
                if let Err(e) = e57spec::xml::parse(&nx) {
                    ctx.machinery_error(format!("harness produced malformed XML: {e}"));
                    return;
                }
            }
            let bytes = rebuild(&d, &nx);
            match guarded(|| report(&bytes)) {
                Err(pi) => {
                    ctx.violation(format!("{P}/panic/{}", pi.class()), format!("reader panicked at {} ({}) with {ins} inserted into <{parent}>", pi.loc, pi.msg));
                    return;
                }
                Ok(Err(e)) => {
                    ctx.violation(
                        format!("{P}/foreign-element-breaks-file/{parent}/{name}"),
                        format!("base document {bk}: with the foreign element {ins} inserted into <{parent}> (XML byte {at}) the file can no longer be opened: {e}"),
                    );
                    return;
                }
                Ok(Ok(rp)) => {
                    if rp != base_report {
                        let i = rp.iter().zip(base_report.iter()).position(|(a, b)| a != b);
                        let (a, b) = i.map(|i| (rp[i].clone(), base_report[i].clone())).unwrap_or_default();
                        ctx.violation(
                            format!("{P}/foreign-element-alters-report/{parent}/{name}"),
                            format!("base document {bk}: foreign element {ins} inserted into <{parent}> (XML byte {at}) changes what the reader reports: now {} | before {}", a.chars().take(300).collect::<String>(), b.chars().take(300).collect::<String>()),
                        );
                        return;
                    }
                }
            }
        }
    }
    ctx.ops((NAMES.len() * 6 * base_report.len()) as u64);
    ctx.count(format!("parent:{parent}"));
    ctx.observe_u64((bk * 100000 + pi) as u64);
    ctx.nontrivial();
}

const FATTRS: [&str; 6] = ["vx:type=\"Blob\"", "vx:fileOffset=\"48\"", "vx:recordCount=\"99\"", "vx:length=\"1\"", "vx:minimum=\"5\"", "vx:precision=\"single\""];

/// X1 attributes: foreign attributes on every standard element
pub fn attributes(ctx: &Ctx) {
    let bk = ctx.pick("base-document", if ctx.tier_thorough { N_BASES + crate::scenes::N_SCENES } else { N_BASES });
    let d = match doc(bk) {
        Ok(d) => d,
        Err(e) => {
            ctx.violation(format!("{P}/base-document-unusable"), format!("base document {bk} (written by the real writer or encoded independently) cannot be prepared: {e}"));
            return;
        }
    };
    let Ok(base_report) = report(&d.bytes) else { return };
    let pi = ctx.pick("element", d.attr_positions.len());
    let (el, at) = d.attr_positions[pi].clone();
    ctx.describe(|| format!("base document {bk}: foreign attributes on <{el}> (start tag ends at XML byte {at})"));
    for fa in FATTRS {
        ctx.evals(1);
        let ins = format!(" {VX} {fa}");
        let mut nx = String::new();
        nx.push_str(&d.xml[..at]);
        nx.push_str(&ins);
        nx.push_str(&d.xml[at..]);
        if let Err(e) = e57spec::xml::parse(&nx) {
            ctx.machinery_error(format!("harness produced malformed XML: {e}"));
            return;
        }
        let bytes = rebuild(&d, &nx);
        match guarded(|| report(&bytes)) {
            Err(pi) => {
                ctx.violation(format!("{P}/panic/{}", pi.class()), format!("reader panicked at {} ({}) with attribute {fa} on <{el}>", pi.loc, pi.msg));
                return;
            }
            Ok(Err(e)) => {
                ctx.violation(format!("{P}/foreign-attribute-breaks-file/{el}"), format!("base document {bk}: foreign attribute {fa} on <{el}> makes the file unreadable: {e}"));
                return;
            }
            Ok(Ok(rp)) => {
                if rp != base_report {
                    ctx.violation(format!("{P}/foreign-attribute-alters-report/{el}"), format!("base document {bk}: foreign attribute {fa} on <{el}> changes what the reader reports"));
                    return;
                }
            }
        }
    }
    ctx.observe_u64((bk * 100000 + pi) as u64);
    ctx.nontrivial();
}

const XNAMES: [&str; 15] = ["cartesianX", "intensity", "colorRed", "rowIndex", "timeStamp", "isColorInvalid", "a", "A1", "_x", "x-y", "nor-1", "Z_9", "-a", "1a", "9"];
const XSPACES: [&str; 8] = ["ext", "e57x", "A1", "_n", "x-y", "-n", "1n", "0"];

/// X2: extension attributes in a prototype: reported with prefix and name, values round-trip,
/// standard attributes of the same cloud unaffected
pub fn proto_extensions(ctx: &Ctx) {
    let ni = ctx.pick("extension-attribute-name", XNAMES.len());
    let si = ctx.pick("namespace-prefix", XSPACES.len());
    let pos = ctx.pick("position-in-prototype", 5);
    // 0 none, 1 a second attribute of the same extension, 2 a second attribute under ANOTHER prefix
    // that is bound to the same URL (both prefixes must be reported as written)
    let second = ctx.pick("second-extension-attribute", 3);
    let (name, ns) = (XNAMES[ni], XSPACES[si]);
    let mut proto = cat::xyz(F32);
    proto.push(rec("intensity", m::Ty::Int { min: 0, max: 255 }));
    proto.insert(pos.min(proto.len()), ext_rec(ns, name, m::Ty::Int { min: -7, max: 1000 }));
    let mut ops = vec![Op::Ext(ns.into(), format!("http://example.com/{ns}"))];
    match second {
        1 => proto.push(ext_rec(ns, "cartesianY", m::Ty::F64 { min: None, max: None })),
        2 => {
            ops.push(Op::Ext("alt".into(), format!("http://example.com/{ns}")));
            proto.push(ext_rec("alt", "cartesianY", m::Ty::F64 { min: None, max: None }));
        }
        _ => {}
    }
    let cloud_at = ops.len();
    ops.push(Op::Cloud(cloud(proto, 5, ni as u64 + 1)));
    let p = Program { guid: "g".into(), ops, ..Default::default() };
    // names the writer refuses are not the subject here: "for every extension name the writer accepts"
    ctx.describe(|| describe(&p));
    let dev = Dev::empty();
    let h = dev.handle();
    let run = run_program(dev, &p, &ExecOpts::default());
    if let Some((i, pi)) = &run.panic {
        ctx.violation(format!("{P}/write-panic/{}", pi.class()), format!("writer panicked at {} ({}) in op #{i}: {}", pi.loc, pi.msg, describe(&p)));
        return;
    }
    if run.err.is_some() {
        ctx.count("extension-name:rejected-by-writer");
        return;
    }
    let w = Written { bytes: h.snapshot(), run };
    // names that are not XML names although the writer accepts them: classified separately
    let odd = |s: &str| s.starts_with(|c: char| c.is_ascii_digit() || c == '-');
    if odd(name) || odd(ns) {
        match guarded(|| E57Reader::new(Dev::new(w.bytes.clone())).map(|_| ()).map_err(|e| err_string(&e))) {
            Ok(Err(e)) => {
                ctx.violation(
                    format!("{P}/accepted-extension-name-unreadable/leading-digit-or-dash"),
                    format!("the writer accepted the extension attribute {ns}:{name} but the file it wrote cannot be opened: {e}"),
                );
                return;
            }
            Err(pi) => {
                ctx.violation(format!("{P}/read-panic/{}", pi.class()), format!("reader panicked at {} ({})", pi.loc, pi.msg));
                return;
            }
            Ok(Ok(())) => {}
        }
    }
    if read_and_compare(ctx, &p, &w, P, None).is_some() {
        // "standard attributes of the same point cloud are unaffected": the simple iterator must
        // deliver the same points as for the same cloud written without its extension records
        let Op::Cloud(with_ext) = &p.ops[cloud_at] else { return };
        let keep: Vec<usize> = with_ext.proto.iter().enumerate().filter(|(_, r)| r.ns.is_none()).map(|(i, _)| i).collect();
        let mut plain = with_ext.clone();
        plain.proto = keep.iter().map(|i| with_ext.proto[*i].clone()).collect();
        plain.points = with_ext.points.iter().map(|pt| keep.iter().map(|i| pt[*i]).collect()).collect();
        let mut ops0: Vec<Op> = p.ops[..cloud_at].to_vec();
        ops0.push(Op::Cloud(plain));
        let p0 = Program { guid: "g".into(), ops: ops0, ..Default::default() };
        let simple = |bytes: &[u8]| -> Result<Vec<String>, String> {
            let mut r = E57Reader::new(Dev::new(bytes.to_vec())).map_err(|e| err_string(&e))?;
            let pc = r.pointclouds()[0].clone();
            let mut out = Vec::new();
            for item in r.pointcloud_simple(&pc).map_err(|e| err_string(&e))?.take(pc.records as usize + 1) {
                match item {
                    Ok(pt) => out.push(format!("{pt:?}")),
                    Err(e) => return Err(format!("after {} points: {}", out.len(), err_string(&e))),
                }
            }
            Ok(out)
        };
        let dev0 = Dev::empty();
        let h0 = dev0.handle();
        let run0 = run_program(dev0, &p0, &ExecOpts::default());
        if run0.err.is_none() && run0.panic.is_none() {
            match guarded(|| (simple(&w.bytes), simple(&h0.snapshot()))) {
                Ok((a, b)) if a == b => {}
                Ok((a, b)) => {
                    let first = match (&a, &b) {
                        (Ok(x), Ok(y)) => x.iter().zip(y.iter()).find(|(p, q)| p != q).map(|(p, q)| format!("{p} vs {q}")).unwrap_or(format!("{} vs {} points", x.len(), y.len())),
                        _ => format!("{:?} vs {:?}", a.as_ref().map(|v| v.len()), b.as_ref().map(|v| v.len())),
                    };
                    ctx.violation(
                        format!("{P}/extension-attribute-alters-standard-points"),
                        format!("simple iterator: the cloud with the extension attribute {ns}:{name} (prototype position {pos}) yields other points than the same cloud without it: {first}"),
                    );
                    return;
                }
                Err(pi) => {
                    ctx.violation(format!("{P}/read-panic/{}", pi.class()), format!("simple iterator panicked at {} ({})", pi.loc, pi.msg));
                    return;
                }
            }
        }
        ctx.count("extension-name:accepted-and-round-tripped");
        ctx.observe(&w.bytes);
        ctx.nontrivial();
    }
}

/// X3: the namespace declaration of a prototype extension attribute moved from the root element
/// to an inner element (legal XML: a prefix is in scope on the declaring element and below).
/// Prototype record names (prefix and name), points and everything else must be reported as
/// before; only the list of root-level extensions legitimately loses the moved entry.
pub fn scoped_ns(ctx: &Ctx) {
    let k = [1usize, 5][ctx.pick("document", 2)];
    let target = ctx.pick("declaring-element", 4);
    let which = ctx.pick("extension", 2);
    let d = match doc(k) {
        Ok(d) => d,
        Err(e) => {
            ctx.violation(format!("{P}/base-document-unusable"), format!("base document {k} (written by the real writer or encoded independently) cannot be prepared: {e}"));
            return;
        }
    };
    let xml = &d.xml;
    // declarations on the root start tag
    let root_end = e57spec::xml::parse(xml).ok().map(|p| p.root.open_end).unwrap_or(0);
    let decls: Vec<(usize, usize, String)> = xml[..root_end]
        .match_indices(" xmlns:")
        .filter_map(|(i, _)| {
            let rest = &xml[i + 7..root_end];
            let eq = rest.find("=\"")?;
            let end = rest[eq + 2..].find('"')? + eq + 2;
            Some((i, i + 7 + end + 1, rest[..eq].to_string()))
        })
        .filter(|(_, _, pfx)| xml.contains(&format!("<{pfx}:")))
        .collect();
    let Some((ds, de, pfx)) = decls.get(which).cloned() else { return };
    let decl = xml[ds..de].to_string();
    let Some(rec_at) = xml.find(&format!("<{pfx}:")) else { return };
    let tag_start = match target {
        0 => Some(rec_at),
        1 => xml[..rec_at].rfind("<prototype"),
        2 => xml[..rec_at].rfind("<points"),
        _ => xml[..rec_at].rfind("<vectorChild"),
    };
    let Some(ts) = tag_start else { return };
    let Some(te) = xml[ts..].find('>').map(|e| ts + e) else { return };
    let ins = if xml.as_bytes()[te - 1] == b'/' { te - 1 } else { te };
    let mut nx = String::new();
    nx.push_str(&xml[..ds]);
    nx.push_str(&xml[de..ins]);
    nx.push_str(&decl);
    nx.push_str(&xml[ins..]);
    ctx.describe(|| format!("document {k}: declaration{decl} moved from e57Root to the start tag at offset {ts} ({})", ["the record element", "prototype", "points", "the data3D child"][target]));
    if e57spec::xml::parse(&nx).is_err() {
        ctx.violation(format!("{P}/precondition/edited-document-not-well-formed"), "the document produced by the writer, with the declaration moved, is not well-formed".to_string());
        return;
    }
    let bytes = rebuild(&d, &nx);
    let strip = |v: Vec<String>| -> Vec<String> { v.into_iter().filter(|l| !l.starts_with("extensions=")).collect() };
    match guarded(|| (report(&d.bytes), report(&bytes))) {
        Err(pi) => ctx.violation(format!("{P}/panic/{}", pi.class()), format!("reader panicked at {} ({})", pi.loc, pi.msg)),
        Ok((Ok(a), Ok(b))) => {
            let (a, b) = (strip(a), strip(b));
            if let Some((x, y)) = a.iter().zip(b.iter()).find(|(x, y)| x != y) {
                ctx.violation(
                    format!("{P}/extension-declaration-scope"),
                    format!("with the declaration of prefix {pfx} on {} instead of e57Root the reader reports {} where it reported {}", ["the record element", "prototype", "points", "the data3D child"][target], y.chars().take(400).collect::<String>(), x.chars().take(400).collect::<String>()),
                );
                return;
            }
            ctx.observe(&bytes);
            ctx.nontrivial();
        }
        Ok((a, b)) => ctx.violation(
            format!("{P}/extension-declaration-scope/unreadable"),
            format!("document {k} with the declaration of {pfx} moved to an inner element: {:?} (unchanged document: {:?})", b.err(), a.err()),
        ),
    }
}

/// X4: deep nesting of foreign elements, up to the documented limit of 256 nested tags
pub fn depth(ctx: &Ctx) {
    let k = [0usize, 5][ctx.pick("document", 2)];
    let place = ctx.pick("place", 2); // 0 below e57Root, 1 inside the first data3D child
    let total = [100usize, 200, 254, 255, 256][ctx.pick("maximum-depth", 5)];
    let d = match doc(k) {
        Ok(d) => d,
        Err(e) => {
            ctx.violation(format!("{P}/base-document-unusable"), format!("base document {k} (written by the real writer or encoded independently) cannot be prepared: {e}"));
            return;
        }
    };
    let xml = &d.xml;
    let root_open_end = e57spec::xml::parse(xml).ok().map(|p| p.root.open_end + 1);
    let (at, base_depth) = if place == 0 {
        (root_open_end, 1)
    } else {
        (xml.find("<data3D").and_then(|s| xml[s..].find("<vectorChild").map(|e| s + e)).and_then(|s| xml[s..].find('>').map(|e| s + e + 1)), 3)
    };
    let Some(at) = at else { return };
    let levels = total - base_depth;
    let mut ins = String::new();
    for i in 0..levels {
        if i == 0 {
            ins.push_str(&format!("<vx:n {VX}>"));
        } else {
            ins.push_str("<vx:n>");
        }
    }
    ins.push_str("leaf");
    for _ in 0..levels {
        ins.push_str("</vx:n>");
    }
    let nx = format!("{}{}{}", &xml[..at], ins, &xml[at..]);
    ctx.describe(|| format!("document {k}: {levels} nested foreign elements {} (deepest tag at depth {total})", ["below e57Root", "inside the first data3D child"][place]));
    let bytes = rebuild(&d, &nx);
    match guarded(|| (report(&d.bytes), report(&bytes))) {
        Err(pi) => ctx.violation(format!("{P}/panic/{}", pi.class()), format!("reader panicked at {} ({})", pi.loc, pi.msg)),
        Ok((Ok(a), Ok(b))) => {
            if let Some((x, y)) = a.iter().zip(b.iter()).find(|(x, y)| x != y) {
                ctx.violation(format!("{P}/foreign-element-alters-report/deep-nesting"), format!("{levels} nested foreign elements change the report: {} vs {}", y.chars().take(300).collect::<String>(), x.chars().take(300).collect::<String>()));
                return;
            }
            ctx.observe_u64((k * 100 + place * 10) as u64 + total as u64 * 1000);
            ctx.nontrivial();
        }
        Ok((a, b)) => ctx.violation(
            format!("{P}/foreign-element-alters-report/deep-nesting-unreadable"),
            format!("document {k} with foreign elements nested to depth {total} (limit: 256 nested tags): {:?} (unchanged document: {:?})", b.err(), a.err()),
        ),
    }
}

/// X5 (thorough): two foreign elements at once - every ordered pair of insertion positions of a
/// document, the first carrying the local name of the element that follows it (hijack shape),
/// the second a nested box; names rotate over the list
pub fn pairs(ctx: &Ctx) {
    let bk = ctx.pick("base-document", if ctx.tier_thorough { N_BASES + crate::scenes::N_SCENES } else { N_BASES });
    let d = match doc(bk) {
        Ok(d) => d,
        Err(e) => {
            ctx.violation(format!("{P}/base-document-unusable"), format!("base document {bk} (written by the real writer or encoded independently) cannot be prepared: {e}"));
            return;
        }
    };
    let Ok(base_report) = report(&d.bytes) else { return };
    let n = d.child_positions.len();
    let i = ctx.pick("first-position", n);
    ctx.describe(|| format!("base document {bk}: a foreign element at position {i} together with one at every other position"));
    let (pa, at_a) = d.child_positions[i].clone();
    // the name of the standard element that follows the first insertion point (if any)
    let follow: String = d.xml[at_a..].trim_start().strip_prefix('<').map(|r| r.chars().take_while(|c| c.is_ascii_alphanumeric()).collect()).filter(|s: &String| !s.is_empty()).unwrap_or_else(|| "guid".into());
    for j in 0..n {
        if j == i {
            continue;
        }
        ctx.evals(1);
        let (pb, at_b) = d.child_positions[j].clone();
        let a = shape(&follow, 2);
        let b = shape(NAMES[(i * 7 + j) % NAMES.len()], 3);
        let (first, second) = if at_a <= at_b { ((at_a, &a), (at_b, &b)) } else { ((at_b, &b), (at_a, &a)) };
        let mut nx = String::with_capacity(d.xml.len() + a.len() + b.len());
        nx.push_str(&d.xml[..first.0]);
        nx.push_str(first.1);
        nx.push_str(&d.xml[first.0..second.0]);
        nx.push_str(second.1);
        nx.push_str(&d.xml[second.0..]);
        let bytes = rebuild(&d, &nx);
        match guarded(|| report(&bytes)) {
            Err(pi) => {
                ctx.violation(format!("{P}/panic/{}", pi.class()), format!("reader panicked at {} ({}) with two foreign elements in <{pa}> and <{pb}>", pi.loc, pi.msg));
                return;
            }
            Ok(Err(e)) => {
                ctx.violation(format!("{P}/foreign-element-breaks-file/pair"), format!("base document {bk}: with {a} in <{pa}> and {b} in <{pb}> the file can no longer be opened: {e}"));
                return;
            }
            Ok(Ok(rp)) => {
                if rp != base_report {
                    let k = rp.iter().zip(base_report.iter()).position(|(x, y)| x != y);
                    let (x, y) = k.map(|k| (rp[k].clone(), base_report[k].clone())).unwrap_or_default();
                    ctx.violation(
                        format!("{P}/foreign-element-alters-report/pair/{pa}/{pb}"),
                        format!("base document {bk}: {a} in <{pa}> together with {b} in <{pb}> changes the report: now {} | before {}", x.chars().take(300).collect::<String>(), y.chars().take(300).collect::<String>()),
                    );
                    return;
                }
            }
        }
    }
    ctx.observe_u64((bk * 100000 + i) as u64);
    ctx.nontrivial();
}
