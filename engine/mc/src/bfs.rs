//! E2 — explicit-state breadth-first search over real objects.
//!
//! A state is represented by the op history that reaches it; `step(history)` builds a fresh real
//! object, replays the history and returns the canonical state hash plus any invariant violation
//! observed on the last transition.  Level-synchronous, parallel over the frontier.

use explore::ViolationRec;
use std::collections::HashSet;
use std::sync::Mutex;
use std::time::Instant;

pub struct StepOut {
    /// None: the last op is not enabled in the predecessor state (no transition)
    pub canon: Option<u64>,
    pub violation: Option<(String, String)>,
    /// additional key under which the reached artefact (e.g. device image) is collected
    pub artefact: Option<(u64, Vec<u8>)>,
}

#[derive(Default)]
pub struct BfsResult {
    pub states: u64,
    pub transitions: u64,
    pub replays: u64,
    pub depth_reached: usize,
    pub fixpoint: bool,
    pub capped: bool,
    pub per_depth: Vec<u64>,
    pub violations: Vec<ViolationRec>,
    pub artefacts: Vec<Vec<u8>>,
    pub sample_histories: Vec<Vec<u8>>,
}

/// explicit cap on the number of distinct states kept (visited set + frontier histories)
pub const MAX_STATES: usize = 40_000_000;

pub fn bfs(n_ops: usize, max_depth: usize, deadline: Instant, threads: usize, max_artefacts: usize, step: &(dyn Fn(&[u8]) -> StepOut + Sync)) -> BfsResult {
    let mut res = BfsResult::default();
    let mut seen: HashSet<u64> = HashSet::new();
    let mut art_seen: HashSet<u64> = HashSet::new();
    let root = step(&[]);
    res.replays += 1;
    if let Some(c) = root.canon {
        seen.insert(c);
    }
    res.states = 1;
    res.per_depth.push(1);
    let mut frontier: Vec<Vec<u8>> = vec![Vec::new()];
    for depth in 1..=max_depth {
        if frontier.is_empty() {
            res.fixpoint = true;
            break;
        }
        if Instant::now() > deadline {
            res.capped = true;
            break;
        }
        // expand the frontier in parallel, in chunks of frontier states so that the buffered step
        // results (which may carry device images) stay bounded
        const CHUNK: usize = 4096;
        let mut next: Vec<Vec<u8>> = Vec::new();
        let mut lo = 0;
        while lo < frontier.len() && !res.capped {
            let hi = (lo + CHUNK).min(frontier.len());
            let work: Vec<(usize, u8)> = (lo..hi).flat_map(|i| (0..n_ops as u8).map(move |o| (i, o))).collect();
            let out: Mutex<Vec<(usize, u8, StepOut)>> = Mutex::new(Vec::with_capacity(work.len()));
            let next_idx = std::sync::atomic::AtomicUsize::new(0);
            let timed_out = std::sync::atomic::AtomicBool::new(false);
            let keep_artefacts = res.artefacts.len() < max_artefacts;
            let art_snapshot = &art_seen;
            let frontier_ref = &frontier;
            std::thread::scope(|s| {
                for _ in 0..threads.max(1) {
                    s.spawn(|| {
                        let mut local = Vec::new();
                        loop {
                            let k = next_idx.fetch_add(256, std::sync::atomic::Ordering::Relaxed);
                            if k >= work.len() {
                                break;
                            }
                            if Instant::now() > deadline {
                                timed_out.store(true, std::sync::atomic::Ordering::Relaxed);
                                break;
                            }
                            for (i, o) in &work[k..(k + 256).min(work.len())] {
                                let mut h = frontier_ref[*i].clone();
                                h.push(*o);
                                let mut so = step(&h);
                                // images already collected (or no longer wanted) are dropped here
                                if let Some((key, _)) = &so.artefact {
                                    if !keep_artefacts || art_snapshot.contains(key) {
                                        so.artefact = None;
                                    }
                                }
                                local.push((*i, *o, so));
                            }
                        }
                        out.lock().unwrap().extend(local);
                    });
                }
            });
            let mut out = out.into_inner().unwrap();
            if timed_out.load(std::sync::atomic::Ordering::Relaxed) {
                res.capped = true;
            }
            // canonical order so that results do not depend on thread timing
            out.sort_by_key(|(i, o, _)| (*i, *o));
            for (i, o, so) in out {
                res.replays += 1;
                let Some(c) = so.canon else { continue };
                res.transitions += 1;
                let mut h = frontier[i].clone();
                h.push(o);
                if let Some((sig, detail)) = so.violation {
                    if res.violations.len() < 50 {
                        res.violations.push(ViolationRec { choices: h.iter().map(|x| *x as u32).collect(), sig, detail, desc: String::new(), kind: "oracle" });
                    }
                }
                if let Some((k, a)) = so.artefact {
                    if art_seen.insert(k) && res.artefacts.len() < max_artefacts {
                        res.artefacts.push(a);
                    }
                }
                if seen.insert(c) {
                    if res.sample_histories.len() < 3 && h.len() >= 2 {
                        res.sample_histories.push(h.clone());
                    }
                    next.push(h);
                }
            }
            lo = hi;
            // memory guard: the visited set and the frontier are all that grows
            if seen.len() > MAX_STATES {
                res.capped = true;
            }
        }
        res.states += next.len() as u64;
        res.per_depth.push(next.len() as u64);
        res.depth_reached = depth;
        frontier = next;
        if res.capped {
            break;
        }
    }
    if frontier.is_empty() {
        res.fixpoint = true;
    }
    res
}
