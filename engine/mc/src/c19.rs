//! C19 — copying a file through the library is lossless; writing is deterministic.

use crate::alpha::*;
use crate::c03::model_file;
use crate::c10::documented_valid;
use crate::conv::*;
use crate::dev::{Dev, Src};
use crate::harness::{err_string, guarded};
use crate::oracle::*;
use crate::wprog::*;
use e57::{Blob, E57Reader, E57Writer, Extension};
use e57spec::encode::Knobs;
use e57spec::model as m;
use explore::Ctx;

const P: &str = "C19";

fn blob_data(r: &mut E57Reader<Dev>, b: &Blob) -> Result<Vec<u8>, String> {
    let mut v = Vec::new();
    r.blob(b, &mut v).map_err(|e| err_string(&e))?;
    Ok(v)
}

/// The obvious API loop: read everything, write it into a new file.
pub fn copy_file(bytes: &[u8]) -> Result<Vec<u8>, String> {
    let es = |c: &str, e: e57::Error| format!("{c}: {}", err_string(&e));
    let mut r = E57Reader::new(Dev::new(bytes.to_vec())).map_err(|e| es("open original", e))?;
    let out = Dev::empty();
    let h = out.handle();
    let mut w = E57Writer::new(out, r.guid()).map_err(|e| es("E57Writer::new", e))?;
    w.set_creation(r.creation());
    w.set_coordinate_metadata(r.coordinate_metadata().map(|s| s.to_string()));
    for e in r.extensions() {
        w.register_extension(Extension::new(&e.namespace, &e.url)).map_err(|e| es("register_extension", e))?;
    }
    for pc in r.pointclouds() {
        let guid = pc.guid.clone().ok_or("point cloud without guid")?;
        let mut pw = w.add_pointcloud(&guid, pc.prototype.clone()).map_err(|e| es("add_pointcloud", e))?;
        pw.set_name(pc.name.clone());
        pw.set_description(pc.description.clone());
        pw.set_original_guids(pc.original_guids.clone());
        pw.set_transform(pc.transform.clone());
        pw.set_acquisition_start(pc.acquisition_start.clone());
        pw.set_acquisition_end(pc.acquisition_end.clone());
        pw.set_sensor_vendor(pc.sensor_vendor.clone());
        pw.set_sensor_model(pc.sensor_model.clone());
        pw.set_sensor_serial(pc.sensor_serial.clone());
        pw.set_sensor_hw_version(pc.sensor_hw_version.clone());
        pw.set_sensor_sw_version(pc.sensor_sw_version.clone());
        pw.set_sensor_fw_version(pc.sensor_fw_version.clone());
        pw.set_temperature(pc.temperature);
        pw.set_humidity(pc.humidity);
        pw.set_atmospheric_pressure(pc.atmospheric_pressure);
        pw.set_color_limits(pc.color_limits.clone());
        pw.set_intensity_limits(pc.intensity_limits.clone());
        let it = r.pointcloud_raw(&pc).map_err(|e| es("pointcloud_raw", e))?;
        let mut n = 0u64;
        for p in it {
            let p = p.map_err(|e| es("raw point", e))?;
            pw.add_point(p).map_err(|e| es("add_point", e))?;
            n += 1;
            if n > pc.records {
                return Err("raw iterator yields more than the record count".into());
            }
        }
        pw.finalize().map_err(|e| es("PointCloudWriter::finalize", e))?;
    }
    for img in r.images() {
        let guid = img.guid.clone().ok_or("image without guid")?;
        let mut iw = w.add_image(&guid).map_err(|e| es("add_image", e))?;
        if let Some(v) = &img.name {
            iw.set_name(v);
        }
        if let Some(v) = &img.description {
            iw.set_description(v);
        }
        if let Some(v) = &img.pointcloud_guid {
            iw.set_pointcloud_guid(v);
        }
        if let Some(v) = &img.transform {
            iw.set_transform(v.clone());
        }
        if let Some(v) = &img.acquisition {
            iw.set_acquisition(v.clone());
        }
        if let Some(v) = &img.sensor_vendor {
            iw.set_sensor_vendor(v);
        }
        if let Some(v) = &img.sensor_model {
            iw.set_sensor_model(v);
        }
        if let Some(v) = &img.sensor_serial {
            iw.set_sensor_serial(v);
        }
        if let Some(v) = &img.visual_reference {
            let data = blob_data(&mut r, &v.blob.data)?;
            let mask = match &v.mask {
                Some(m) => Some(blob_data(&mut r, m)?),
                None => None,
            };
            let mut ms = mask.map(Src::new);
            iw.add_visual_reference(v.blob.format.clone(), &mut Src::new(data), v.properties.clone(), ms.as_mut().map(|m| m as &mut dyn std::io::Read))
                .map_err(|e| es("add_visual_reference", e))?;
        }
        if let Some(pr) = &img.projection {
            let (blob, mask) = match pr {
                e57::Projection::Pinhole(p) => (&p.blob, &p.mask),
                e57::Projection::Spherical(p) => (&p.blob, &p.mask),
                e57::Projection::Cylindrical(p) => (&p.blob, &p.mask),
            };
            let data = blob_data(&mut r, &blob.data)?;
            let mask = match mask {
                Some(m) => Some(blob_data(&mut r, m)?),
                None => None,
            };
            let mut ms = mask.map(Src::new);
            let mref = ms.as_mut().map(|m| m as &mut dyn std::io::Read);
            let mut d = Src::new(data);
            match pr {
                e57::Projection::Pinhole(p) => iw.add_pinhole(blob.format.clone(), &mut d, p.properties.clone(), mref),
                e57::Projection::Spherical(p) => iw.add_spherical(blob.format.clone(), &mut d, p.properties.clone(), mref),
                e57::Projection::Cylindrical(p) => iw.add_cylindrical(blob.format.clone(), &mut d, p.properties.clone(), mref),
            }
            .map_err(|e| es("add projection", e))?;
        }
        iw.finalize().map_err(|e| es("ImageWriter::finalize", e))?;
    }
    w.finalize().map_err(|e| es("finalize", e))?;
    drop(w);
    Ok(h.snapshot())
}

/// may this file be copied at all? (documented prototype rules, GUIDs present, at least one representation)
fn copyable(s: &m::Scene) -> Result<(), String> {
    if s.guid.is_empty() {
        return Err("empty file guid".into());
    }
    let exts: Vec<&str> = s.extensions.iter().map(|(p, _)| p.as_str()).collect();
    for c in &s.clouds {
        if c.meta.guid.is_none() {
            return Err("point cloud without guid".into());
        }
        if documented_valid(&c.proto, &exts) == Some(false) {
            return Err("prototype outside the writer's documented rules".into());
        }
        // an extension attribute without namespace prefix cannot be expressed through the writer
        if c.proto.iter().any(|r| r.ns.as_deref() == Some("")) {
            return Err("unknown attribute without namespace".into());
        }
    }
    for i in &s.images {
        if i.guid.is_none() {
            return Err("image without guid".into());
        }
    }
    Ok(())
}

fn limits_complete(mm: &m::CloudMeta) -> (bool, bool) {
    (mm.color_limits.map_or(false, |l| l.iter().all(|x| x.is_some())), mm.intensity_limits.map_or(false, |l| l.iter().all(|x| x.is_some())))
}

/// copy, compare as read, copy the copy, compare bytes; write twice, compare bytes
pub fn judge_copy(ctx: &Ctx, original: &[u8], what: &dyn Fn() -> String) -> bool {
    let orig = match guarded(|| read_back(original.to_vec())) {
        Ok(Ok(rb)) => rb.scene,
        _ => {
            ctx.count("corpus:unreadable-original");
            return false;
        }
    };
    if let Err(why) = copyable(&orig) {
        ctx.count(format!("corpus:filtered:{}", why.replace(' ', "-")));
        return false;
    }
    ctx.count("corpus:copied");
    let c1 = match guarded(|| copy_file(original)) {
        Err(pi) => {
            ctx.violation(format!("{P}/copy-panic/{}", pi.class()), format!("copying panicked at {} ({}): {}", pi.loc, pi.msg, what()));
            return false;
        }
        Ok(Err(e)) => {
            ctx.violation(format!("{P}/copy-failed/{}", msg_class(&e)), format!("copying a readable file whose prototypes follow the writer's rules failed: {e}; {}", what()));
            return false;
        }
        Ok(Ok(b)) => b,
    };
    ctx.ops(40);
    let copy = match guarded(|| read_back(c1.clone())) {
        Ok(Ok(rb)) => rb.scene,
        Ok(Err((st, e))) => {
            ctx.violation(format!("{P}/copy-unreadable/{}", msg_class(&e)), format!("the copy cannot be read: {st}: {e}; {}", what()));
            return false;
        }
        Err(pi) => {
            ctx.violation(format!("{P}/read-panic/{}", pi.class()), format!("reading the copy panicked at {} ({}); {}", pi.loc, pi.msg, what()));
            return false;
        }
    };
    let mut exp = orig.clone();
    exp.library_version = copy.library_version.clone();
    let mut d = m::diff_scene(&exp, &copy, false, false);
    for (i, (a, b)) in orig.clouds.iter().zip(copy.clouds.iter()).enumerate() {
        let (cl, il) = limits_complete(&a.meta);
        if cl && !a.meta.color_limits.unwrap().iter().zip(b.meta.color_limits.unwrap_or([None; 6]).iter()).all(|(x, y)| x.map(|v| v.key()) == y.map(|v| v.key())) {
            d.push(format!("data3D[{i}].colorLimits: expected {:?}, got {:?}", a.meta.color_limits, b.meta.color_limits));
        }
        // limits that the original does not have are not invented by the copy (they are passed on as None)
        if a.meta.color_limits.is_none() && b.meta.color_limits.is_some() {
            d.push(format!("data3D[{i}].colorLimits: the original has none, the copy has {:?}", b.meta.color_limits));
        }
        if a.meta.intensity_limits.is_none() && b.meta.intensity_limits.is_some() {
            d.push(format!("data3D[{i}].intensityLimits: the original has none, the copy has {:?}", b.meta.intensity_limits));
        }
        if il && !a.meta.intensity_limits.unwrap().iter().zip(b.meta.intensity_limits.unwrap_or([None; 2]).iter()).all(|(x, y)| x.map(|v| v.key()) == y.map(|v| v.key())) {
            d.push(format!("data3D[{i}].intensityLimits: expected {:?}, got {:?}", a.meta.intensity_limits, b.meta.intensity_limits));
        }
    }
    if !d.is_empty() {
        ctx.violation(format!("{P}/copy-differs/{}", diff_class(&d[0])), format!("the copy, as read back, differs from the original: {} || {}", d.join(" || "), what()));
        return false;
    }
    // copying the copy changes nothing further
    match guarded(|| copy_file(&c1)) {
        Ok(Ok(c2)) => {
            if c2 != c1 {
                let pos = c2.iter().zip(c1.iter()).position(|(a, b)| a != b);
                ctx.violation(format!("{P}/copy-of-copy-differs"), format!("copy(copy(F)) is not byte-identical to copy(F) (sizes {} / {}, first difference at {pos:?}); {}", c2.len(), c1.len(), what()));
                return false;
            }
        }
        Ok(Err(e)) => {
            ctx.violation(format!("{P}/copy-of-copy-failed/{}", msg_class(&e)), format!("copying the copy failed: {e}; {}", what()));
            return false;
        }
        Err(pi) => {
            ctx.violation(format!("{P}/copy-panic/{}", pi.class()), format!("copying the copy panicked at {} ({}); {}", pi.loc, pi.msg, what()));
            return false;
        }
    }
    // writing the same content twice is deterministic
    if let Ok(Ok(again)) = guarded(|| copy_file(original)) {
        if again != c1 {
            ctx.violation(format!("{P}/nondeterministic-write"), format!("writing the same content twice gives different bytes; {}", what()));
            return false;
        }
    }
    ctx.observe(&c1);
    true
}

/// C03 layout files (deviation <= 1) of every scene
pub fn layouts(ctx: &Ctx) {
    let si = ctx.pick("scene", crate::scenes::N_SCENES);
    let scene = crate::scenes::scene(si);
    let k = Knobs { full_gaps: false, ..Knobs::ALL };
    let Some((enc, _)) = model_file(ctx, &scene, k) else { return };
    ctx.describe(|| format!("copy of scene {si} encoded by e57spec with layout {:?}", enc.notes));
    if judge_copy(ctx, &enc.bytes, &|| format!("original: scene {si}, layout {:?}", enc.notes)) {
        ctx.nontrivial();
    }
}

/// outputs of all writer programs of depth <= 2 (thorough 3), plus the metadata-rich C04 file
pub fn programs(ctx: &Ctx) {
    let kind = ctx.pick("kind", 2);
    let p = if kind == 0 {
        pick_program(ctx, if ctx.tier_thorough { 3 } else { 2 })
    } else {
        // every catalogue string in every string field (rotated), image kind rotating with it
        let strings = crate::cat::strings();
        let s0 = ctx.pick("string", strings.len());
        crate::c04::build_with(&strings, s0, s0 % 5)
    };
    ctx.describe(|| format!("copy of the file written by: {}", describe(&p)));
    let dev = Dev::empty();
    let h = dev.handle();
    let r = run_program(dev, &p, &ExecOpts::default());
    if r.err.is_some() || r.panic.is_some() {
        return;
    }
    let bytes = h.snapshot();
    if judge_copy(ctx, &bytes, &|| format!("original written by: {}", describe(&p))) {
        ctx.nontrivial();
    }
    // the program itself, executed twice, gives byte-identical files
    let dev = Dev::empty();
    let h2 = dev.handle();
    let _ = run_program(dev, &p, &ExecOpts::default());
    if h2.snapshot() != bytes {
        ctx.violation(format!("{P}/nondeterministic-write"), format!("executing the same writer program twice gives different bytes: {}", describe(&p)));
    }
}

/// poses and long payloads, encoded independently: every pose of the catalogue for cloud and image,
/// image and mask payloads of 12 long lengths (multi-page, around powers of two, up to 1 MiB)
pub fn payloads(ctx: &Ctx) {
    const LENS: [usize; 12] = [1019, 1020, 1021, 2040, 4095, 8193, 65535, 65536, 65537, 131_073, 300_000, 1_048_577];
    let poses = crate::cat::poses();
    let k = ctx.pick("pose", poses.len());
    let li = ctx.pick("payload-length", LENS.len());
    let mut scene = crate::scenes::scene(5);
    scene.clouds.truncate(1);
    scene.clouds[0].meta.pose = Some(poses[k].clone());
    scene.images.truncate(2);
    for (j, img) in scene.images.iter_mut().enumerate() {
        img.pose = Some(poses[(k + 9 + j) % poses.len()].clone());
        for rep in [&mut img.visual, &mut img.projection].into_iter().flatten() {
            if j == 0 {
                rep.blob.data = crate::harness::pattern(LENS[li] as u64, LENS[li]);
                rep.blob.length = LENS[li] as u64;
            } else if let Some(mk) = &mut rep.mask {
                mk.data = crate::harness::pattern(7 + LENS[li] as u64, LENS[(li + 5) % LENS.len()]);
                mk.length = mk.data.len() as u64;
            }
        }
    }
    let Some((enc, _)) = model_file(ctx, &scene, Knobs::NONE) else { return };
    ctx.describe(|| format!("copy of scene 5 (one cloud, two images) with pose #{k} and payloads of {} bytes", LENS[li]));
    if judge_copy(ctx, &enc.bytes, &|| format!("original: scene 5 with pose #{k}, image payload of {} bytes", LENS[li])) {
        ctx.nontrivial();
    }
}

/// records that share their local name across namespaces (a standard attribute and an extension
/// attribute of the same name, two extensions with the same attribute name): distinct records for
/// the reader, so the copy must carry all of them
pub fn namesakes(ctx: &Ctx) {
    let variant = ctx.pick("variant", 4);
    let n = [0usize, 1, 5][ctx.pick("points", 3)];
    let mut proto = crate::cat::xyz(crate::cat::F32);
    let b8 = m::Ty::Int { min: 0, max: 255 };
    let b3 = m::Ty::Int { min: 0, max: 7 };
    match variant {
        0 => {
            proto.push(crate::cat::rec("intensity", b8.clone()));
            proto.push(crate::cat::ext_rec("ext", "intensity", b3.clone()));
        }
        1 => {
            proto.push(crate::cat::ext_rec("las", "class", b8.clone()));
            proto.push(crate::cat::ext_rec("ext", "class", b3.clone()));
        }
        2 => {
            proto.insert(0, crate::cat::ext_rec("ext", "cartesianX", b3.clone()));
            proto.push(crate::cat::ext_rec("las", "cartesianX", b8.clone()));
        }
        _ => {
            proto.push(crate::cat::ext_rec("ext", "rowIndex", b3.clone()));
            proto.push(crate::cat::rec("rowIndex", m::Ty::Int { min: 0, max: 1000 }));
            proto.push(crate::cat::rec("columnIndex", m::Ty::Int { min: 0, max: 1000 }));
        }
    }
    let mut scene = crate::scenes::scene(0);
    scene.clouds.clear();
    scene.extensions = vec![("ext".into(), "http://example.com/ext".into()), ("las".into(), "http://example.com/las".into())];
    let points = crate::cat::points_for(&proto, n, 3);
    scene.clouds.push(m::Cloud { meta: m::CloudMeta { guid: Some("c".into()), ..Default::default() }, proto, points, records: n as u64, file_offset: 0 });
    let Some((enc, _)) = model_file(ctx, &scene, Knobs::NONE) else { return };
    ctx.describe(|| format!("copy of a cloud whose prototype has namesakes in different namespaces (variant {variant}, {n} points)"));
    if judge_copy(ctx, &enc.bytes, &|| format!("original: namesake variant {variant}, {n} points")) {
        ctx.nontrivial();
    }
}

/// section alignment in the copy: a first cloud of n byte-sized points moves the second cloud's
/// section through all 255 aligned residues of the page payload
pub fn align(ctx: &Ctx) {
    let n = ctx.pick("points-in-first-cloud", 345);
    let b8 = m::Ty::Int { min: 0, max: 255 };
    let a = cloud(crate::cat::xyz(b8), n, 1);
    let b = cloud(crate::cat::xyz(crate::cat::F32), 5, 2);
    let p = Program { guid: "g".into(), ops: vec![Op::Cloud(a), Op::Image(image(0, false, 10, 3)), Op::Cloud(b)], ..Default::default() };
    ctx.describe(|| format!("copy of the file written by: {}", describe(&p)));
    let dev = Dev::empty();
    let h = dev.handle();
    let r = run_program(dev, &p, &ExecOpts::default());
    if r.err.is_some() || r.panic.is_some() {
        ctx.violation(format!("{P}/precondition/writer-program-failed"), format!("the writer program that produces the original failed: {:?}", r.err));
        return;
    }
    let bytes = h.snapshot();
    if judge_copy(ctx, &bytes, &|| format!("original written by: {}", describe(&p))) {
        // where did the second cloud's section land in the copy?
        if let Ok(Ok(c1)) = guarded(|| copy_file(&bytes)) {
            let rep = e57spec::decode::validate(&c1, &Default::default());
            if let Some(s) = rep.sections.iter().filter(|s| s.kind == "cv").nth(1) {
                ctx.count(format!("second-section-residue:{}", s.phys_start % 1024));
            }
        }
        ctx.nontrivial();
    }
}

/// bulk: bit-packed prototypes with enough points for five full-size data packets of the copy
/// (the source is encoded independently, so a writer that cannot store it shows as a failed copy)
pub fn bulk(ctx: &Ctx) {
    let k = ctx.pick("prototype", 4);
    let si = |bits: u32| m::Ty::Scaled { min: 0, max: (1i64 << bits) - 1, scale: 0.001, offset: 0.0 };
    let proto: Vec<m::Rec> = match k {
        0 => {
            let mut p = crate::cat::xyz(si(12));
            p.push(crate::cat::rec("cartesianInvalidState", m::Ty::Int { min: 0, max: 2 }));
            p
        }
        1 => {
            let mut p = crate::cat::xyz(si(10));
            p.push(crate::cat::rec("intensity", m::Ty::Int { min: 0, max: 255 }));
            p
        }
        2 => crate::cat::xyz(si(7)),
        _ => {
            let mut p = crate::cat::xyz(si(21));
            p.push(crate::cat::rec("rowIndex", m::Ty::Int { min: 0, max: 4 }));
            p
        }
    };
    // natural capacity of the real writer for this prototype
    let cap = {
        let p = Program { guid: "g".into(), ops: vec![Op::Cloud(cloud(proto.clone(), 0, 1))], ..Default::default() };
        run_program(Dev::empty(), &p, &ExecOpts::default()).caps.first().copied().unwrap_or(0)
    };
    if cap == 0 {
        ctx.violation(format!("{P}/precondition/capacity-probe-failed"), "add_pointcloud failed for a valid bit-packed prototype (packet capacity cannot be probed)".to_string());
        return;
    }
    let n = 5 * cap + 3;
    let mut scene = crate::scenes::scene(0);
    scene.clouds.clear();
    scene.images.clear();
    let points = crate::cat::points_for(&proto, n, k + 1);
    scene.clouds.push(m::Cloud { meta: m::CloudMeta { guid: Some("bulk".into()), ..Default::default() }, proto, points, records: n as u64, file_offset: 0 });
    let Some((enc, _)) = model_file(ctx, &scene, Knobs::NONE) else { return };
    ctx.describe(|| format!("copy of an independently encoded cloud of {n} points (5 natural packets of {cap} + 3), prototype variant {k}"));
    if judge_copy(ctx, &enc.bytes, &|| format!("original: bulk cloud variant {k}, {n} points")) {
        ctx.nontrivial();
    }
}

/// every bundled testdata file that opens
pub fn bundled(ctx: &Ctx) {
    let mut names: Vec<String> = std::fs::read_dir("/repo/testdata")
        .map(|d| d.flatten().map(|e| e.file_name().to_string_lossy().to_string()).filter(|n| n.ends_with(".e57")).collect())
        .unwrap_or_default();
    names.sort();
    if names.is_empty() {
        ctx.machinery_error("no bundled files found in /repo/testdata");
        return;
    }
    let k = ctx.pick("bundled-file", names.len());
    let Ok(bytes) = std::fs::read(format!("/repo/testdata/{}", names[k])) else { return };
    ctx.describe(|| format!("copy of bundled file {} ({} bytes)", names[k], bytes.len()));
    if judge_copy(ctx, &bytes, &|| format!("original: /repo/testdata/{}", names[k])) {
        ctx.nontrivial();
    }
}

/// determinism across processes: the observation of each case is the file content; the stage is
/// executed twice with separate worker processes and the per-case observations are compared
pub fn determinism(ctx: &Ctx) {
    let p = pick_program(ctx, 2);
    ctx.describe(|| describe(&p));
    let dev = Dev::empty();
    let h = dev.handle();
    let r = run_program(dev, &p, &ExecOpts::default());
    ctx.observe(&h.snapshot());
    ctx.observe_u64(r.finalized as u64);
    ctx.nontrivial();
}
