//! Panic capture and small helpers shared by all spaces.

use std::cell::RefCell;

thread_local! {
    static LAST_PANIC: RefCell<Option<(String, String)>> = const { RefCell::new(None) };
}

/// Install a panic hook that records (location, message) instead of printing.
pub fn install_panic_hook(verbose: bool) {
    std::panic::set_hook(Box::new(move |info| {
        let loc = info.location().map(|l| format!("{}:{}", l.file(), l.line())).unwrap_or_else(|| "?".into());
        let msg = if let Some(s) = info.payload().downcast_ref::<&str>() {
            s.to_string()
        } else if let Some(s) = info.payload().downcast_ref::<String>() {
            s.clone()
        } else {
            "<non-string panic>".to_string()
        };
        if verbose {
            eprintln!("  [panic] {loc}: {msg}");
        }
        LAST_PANIC.with(|l| *l.borrow_mut() = Some((loc, msg)));
    }));
}

/// A panic that escaped a case function: raised in the library under test (or one of its
/// dependencies) it is a violation of the property being checked, raised in the harness's own
/// sources it is a harness bug. The signature is filed under the property by the driver.
pub fn classify_escaped_panic(msg: &str) -> Option<(String, String)> {
    let (loc, m) = LAST_PANIC.with(|l| l.borrow().clone())?;
    let own = ["mc/src/", "explore/src/", "e57spec/src/", "/engine/"];
    if own.iter().any(|p| loc.starts_with(p) || loc.contains(p)) {
        return None;
    }
    let pi = PanicInfo { loc: loc.clone(), msg: m };
    Some((format!("C00/panic-in-library/{}", pi.class()), format!("the code under test panicked at {loc} ({msg}) in a call the harness does not wrap")))
}

#[derive(Clone, Debug)]
pub struct PanicInfo {
    pub loc: String,
    pub msg: String,
}

impl PanicInfo {
    /// stable class of the panic: source file (without line) + message with digits masked
    pub fn class(&self) -> String {
        let file = self.loc.rsplit_once(':').map(|(f, _)| f).unwrap_or(&self.loc);
        let file = file.rsplit('/').next().unwrap_or(file);
        let mut m = String::new();
        let mut last_hash = false;
        for c in self.msg.chars().take(60) {
            if c.is_ascii_digit() {
                if !last_hash {
                    m.push('#');
                }
                last_hash = true;
            } else {
                m.push(if c == ' ' || c == '/' { '_' } else { c });
                last_hash = false;
            }
        }
        format!("{file}:{m}")
    }
}

/// Run `f`, converting a panic into `Err(PanicInfo)`.
pub fn guarded<T>(f: impl FnOnce() -> T) -> Result<T, PanicInfo> {
    LAST_PANIC.with(|l| *l.borrow_mut() = None);
    match std::panic::catch_unwind(std::panic::AssertUnwindSafe(f)) {
        Ok(v) => Ok(v),
        Err(p) => {
            let (loc, msg) = LAST_PANIC.with(|l| l.borrow_mut().take()).unwrap_or_else(|| ("?".into(), explore::panic_msg(&p)));
            Err(PanicInfo { loc, msg })
        }
    }
}

pub fn err_class(e: &e57::Error) -> &'static str {
    match e {
        e57::Error::Invalid { .. } => "Invalid",
        e57::Error::Read { .. } => "Read",
        e57::Error::Write { .. } => "Write",
        e57::Error::NotImplemented { .. } => "NotImplemented",
        e57::Error::Internal { .. } => "Internal",
        _ => "Other",
    }
}

pub fn err_string(e: &e57::Error) -> String {
    use std::error::Error;
    let mut s = e.to_string();
    let mut src = e.source();
    while let Some(x) = src {
        s.push_str(" <- ");
        s.push_str(&x.to_string());
        src = x.source();
    }
    s
}

/// deterministic filler bytes, unique per (id, index)
pub fn pattern(id: u64, len: usize) -> Vec<u8> {
    let mut v = Vec::with_capacity(len);
    let mut x = id.wrapping_mul(0x9E3779B97F4A7C15).wrapping_add(0xD1B54A32D192ED03);
    for i in 0..len {
        if i % 8 == 0 {
            x ^= x >> 31;
            x = x.wrapping_mul(0xBF58476D1CE4E5B9).wrapping_add(i as u64 + id);
            x ^= x >> 29;
        }
        v.push((x >> ((i % 8) * 8)) as u8 ^ (i as u8).wrapping_mul(31));
    }
    v
}
