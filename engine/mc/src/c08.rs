//! C08 (never panics) and C09 (bounded time and memory per call) — one mutation sweep, two oracles.

use crate::c05::Opts;
use crate::dev::Dev;
use crate::harness::guarded;
use crate::mutate::*;
use e57::{Blob, E57Reader};
use explore::Ctx;
use std::sync::atomic::{AtomicU64, Ordering};

// ------------------------------------------------------------------------------------------
// counting allocator (installed as the global allocator of the mc binary)

pub static ALLOC_CUR: AtomicU64 = AtomicU64::new(0);
pub static ALLOC_PEAK: AtomicU64 = AtomicU64::new(0);
pub static ALLOC_TOTAL: AtomicU64 = AtomicU64::new(0);
/// hard cap on live bytes; exceeding it ends the worker with exit status 97
pub static ALLOC_CAP: AtomicU64 = AtomicU64::new(u64::MAX);

pub struct Counting;

unsafe impl std::alloc::GlobalAlloc for Counting {
    unsafe fn alloc(&self, l: std::alloc::Layout) -> *mut u8 {
        let n = l.size() as u64;
        let cur = ALLOC_CUR.fetch_add(n, Ordering::Relaxed) + n;
        if cur > ALLOC_CAP.load(Ordering::Relaxed) {
            // "grows until killed": report through the exit status, the parent attributes it to C09
            std::process::exit(97);
        }
        ALLOC_TOTAL.fetch_add(n, Ordering::Relaxed);
        ALLOC_PEAK.fetch_max(cur, Ordering::Relaxed);
        std::alloc::System.alloc(l)
    }
    unsafe fn dealloc(&self, p: *mut u8, l: std::alloc::Layout) {
        ALLOC_CUR.fetch_sub(l.size() as u64, Ordering::Relaxed);
        std::alloc::System.dealloc(p, l)
    }
    unsafe fn realloc(&self, p: *mut u8, l: std::alloc::Layout, new: usize) -> *mut u8 {
        let (o, n) = (l.size() as u64, new as u64);
        if n > o {
            let cur = ALLOC_CUR.fetch_add(n - o, Ordering::Relaxed) + (n - o);
            if cur > ALLOC_CAP.load(Ordering::Relaxed) {
                std::process::exit(97);
            }
            ALLOC_TOTAL.fetch_add(n - o, Ordering::Relaxed);
            ALLOC_PEAK.fetch_max(cur, Ordering::Relaxed);
        } else {
            ALLOC_CUR.fetch_sub(o - n, Ordering::Relaxed);
        }
        std::alloc::System.realloc(p, l, new)
    }
}

/// largest processor time of a single call seen by this worker (reported per case)
pub static MAX_CALL_CPU_MS: AtomicU64 = AtomicU64::new(0);

/// processor time of the calling thread in seconds: clock_gettime(CLOCK_THREAD_CPUTIME_ID) of the C
/// library that std links anyway (a /proc read per call made the sweep three times slower)
fn thread_cpu_seconds() -> Option<f64> {
    #[repr(C)]
    struct Timespec {
        tv_sec: i64,
        tv_nsec: i64,
    }
    extern "C" {
        fn clock_gettime(clk_id: i32, tp: *mut Timespec) -> i32;
    }
    const CLOCK_THREAD_CPUTIME_ID: i32 = 3;
    let mut t = Timespec { tv_sec: 0, tv_nsec: 0 };
    // SAFETY: plain C call with a valid out pointer
    if unsafe { clock_gettime(CLOCK_THREAD_CPUTIME_ID, &mut t) } == 0 {
        Some(t.tv_sec as f64 + t.tv_nsec as f64 * 1e-9)
    } else {
        None
    }
}

struct Meter {
    total0: u64,
    cur0: u64,
    read0: u64,
}
fn meter_start(dev: &Dev) -> Meter {
    let cur = ALLOC_CUR.load(Ordering::Relaxed);
    ALLOC_PEAK.store(cur, Ordering::Relaxed);
    Meter { total0: ALLOC_TOTAL.load(Ordering::Relaxed), cur0: cur, read0: dev.with(|s| s.bytes_read) }
}
/// (bytes allocated during the call, peak live bytes above the level at call start, device bytes read)
fn meter_stop(m: &Meter, dev: &Dev) -> (u64, u64, u64) {
    (
        ALLOC_TOTAL.load(Ordering::Relaxed) - m.total0,
        ALLOC_PEAK.load(Ordering::Relaxed).saturating_sub(m.cur0),
        dev.with(|s| s.bytes_read) - m.read0,
    )
}

#[derive(Clone, Copy, PartialEq)]
pub enum Mode {
    NoPanic,
    Budget,
}

struct Judge<'a> {
    ctx: &'a Ctx,
    mode: Mode,
    l: u64,
    what: String,
    worst_alloc: u64,
    worst_read: u64,
    failed: bool,
    /// constant part of the allocation budget of one iterator call (set per point cloud)
    step_cons: u64,
}

impl Judge<'_> {
    fn prop(&self) -> &'static str {
        if self.mode == Mode::NoPanic {
            "C08"
        } else {
            "C09"
        }
    }
    /// run one call under catch_unwind and the meters
    fn call<T>(&mut self, name: &str, dev: &Dev, read_factor: u64, f: impl FnOnce() -> T) -> Option<T> {
        if self.failed {
            return None;
        }
        let m = meter_start(dev);
        let t0 = std::time::Instant::now();
        let c0 = thread_cpu_seconds();
        let r = guarded(f);
        let wall = t0.elapsed();
        // CPU time of this thread, not wall time: the verdict must not depend on what else the
        // machine is doing (wall time is the fallback where the kernel does not report it)
        let cpu = match (c0, thread_cpu_seconds()) {
            (Some(a), Some(b)) => b - a,
            _ => wall.as_secs_f64(),
        };
        let (alloc, peak, read) = meter_stop(&m, dev);
        if self.mode == Mode::Budget {
            MAX_CALL_CPU_MS.fetch_max((cpu * 1000.0) as u64, Ordering::Relaxed);
        }
        if self.mode == Mode::Budget && cpu >= 10.0 {
            // a single call on inputs of at most a few MiB takes milliseconds; 10 s of processor
            // time means work that is not bounded by the input size
            self.ctx.violation(format!("C09/time/{name}"), format!("{name} took {cpu:.1} s of processor time ({:.1} s wall) on an input of {} bytes: {}", wall.as_secs_f64(), self.l, self.what));
            self.failed = true;
            return None;
        }
        self.ctx.op();
        match r {
            Err(pi) => {
                if self.mode == Mode::NoPanic {
                    self.ctx.violation(format!("C08/panic/{name}/{}", pi.class()), format!("{name} panicked at {} ({}) on: {}", pi.loc, pi.msg, self.what));
                }
                self.failed = true;
                None
            }
            Ok(v) => {
                if self.mode == Mode::Budget {
                    // allocation budget per kind of call (factor * L + constant):
                    //  - opening / XML: the document, its DOM and the descriptors (measured < 40 L)
                    //  - iterator steps: one packet of at most 64 KiB may legitimately expand to
                    //    2^19 one-bit values held twice (~160 MiB), independent of L
                    //  - blob extraction streams through a small buffer
                    let (fac, cons): (u64, u64) = if name.contains("next()") || name.starts_with("pointcloud_") {
                        // `step_cons` is derived from the prototype of the cloud being read
                        (64, self.step_cons)
                    } else if name == "blob" {
                        (1, 1 << 20)
                    } else {
                        // a document of L bytes consisting of one-byte tokens costs the XML parser
                        // ~73 bytes per token (measured); 128 L leaves room, anything super-linear
                        // on the 2 MiB bombs is far above it
                        (128, 8 << 20)
                    };
                    let b_alloc = fac * self.l + cons;
                    let b_read = read_factor * self.l + (64 << 10);
                    self.worst_alloc = self.worst_alloc.max(alloc);
                    self.worst_read = self.worst_read.max(read);
                    if alloc > b_alloc || peak > b_alloc {
                        self.ctx.violation(
                            format!("C09/memory/{name}"),
                            format!("{name} allocated {alloc} bytes (peak {peak}) in one call; budget {fac}*L + {} MiB = {b_alloc} for L = {} bytes; input: {}", cons >> 20, self.l, self.what),
                        );
                        self.failed = true;
                    } else if read > b_read {
                        self.ctx.violation(
                            format!("C09/device-reads/{name}"),
                            format!("{name} requested {read} bytes from the device in one call; budget {read_factor}*L + 64 KiB = {b_read} for L = {}; input: {}", self.l, self.what),
                        );
                        self.failed = true;
                    }
                }
                Some(v)
            }
        }
    }
}

/// Every read entry point on one input.
fn run_all(ctx: &Ctx, mode: Mode, bytes: &[u8], what: String, n_opts: usize) {
    let l = bytes.len() as u64;
    let mut j = Judge { ctx, mode, l, what, worst_alloc: 0, worst_read: 0, failed: false, step_cons: 192 << 20 };
    let dev = Dev::new(bytes.to_vec());
    let _ = j.call("validate_crc", &dev, 2, || E57Reader::validate_crc(dev.handle()).is_ok());
    let _ = j.call("raw_xml", &dev, 4, || E57Reader::raw_xml(dev.handle()).map(|x| x.len()).ok());
    let opened = j.call("E57Reader::new", &dev, 4, || E57Reader::new(dev.handle()).ok());
    let Some(Some(mut r)) = opened else {
        ctx.count(format!("open:{}", if j.failed { "panic-or-budget" } else { "rejected" }));
        return;
    };
    ctx.count("open:accepted");
    let pcs = j.call("pointclouds", &dev, 4, || r.pointclouds()).unwrap_or_default();
    let imgs = j.call("images", &dev, 4, || r.images()).unwrap_or_default();
    let _ = j.call("metadata", &dev, 4, || (r.guid().len(), r.xml().len(), r.extensions().len(), r.creation().is_some(), r.coordinate_metadata().map(|c| c.len())));
    let step_cap = 8 * l + 1024;
    for (ci, pc) in pcs.iter().enumerate() {
        // One call may decode one data packet of at most 64 KiB. The values of a packet are held
        // about twice (queues, then points): 2^19 bits / (bits per point) points of proto_len
        // values of ~24 bytes each, four times for slack, plus 4 MiB. For 64-bit records that is
        // ~5 MiB, for a single one-bit record the old flat 192 MiB.
        let bits: u64 = pc.prototype.iter().map(|r| { let t = crate::conv::ty_from_e57(&r.data_type); if matches!(t, e57spec::model::Ty::Int { min, max } | e57spec::model::Ty::Scaled { min, max, .. } if max < min) { 64 } else { t.bits() as u64 } }).sum::<u64>().max(1);
        // records without bits (minimum = maximum) carry no information: they do not enlarge what a
        // step may hold, otherwise the allowance would grow with records x points instead of the input
        let sized = pc.prototype.iter().filter(|r| crate::conv::ty_from_e57(&r.data_type).bits() > 0).count().max(1) as u64;
        j.step_cons = ((1u64 << 19) / bits + 1) * sized * 24 * 2 * 4 + (4 << 20);
        // a cloud none of whose records has bits has no packet to decode: its points follow from
        // the prototype alone and a step has no reason to hold more than a few of them, however
        // many the record count announces
        if pc.prototype.iter().all(|r| crate::conv::ty_from_e57(&r.data_type).bits() == 0) {
            j.step_cons = 4 << 20;
        }
        // raw iterator
        let it = j.call("pointcloud_raw", &dev, 4, || r.pointcloud_raw(pc).ok());
        if let Some(Some(mut it)) = it {
            // the lower bound of size_hint is a promise: `collect()` allocates that many items up
            // front. More points than the file has bits cannot be promised (unless a point has no bits).
            let Some((hint_lo, _)) = j.call("raw size_hint()", &dev, 4, || it.size_hint()) else { return };
            let point_bits: u64 = pc.prototype.iter().map(|r| crate::conv::ty_from_e57(&r.data_type).bits() as u64).sum();
            if mode == Mode::NoPanic && point_bits > 0 && hint_lo as u64 > 8 * l + 1024 {
                ctx.violation(
                    "C08/size-hint/untrusted-lower-bound".to_string(),
                    format!("pointcloud_raw(cloud {ci}).size_hint() promises at least {hint_lo} items for a file of {l} bytes (the recordCount of the XML is passed on unchecked): Iterator::collect() allocates that capacity and panics with 'capacity overflow' or exhausts the memory; input: {}", j.what),
                );
            }
            let mut n = 0u64;
            loop {
                let item = j.call("raw next()", &dev, 4, || it.next().map(|x| x.is_ok()));
                match item {
                    Some(Some(true)) => {
                        n += 1;
                        if n > pc.records {
                            if mode == Mode::Budget {
                                ctx.violation(format!("C09/more-than-record-count/raw"), format!("raw iterator of cloud {ci} yielded more than the declared {} points; input: {}", pc.records, j.what));
                            }
                            j.failed = true;
                            break;
                        }
                        if n > step_cap {
                            break;
                        }
                    }
                    _ => break,
                }
            }
            ctx.count_n("steps:raw", n);
        }
        // simple iterator under option vectors
        for oi in 0..n_opts {
            let ob = if n_opts == 64 { oi } else { [0usize, 63, 1, 2, 4, 8, 16, 32][oi] };
            let o = Opts::from_bits(ob);
            let it = j.call("pointcloud_simple", &dev, 4, || {
                r.pointcloud_simple(pc).ok().map(|mut it| {
                    it.spherical_to_cartesian(o.s2c);
                    it.cartesian_to_spherical(o.c2s);
                    it.intensity_to_color(o.i2c);
                    it.normalize_intensity(o.ni);
                    it.normalize_color(o.nc);
                    it.apply_pose(o.pose);
                    it
                })
            });
            if let Some(Some(mut it)) = it {
                let Some((hint_lo, _)) = j.call("simple size_hint()", &dev, 4, || it.size_hint()) else { return };
                let point_bits: u64 = pc.prototype.iter().map(|r| crate::conv::ty_from_e57(&r.data_type).bits() as u64).sum();
                if mode == Mode::NoPanic && point_bits > 0 && hint_lo as u64 > 8 * l + 1024 {
                    ctx.violation(
                        "C08/size-hint/untrusted-lower-bound".to_string(),
                        format!("pointcloud_simple(cloud {ci}).size_hint() promises at least {hint_lo} items for a file of {l} bytes; input: {}", j.what),
                    );
                }
                let mut n = 0u64;
                loop {
                    let item = j.call("simple next()", &dev, 4, || it.next().map(|x| x.is_ok()));
                    match item {
                        Some(Some(true)) => {
                            n += 1;
                            if n > pc.records {
                                if mode == Mode::Budget {
                                    ctx.violation(format!("C09/more-than-record-count/simple"), format!("simple iterator of cloud {ci} yielded more than the declared {} points; input: {}", pc.records, j.what));
                                }
                                j.failed = true;
                                break;
                            }
                            if n > step_cap {
                                break;
                            }
                        }
                        _ => break,
                    }
                }
                if oi == 0 {
                    ctx.count_n("steps:simple", n);
                }
            }
            if j.failed {
                return;
            }
        }
    }
    // blobs: every image blob and mask, plus crafted descriptors, into a counting sink
    let mut blobs: Vec<Blob> = Vec::new();
    for img in &imgs {
        if let Some(v) = &img.visual_reference {
            blobs.push(v.blob.data.clone());
            blobs.extend(v.mask.clone());
        }
        match &img.projection {
            Some(e57::Projection::Pinhole(p)) => {
                blobs.push(p.blob.data.clone());
                blobs.extend(p.mask.clone());
            }
            Some(e57::Projection::Spherical(p)) => {
                blobs.push(p.blob.data.clone());
                blobs.extend(p.mask.clone());
            }
            Some(e57::Projection::Cylindrical(p)) => {
                blobs.push(p.blob.data.clone());
                blobs.extend(p.mask.clone());
            }
            None => {}
        }
    }
    blobs.push(Blob::new(48, 16));
    blobs.push(Blob::new(l.saturating_sub(1024), u64::MAX));
    blobs.push(Blob::new(u64::MAX - 7, 1 << 40));
    for b in &blobs {
        struct Sink(u64);
        impl std::io::Write for Sink {
            fn write(&mut self, b: &[u8]) -> std::io::Result<usize> {
                self.0 += b.len() as u64;
                Ok(b.len())
            }
            fn flush(&mut self) -> std::io::Result<()> {
                Ok(())
            }
        }
        let _ = j.call("blob", &dev, 4, || {
            let mut s = Sink(0);
            r.blob(b, &mut s).is_ok()
        });
    }
    if mode == Mode::Budget {
        ctx.count_n("worst:alloc-bytes-per-call-sum", j.worst_alloc);
    }
    if !j.failed {
        ctx.nontrivial();
    }
}

fn sweep(ctx: &Ctx, mode: Mode) {
    let si = ctx.pick("seed", n_seeds());
    // seed and menu are pure functions of the seed index: computed once per worker process
    thread_local! {
        static MENUS: std::cell::RefCell<std::collections::HashMap<usize, std::rc::Rc<(Seed, Vec<Mutation>)>>> = Default::default();
    }
    let entry = MENUS.with(|m| {
        m.borrow_mut()
            .entry(si)
            .or_insert_with(|| {
                let sd = seed(si);
                let mn = if sd.bytes.is_empty() { Vec::new() } else { menu(&sd, si % 4 == 0, si % 16 == 0) };
                std::rc::Rc::new((sd, mn))
            })
            .clone()
    });
    let (sd, mn) = (&entry.0, &entry.1);
    if sd.bytes.is_empty() {
        ctx.machinery_error(format!("seed {si} ({}) is empty / unreadable", sd.name));
        return;
    }
    // 0 = the unmutated seed
    let mi = ctx.pick("mutation", mn.len() + 1);
    let mut what = format!("seed {si} ({})", sd.name.chars().take(80).collect::<String>());
    let mut bytes = sd.bytes.clone();
    if mi > 0 {
        let mu = &mn[mi - 1];
        match apply(sd, mu) {
            Some(b) => bytes = b,
            None => {
                ctx.count("mutation:not-applicable");
                return;
            }
        }
        what = format!("{what} + [{}]", mu.what());
        ctx.count(format!("family:{}", mu.family()));
        // thorough: a second mutation from the numeric sub-menus on top
        if ctx.tier_thorough && matches!(mu.family(), "header" | "minmax" | "section") {
            let subs: Vec<&Mutation> = mn.iter().filter(|m| matches!(m.family(), "minmax" | "header" | "section" | "packet") && !matches!(m, Mutation::Xml { .. })).collect();
            if !subs.is_empty() {
                let k = ctx.pick("second-mutation", subs.len() + 1);
                if k > 0 {
                    let tmp = Seed { name: sd.name.clone(), bytes: bytes.clone() };
                    if let Some(b2) = apply(&tmp, subs[k - 1]) {
                        bytes = b2;
                        what = format!("{what} + [{}]", subs[k - 1].what());
                    }
                }
            }
        }
    }
    ctx.describe(|| what.clone());
    ctx.observe(&bytes[..bytes.len().min(1 << 16)]);
    ctx.observe_u64(bytes.len() as u64);
    MAX_CALL_CPU_MS.store(0, Ordering::Relaxed);
    let what2 = what.clone();
    run_all(ctx, mode, &bytes, what, if ctx.tier_thorough { 64 } else { 8 });
    if mode == Mode::Budget {
        // how close the slowest single call of this case came to the 10 s limit
        let ms = MAX_CALL_CPU_MS.load(Ordering::Relaxed);
        let bucket = match ms {
            0..=99 => "<0.1s",
            100..=999 => "0.1-1s",
            1000..=2999 => "1-3s",
            3000..=9999 => "3-10s",
            _ => ">=10s",
        };
        ctx.count(format!("slowest-call-cpu:{bucket}"));
        if ms >= 1000 {
            let tail = what2.rsplit(" + [").next().unwrap_or("").chars().take(90).collect::<String>();
            ctx.count(format!("slow-case:{:.1}s:{tail}", ms as f64 / 1000.0));
        }
    }
}

pub fn sweep_nopanic(ctx: &Ctx) {
    sweep(ctx, Mode::NoPanic);
}
pub fn sweep_budget(ctx: &Ctx) {
    sweep(ctx, Mode::Budget);
}

// ------------------------------------------------------------------------------------------
// counters: a file of more than 2^31 (and, as far as a run can go, more) pages

/// A valid E57 page stream that exists only as a formula: page 0 carries a file header announcing
/// 52-byte pages (the smallest page that holds the header fields read without the checksum layer),
/// every other page is 48 zero bytes plus their checksum.
struct FormulaDevice {
    pos: u64,
    len: u64,
    first: [u8; 52],
    other: [u8; 52],
    pub reads: u64,
}
impl FormulaDevice {
    fn new(pages: u64) -> Self {
        let seal = |payload: &[u8; 48]| -> [u8; 52] {
            let mut p = [0u8; 52];
            p[..48].copy_from_slice(payload);
            p[48..].copy_from_slice(&e57spec::crc::crc32c(payload).to_be_bytes());
            p
        };
        let mut h = [0u8; 48];
        h[..8].copy_from_slice(b"ASTM-E57");
        h[8..12].copy_from_slice(&1u32.to_le_bytes());
        h[16..24].copy_from_slice(&(pages * 52).to_le_bytes());
        h[24..32].copy_from_slice(&52u64.to_le_bytes());
        h[40..48].copy_from_slice(&52u64.to_le_bytes());
        FormulaDevice { pos: 0, len: pages * 52, first: seal(&h), other: seal(&[0u8; 48]), reads: 0 }
    }
}
impl std::io::Read for FormulaDevice {
    fn read(&mut self, buf: &mut [u8]) -> std::io::Result<usize> {
        self.reads += 1;
        let n = (buf.len() as u64).min(self.len.saturating_sub(self.pos)) as usize;
        let mut done = 0;
        while done < n {
            let page = (self.pos + done as u64) / 52;
            let off = ((self.pos + done as u64) % 52) as usize;
            let src = if page == 0 { &self.first } else { &self.other };
            let k = (52 - off).min(n - done);
            buf[done..done + k].copy_from_slice(&src[off..off + k]);
            done += k;
        }
        self.pos += n as u64;
        Ok(n)
    }
}
impl std::io::Seek for FormulaDevice {
    fn seek(&mut self, p: std::io::SeekFrom) -> std::io::Result<u64> {
        let t = match p {
            std::io::SeekFrom::Start(x) => x as i128,
            std::io::SeekFrom::End(x) => self.len as i128 + x as i128,
            std::io::SeekFrom::Current(x) => self.pos as i128 + x as i128,
        };
        if t < 0 {
            return Err(std::io::Error::new(std::io::ErrorKind::InvalidInput, "negative position"));
        }
        self.pos = t as u64;
        Ok(self.pos)
    }
}

/// whole-file checksum validation of files with 2^k + 3 pages: every page is valid, so the call
/// walks over all of them; it must return (Ok, or an error), whatever a page counter overflows
pub fn pagecount(ctx: &Ctx) {
    let exps: &[u32] = if ctx.tier_thorough { &[8, 15, 16, 24, 31] } else { &[8, 15, 16, 24] };
    let e = exps[ctx.pick("log2-pages", exps.len())];
    let pages = (1u64 << e) + 3;
    ctx.describe(|| format!("E57Reader::validate_crc on a formula device of 2^{e}+3 valid pages of 52 bytes ({} bytes)", pages * 52));
    let r = guarded(|| E57Reader::validate_crc(FormulaDevice::new(pages)));
    ctx.ops(pages);
    match r {
        Err(pi) => ctx.violation(format!("C08/panic/validate_crc/{}", pi.class()), format!("validate_crc panicked at {} ({}) on a valid file of {pages} pages of 52 bytes", pi.loc, pi.msg)),
        Ok(Ok(ps)) => {
            if ps != 52 {
                ctx.violation("C08/pagecount/wrong-page-size".to_string(), format!("validate_crc returned page size {ps}, 52 expected"));
            }
            ctx.nontrivial();
            ctx.observe_u64(pages);
        }
        Ok(Err(err)) => ctx.violation("C08/pagecount/valid-file-refused".to_string(), format!("validate_crc refused a file of {pages} valid pages: {}", crate::harness::err_string(&err))),
    }
}


/// amplification by records without bits: one 1-bit record with B stream bytes in a single data
/// packet next to Z records whose minimum equals their maximum. The input grows with Z + B, a
/// reader that materialises every value needs memory proportional to Z * B.
pub fn amplify(ctx: &Ctx) {
    use e57spec::encode::{encode, Canonical, Knobs};
    use e57spec::model::{self as m, Ty, Val};
    // (thorough: also the long streams, 160000 and 240000 points)
    let shapes: &[(usize, usize)] = if ctx.tier_thorough { &[(200, 4_000), (1000, 800), (3000, 300), (40, 20_000), (10, 30_000)] } else { &[(200, 4_000), (1000, 800)] };
    let (z, b) = shapes[ctx.pick("records-x-stream-bytes", shapes.len())];
    let scaled = ctx.pick("zero-width-type", 2) == 1;
    // 0: sized record first, 1: sized record last, 2: no sized record at all (the points then
    // exist only as the record count of the XML: 400000 / 100000 of them in a file of a few KiB)
    let sized_pos = ctx.pick("sized-record-first-last-absent", 3);
    let sized_last = sized_pos == 1;
    let absent = sized_pos == 2;
    let (z, b) = if absent { if z >= 1000 { (8, 100_000 / 8) } else { (3, 400_000 / 8) } } else { (z, b) };
    let mode = if ctx.pick("oracle", 2) == 0 { Mode::Budget } else { Mode::NoPanic };
    let zero_ty = if scaled { Ty::Scaled { min: 5, max: 5, scale: 0.5, offset: 1.0 } } else { Ty::Int { min: 5, max: 5 } };
    let mut proto: Vec<m::Rec> = Vec::new();
    if !sized_last && !absent {
        proto.push(crate::cat::rec("cartesianX", Ty::Int { min: 0, max: 1 }));
    }
    for i in 0..z {
        proto.push(crate::cat::ext_rec("ext", &format!("c{i}"), zero_ty.clone()));
    }
    if sized_last && !absent {
        proto.push(crate::cat::rec("cartesianX", Ty::Int { min: 0, max: 1 }));
    }
    let n = 8 * b;
    let zero_val = if scaled { Val::Scaled(5) } else { Val::Int(5) };
    let points: Vec<Vec<Val>> = (0..n)
        .map(|i| {
            if absent {
                return vec![zero_val; z];
            }
            let mut p = vec![zero_val; z + 1];
            p[if sized_last { z } else { 0 }] = Val::Int(((i * 7 + i / 3) % 2) as i64);
            p
        })
        .collect();
    let mut sc = crate::scenes::scene(0);
    sc.clouds.clear();
    sc.extensions = vec![("ext".into(), "http://example.com/ext".into())];
    sc.clouds.push(m::Cloud { meta: m::CloudMeta { guid: Some("c".into()), ..Default::default() }, proto, points, records: n as u64, file_offset: 0 });
    let bytes = encode(&sc, &mut Canonical, Knobs::NONE).bytes;
    let what = if absent {
        format!("{n} points of {z} records of type {} and no record with bits ({} bytes)", zero_ty.describe(), bytes.len())
    } else {
        format!("one 1-bit record with {b} stream bytes ({n} points, one data packet) and {z} records of type {} ({} bytes)", zero_ty.describe(), bytes.len())
    };
    ctx.describe(|| what.clone());
    ctx.observe_u64((z * 1_000_000 + b) as u64 + if absent { 1 << 40 } else { 0 });
    run_all(ctx, mode, &bytes, what, 2);
    ctx.nontrivial();
}
