//! Fixed list of small scenes for the encoder-driven spaces (C03, C05, C17, C08 seeds).

use crate::alpha::blobref;
use crate::cat::{ext_rec, rec, xyz, F32, F64};
use crate::harness::pattern;
use e57spec::model::*;

fn base(guid: &str) -> Scene {
    Scene { guid: guid.into(), format_name: "ASTM E57 3D Imaging Data File".into(), version: (1, 0), library_version: Some("e57spec independent encoder".into()), ..Default::default() }
}

fn cloud(guid: &str, proto: Vec<Rec>, n: usize, salt: usize) -> Cloud {
    let points = crate::cat::points_for(&proto, n, salt);
    Cloud { meta: CloudMeta { guid: Some(guid.into()), ..Default::default() }, proto, points, records: n as u64, file_offset: 0 }
}

fn img(guid: &str, kind: usize, mask: bool, n: usize, id: u64) -> Image {
    let mut i = crate::alpha::image(kind, mask, n, id);
    i.guid = Some(guid.into());
    i
}

pub const N_SCENES: usize = 12;

pub fn scene(k: usize) -> Scene {
    match k {
        0 => {
            let mut s = base("s0");
            s.clouds.push(cloud("c0", xyz(F32), 3, 1));
            s
        }
        1 => {
            let mut s = base("s1");
            let mut p = vec![rec("cartesianX", F32), rec("cartesianY", F64), rec("cartesianZ", Ty::Scaled { min: -(1 << 18), max: (1 << 18) - 1, scale: 0.001, offset: 0.0 })];
            p.push(rec("isIntensityInvalid", Ty::Int { min: 0, max: 1 }));
            p.push(rec("intensity", Ty::Int { min: 9, max: 9 }));
            p.push(rec("timeStamp", Ty::F64 { min: None, max: Some(86400.0) }));
            p.push(rec("colorRed", Ty::F32 { min: Some(0.0), max: None }));
            p.push(rec("colorGreen", Ty::F32 { min: None, max: Some(1.0) }));
            p.push(rec("colorBlue", Ty::F32 { min: Some(0.0), max: Some(1.0) }));
            s.clouds.push(cloud("c0", p, 5, 2));
            s
        }
        2 => {
            let mut s = base("s2");
            let mut p = xyz(Ty::Int { min: i64::MIN, max: i64::MAX });
            p.push(rec("timeStamp", Ty::Scaled { min: i64::MIN, max: i64::MAX, scale: 1.0, offset: 0.0 }));
            s.clouds.push(cloud("c0", p, 2, 3));
            let q = vec![rec("sphericalRange", F64), rec("sphericalAzimuth", F32), rec("sphericalElevation", F64), rec("sphericalInvalidState", Ty::Int { min: 0, max: 2 })];
            s.clouds.push(cloud("c1", q, 4, 4));
            s.images.push(img("i0", 0, false, 9, 1));
            s
        }
        3 => {
            let mut s = base("s3");
            s.extensions.push(("ext".into(), "http://example.com/ext".into()));
            s.extensions.push(("nor".into(), "http://www.libe57.org/E57_EXT_surface_normals.txt".into()));
            // a namespace name with every character that needs care inside an attribute value
            s.extensions.push(("odd".into(), "http://example.com/a b?x=1&y=<2>\t\"q\"\nsecond 'line' &#9;".into()));
            let mut p = xyz(F32);
            p.push(ext_rec("nor", "normalX", F32));
            p.push(ext_rec("ext", "classification", Ty::Int { min: 0, max: 31 }));
            s.clouds.push(cloud("c0", p, 3, 5));
            s
        }
        4 => {
            let mut s = base("s4");
            s.clouds.push(cloud("c0", xyz(F64), 0, 6));
            s.images.push(img("i0", 1, true, 20, 2));
            s
        }
        5 => {
            let mut s = base("s5");
            s.clouds.push(cloud("c0", xyz(F32), 1, 7));
            s.clouds.push(cloud("c1", xyz(Ty::Int { min: 0, max: 100 }), 2, 8));
            let mut p = xyz(Ty::Scaled { min: 0, max: 4095, scale: 0.01, offset: -20.0 });
            p.push(rec("colorRed", Ty::Int { min: 0, max: 255 }));
            p.push(rec("colorGreen", Ty::Int { min: 0, max: 255 }));
            p.push(rec("colorBlue", Ty::Int { min: 0, max: 255 }));
            s.clouds.push(cloud("c2", p, 3, 9));
            s.images.push(img("i0", 2, false, 5, 3));
            s.images.push(img("i1", 4, true, 33, 4));
            // times that are exactly zero: producers may write them as empty elements
            s.creation = Some(DateTime { gps: 0.0, atomic: false });
            s.clouds[1].meta.acq_start = Some(DateTime { gps: 0.0, atomic: true });
            s.clouds[1].meta.acq_end = Some(DateTime { gps: -0.0, atomic: false });
            s.images[1].acquisition = Some(DateTime { gps: 0.0, atomic: false });
            s
        }
        6 => {
            let mut s = base("s6 <&> ]]> \"'");
            s.creation = Some(DateTime { gps: 0.1 + 0.2, atomic: true }); // 0.30000000000000004: 17 significant digits
            s.coordinate_metadata = Some("PROJCS[\"x\"] & <y>".into());
            let mut c = cloud("c0 ]]>", xyz(F32), 2, 10);
            c.meta = CloudMeta {
                guid: Some("c0 ]]>".into()),
                name: Some("na<me".into()),
                description: Some("de&sc\nline2\r\nline3\r".into()),
                original_guids: Some(vec!["og1".into(), "".into(), "o]]>g".into()]),
                sensor_vendor: Some("v\u{e9}ndor".into()),
                sensor_model: Some("m\u{10000}".into()),
                sensor_serial: Some("  s  ".into()),
                // the edges of the XML Char production and the C1 controls (legal, rarely seen)
                sensor_hw: Some("hw\u{7f}\u{80}\u{85}\u{9f}\u{a0}".into()),
                sensor_sw: Some("sw\u{2028}\u{2029}\u{fdd0}\u{fffd}".into()),
                sensor_fw: Some("fw\u{e000}\u{1fffe}\u{10ffff}".into()),
                temperature: Some(-273.15),
                humidity: Some(0.0),
                pressure: Some(1e5),
                pose: Some(Pose { rot: [0.5, 0.5, 0.5, 0.5], trans: [1.0, -2.0, 0.0] }),
                acq_start: Some(DateTime { gps: 1.0 / 3.0, atomic: false }),
                acq_end: Some(DateTime { gps: 3600.0000000001, atomic: true }),
                cartesian_bounds: Some([Some(-1.0), Some(1.0), Some(0.0), None, Some(f64::MIN), Some(f64::MAX)]),
                spherical_bounds: None,
                index_bounds: Some([Some(0), Some(0), Some(-5), Some(i64::MAX), None, None]),
                color_limits: None,
                intensity_limits: Some([Some(LVal::F32(0.0)), Some(LVal::F32(1.0))]),
            };
            s.clouds.push(c);
            let mut i = img("i0", 3, true, 12, 5);
            i.name = Some("img".into());
            i.description = Some("d".into());
            i.pc_guid = Some("c0 ]]>".into());
            i.pose = Some(Pose::default());
            i.acquisition = Some(DateTime { gps: 1400000000.1234567, atomic: false });
            i.sensor_vendor = Some("sv".into());
            i.sensor_model = Some("sm".into());
            i.sensor_serial = Some("ss".into());
            s.images.push(i);
            s
        }
        7 => {
            let mut s = base("s7");
            let mut p = xyz(Ty::Int { min: 0, max: 127 });
            p.push(rec("intensity", Ty::Int { min: -4096, max: 4095 }));
            p.push(rec("rowIndex", Ty::Int { min: 0, max: 2 }));
            p.push(rec("columnIndex", Ty::Int { min: 0, max: (1 << 33) - 1 }));
            s.clouds.push(cloud("c0", p, 5, 11));
            s
        }
        8 => {
            let mut s = base("s8");
            s.clouds.push(cloud("c0", xyz(Ty::Int { min: 5, max: 5 }), 4, 12));
            s
        }
        9 => {
            // wide integers at every bit phase: 59, 61, 63 and 58 bits, values near the maximum
            let mut s = base("s10");
            let p = vec![
                rec("cartesianX", Ty::Int { min: 0, max: (1 << 59) - 1 }),
                rec("cartesianY", Ty::Int { min: -(1 << 60), max: (1 << 60) - 1 }),
                rec("cartesianZ", Ty::Scaled { min: 0, max: i64::MAX, scale: 1e-9, offset: 0.0 }),
                rec("intensity", Ty::Int { min: 1, max: 1 << 57 }),
            ];
            let mut c = cloud("c0", p, 9, 13);
            for (i, pt) in c.points.iter_mut().enumerate() {
                pt[0] = Val::Int((1 << 59) - 1 - (i as i64) * 3);
                pt[1] = Val::Int(if i % 2 == 0 { (1 << 60) - 1 - i as i64 } else { -(1 << 60) + i as i64 });
                pt[2] = Val::Scaled(i64::MAX - (i as i64) * 7);
                pt[3] = Val::Int((1 << 57) - i as i64);
            }
            s.clouds.push(c);
            s
        }
        11 => {
            // tiny bit-packed clouds: every stream ends in a partly used byte whose spare bits could
            // hold one or more further values (1 point of 4+4+4+2 bits; 3 points of 3+3+3+1+2 bits)
            let mut s = base("s11");
            let b = |n: &str, max: i64| rec(n, Ty::Int { min: 0, max });
            s.clouds.push(cloud("c0", vec![b("cartesianX", 15), b("cartesianY", 15), b("cartesianZ", 15), b("cartesianInvalidState", 2)], 1, 21));
            let sc = |n: &str| rec(n, Ty::Scaled { min: -3, max: 4, scale: 0.5, offset: 1.0 });
            s.clouds.push(cloud("c1", vec![sc("cartesianX"), sc("cartesianY"), sc("cartesianZ"), b("isIntensityInvalid", 1), rec("intensity", Ty::Int { min: 0, max: 3 })], 3, 22));
            // single precision limits with odd mantissas (a decimal beside their rounding midpoint
            // must still be read as exactly these values)
            let odd = Ty::F32 { min: Some(f32::from_bits(0x3F80_0001)), max: Some(f32::from_bits(0x4049_0FDB)) };
            s.clouds.push(cloud("c2", vec![rec("cartesianX", F32), rec("cartesianY", F32), rec("cartesianZ", F32), rec("timeStamp", odd)], 2, 23));
            s
        }
        _ => {
            let mut s = base("s9");
            s.images.push(img("i0", 0, true, 0, 6));
            let mut i = img("i1", 1, false, 1021, 7);
            i.visual = Some(Rep { format: ImgFormat::Jpeg, blob: blobref(pattern(99, 2041)), mask: None, width: 1, height: 1, proj: None });
            s.images.push(i);
            s
        }
    }
}
