//! C01 — raw point data survives write -> read exactly.

use crate::alpha::*;
use crate::cat;
use crate::harness::pattern;
use crate::oracle::*;
use crate::wprog::*;
use e57spec::model as m;
use explore::Ctx;

const P: &str = "C01";

fn count_section_residues(ctx: &Ctx, rb: &ReadBack) {
    for c in &rb.scene.clouds {
        ctx.count(format!("secres:{}", c.file_offset % 1024));
    }
}

/// S1: one pad blob sweeping all 255 aligned residues x 6 prototypes x npoints {0,1,3}
pub fn gen_s1(ctx: &Ctx) -> (Program, usize) {
    let pad4 = ctx.pick("pad4", 255);
    let pi = ctx.pick("proto", 6);
    let n = [0usize, 1, 3][ctx.pick("npoints", 3)];
    let protos = cat::prototypes();
    let p = Program {
        guid: "g".into(),
        ops: vec![Op::Blob(pattern(pad4 as u64, 4 * pad4)), Op::Cloud(cloud(protos[pi].1.clone(), n, 7 + pad4 as u64))],
        ..Default::default()
    };
    (p, n)
}

pub fn s1(ctx: &Ctx) {
    let (p, n) = gen_s1(ctx);
    if let Some((_, rb)) = roundtrip(ctx, &p, P) {
        count_section_residues(ctx, &rb);
        if n > 0 {
            ctx.nontrivial();
        }
    }
}

/// S2: all programs of depth <= 3 (quick) / 4 (thorough) over the standard alphabet
pub fn s2(ctx: &Ctx) {
    let p = pick_program(ctx, if ctx.tier_thorough { 4 } else { 3 });
    if let Some((_, rb)) = roundtrip(ctx, &p, P) {
        count_section_residues(ctx, &rb);
        if rb.scene.clouds.iter().any(|c| !c.points.is_empty()) {
            ctx.nontrivial();
        }
    }
}

/// S2-deep: all programs of depth exactly 4 (quick) / 5 (thorough) over a 12-op sub-alphabet
/// (4 blob sizes, 2 images, 6 clouds) of the standard alphabet
pub fn s2deep(ctx: &Ctx) {
    const SUB: [usize; 12] = [0, 1, 2, 3, 4, 5, 6, 7, 9, 14, 19, 27];
    let mut ops = Vec::new();
    for pos in 0..if ctx.tier_thorough { 5 } else { 4 } {
        ops.push(std_op(SUB[ctx.pick("prog-op", SUB.len())], pos));
    }
    let p = Program { guid: "file-guid".into(), ops, ..Default::default() };
    if let Some((_, rb)) = roundtrip(ctx, &p, P) {
        count_section_residues(ctx, &rb);
        if rb.scene.clouds.iter().any(|c| !c.points.is_empty()) {
            ctx.nontrivial();
        }
    }
}

pub fn probe_cap(proto: &[m::Rec]) -> usize {
    let p = Program { guid: "g".into(), ops: vec![Op::Cloud(cloud(proto.to_vec(), 0, 1))], ..Default::default() };
    let r = run_program(crate::dev::Dev::empty(), &p, &ExecOpts::default());
    r.caps.first().copied().unwrap_or(0)
}

/// S3: natural packet capacity: 8 prototypes x npoints around cap, 2cap, 3cap
pub fn s3(ctx: &Ctx) {
    let protos = cat::prototypes();
    let pi = ctx.pick("proto", protos.len());
    let which = ctx.pick("npoints-rel", 7);
    let proto = protos[pi].1.clone();
    let cap = probe_cap(&proto);
    if cap == 0 {
        // add_pointcloud failed or panicked for a valid prototype: let the round trip report it
        let p = Program { guid: "g".into(), ops: vec![Op::Cloud(cloud(proto, 1, 1))], ..Default::default() };
        roundtrip(ctx, &p, P);
        return;
    }
    let n = [cap - 1, cap, cap + 1, 2 * cap - 1, 2 * cap, 2 * cap + 1, 3 * cap + 1][which];
    let p = Program { guid: "g".into(), ops: vec![Op::Cloud(cloud(proto, n, 3))], ..Default::default() };
    ctx.count(format!("natural-cap:{}={}", protos[pi].0, cap));
    if roundtrip(ctx, &p, P).is_some() {
        ctx.nontrivial();
    }
}

/// tiny clouds of narrow records only (the program space of C12-G6), judged as a round trip
pub fn tiny(ctx: &Ctx) {
    let (p, _) = crate::c12::gen_g6(ctx);
    if roundtrip(ctx, &p, P).is_some() {
        ctx.nontrivial();
    }
}

/// a record without bits at every position of the prototype (the scene space of C03), written by
/// the real writer
pub fn zero_width_positions(ctx: &Ctx) {
    let (sc, _) = crate::c03::zero_width_scene(ctx);
    let c = &sc.clouds[0];
    let mut cl = cloud(c.proto.clone(), c.points.len(), 3);
    cl.points = c.points.clone();
    cl.cap = [None, Some(1), Some(3)][ctx.pick("cap", 3)];
    let p = Program { guid: "g".into(), ops: vec![Op::Cloud(cl)], ..Default::default() };
    if roundtrip(ctx, &p, P).is_some() {
        ctx.nontrivial();
    }
}

/// S9: calls the writer must refuse, between the accepted points: the record count, the points and
/// their order are those of the accepted calls only
pub fn s9(ctx: &Ctx) {
    let protos = cat::prototypes();
    let pi = ctx.pick("proto", protos.len());
    let proto = protos[pi].1.clone();
    let n = ctx.pick("npoints", 4);
    let cap = [None, Some(1), Some(2)][ctx.pick("cap", 3)];
    let kind = ctx.pick("refusal", 3);
    let mask = ctx.pick("positions", 1 << (n + 1));
    let mut cl = cloud(proto.clone(), n, 5);
    cl.cap = cap;
    // a value vector that cannot be stored: wrong type in the last value / wrong type in the
    // first value / one value too many
    let template: Vec<m::Val> = cat::points_for(&proto, 1, 99).remove(0);
    let flip = |v: &m::Val| if matches!(v, m::Val::F32(_) | m::Val::F64(_)) { m::Val::Int(0) } else { m::Val::F64(0.5) };
    let mut bad = template.clone();
    match kind {
        0 => {
            let l = bad.len() - 1;
            bad[l] = flip(&template[l]);
        }
        1 => bad[0] = flip(&template[0]),
        _ => bad.push(m::Val::Int(1)),
    }
    for at in 0..=n {
        if mask & (1 << at) != 0 {
            cl.rejects.push((at, bad.clone()));
        }
    }
    let p = Program { guid: "g".into(), ops: vec![Op::Cloud(cl)], ..Default::default() };
    ctx.describe(|| format!("{} with refused calls (kind {kind}) in front of the accepted points {:?}", describe(&p), (0..=n).filter(|a| mask & (1 << a) != 0).collect::<Vec<_>>()));
    if roundtrip(ctx, &p, P).is_some() {
        ctx.nontrivial();
    }
}

/// S8: scale - counts that cross 255 / 65535: many point clouds, many points, many packets
pub fn s8(ctx: &Ctx) {
    let k = ctx.pick("scale-case", 9 + 10 + 4 + 1);
    if k == 23 {
        // so many point clouds that the XML section exceeds 10 MiB
        let n = 21_000usize;
        let ops = (0..n).map(|i| Op::Cloud(cloud(cat::xyz(cat::F32), 1, 1000 + i as u64))).collect();
        let p = Program { guid: "g".into(), ops, ..Default::default() };
        ctx.describe(|| format!("{n} point clouds of one point each (XML section larger than 10 MiB)"));
        let Some(w) = write_valid(ctx, &p, P) else { return };
        match crate::harness::guarded(|| e57::E57Reader::new(crate::dev::Dev::new(w.bytes.clone())).map(|r| r.pointclouds().len()).map_err(|e| crate::harness::err_string(&e))) {
            Ok(Ok(c)) if c == n => {
                ctx.nontrivial();
            }
            Ok(Ok(c)) => ctx.violation(format!("{P}/diff/data3D"), format!("{n} point clouds written, {c} listed")),
            Ok(Err(e)) => ctx.violation(format!("{P}/own-file-refused/xml-size-limit"), format!("the writer finalized a file with {n} point clouds ({} bytes) successfully, the reader refuses it: {e}", w.bytes.len())),
            Err(pi) => ctx.violation(format!("{P}/read-panic/{}", pi.class()), format!("reader panicked at {} ({})", pi.loc, pi.msg)),
        }
        return;
    }
    if k >= 19 {
        // bit-packed prototypes, five natural packet capacities + 3 points: full-size packets whose
        // byte streams end in partial bytes carried over to the next packet
        let si = |bits: u32| m::Ty::Scaled { min: 0, max: (1i64 << bits) - 1, scale: 0.001, offset: 0.0 };
        let proto: Vec<m::Rec> = match k - 19 {
            0 => {
                let mut p = cat::xyz(si(12));
                p.push(cat::rec("cartesianInvalidState", m::Ty::Int { min: 0, max: 2 }));
                p
            }
            1 => {
                let mut p = cat::xyz(si(10));
                p.push(cat::rec("intensity", m::Ty::Int { min: 0, max: 255 }));
                p
            }
            2 => cat::xyz(si(7)),
            _ => {
                let mut p = cat::xyz(si(21));
                p.push(cat::rec("rowIndex", m::Ty::Int { min: 0, max: 4 }));
                p
            }
        };
        let cap = probe_cap(&proto);
        let p = Program { guid: "g".into(), ops: vec![Op::Cloud(cloud(proto, 5 * cap + 3, 11))], ..Default::default() };
        ctx.describe(|| format!("bit-packed prototype variant {}, natural packet capacity {cap}, {} points", k - 19, 5 * cap + 3));
        let Some(w) = write_valid(ctx, &p, P) else { return };
        if read_and_compare(ctx, &p, &w, P, None).is_some() {
            ctx.count(format!("bulk:{}:cap{cap}", k - 19));
            ctx.observe_u64(explore::fnv(&w.bytes));
            ctx.nontrivial();
        }
        return;
    }
    if k >= 9 {
        // wide prototypes: XYZ + r one-byte (or double) extension records, one more point than a
        // data packet takes, so that the first packet is as full as the writer makes it
        let r = [100usize, 300, 305, 310, 330, 1000, 3000, 5000, 2000, 5900][k - 9];
        let ty = if k - 9 >= 8 { cat::F64 } else { m::Ty::Int { min: 0, max: 255 } };
        let mut proto = cat::xyz(cat::F32);
        for i in 0..r {
            proto.push(cat::ext_rec("ext", &format!("a{i}"), ty.clone()));
        }
        let cap = {
            let p = Program { guid: "g".into(), ops: vec![Op::Ext("ext".into(), "http://example.com/ext".into()), Op::Cloud(cloud(proto.clone(), 0, 1))], ..Default::default() };
            run_program(crate::dev::Dev::empty(), &p, &ExecOpts::default()).caps.first().copied().unwrap_or(0)
        };
        let p = Program { guid: "g".into(), ops: vec![Op::Ext("ext".into(), "http://example.com/ext".into()), Op::Cloud(cloud(proto, cap + 1, 9))], ..Default::default() };
        ctx.describe(|| format!("XYZ + {r} extension records of {}, natural packet capacity {cap}, {} points", ty.describe(), cap + 1));
        let Some(w) = write_valid(ctx, &p, P) else { return };
        if read_and_compare(ctx, &p, &w, P, None).is_some() {
            ctx.count(format!("wide:{r}:cap{cap}"));
            ctx.observe_u64(explore::fnv(&w.bytes));
            ctx.nontrivial();
        }
        return;
    }
    let b1 = m::Ty::Int { min: 0, max: 1 };
    let p = match k {
        // 255 / 256 / 257 / 300 point clouds of one or two points each
        0..=3 => {
            let n = [255usize, 256, 257, 300][k];
            let ops = (0..n).map(|i| Op::Cloud(cloud(cat::xyz(cat::F32), 1 + i % 2, 1000 + i as u64))).collect();
            Program { guid: "g".into(), ops, ..Default::default() }
        }
        // 65535 / 65536 / 65537 points (xyz f32 + one 1-bit record)
        4..=6 => {
            let n = [65535usize, 65536, 65537][k - 4];
            let mut proto = cat::xyz(cat::F32);
            proto.push(cat::rec("isIntensityInvalid", b1.clone()));
            proto.insert(3, cat::rec("intensity", cat::F32));
            Program { guid: "g".into(), ops: vec![Op::Cloud(cloud(proto, n, 7))], ..Default::default() }
        }
        // 300 / 70000 data packets of one point each (hooked capacity 1)
        _ => {
            let n = [300usize, 70000][k - 7];
            let mut c = cloud(cat::xyz(cat::F32), n, 8);
            c.cap = Some(1);
            Program { guid: "g".into(), ops: vec![Op::Cloud(c)], ..Default::default() }
        }
    };
    ctx.describe(|| format!("scale case {k}: {} ops, {} points in the first cloud", p.ops.len(), match &p.ops[0] { Op::Cloud(c) => c.points.len(), _ => 0 }));
    let Some(w) = write_valid(ctx, &p, P) else { return };
    if read_and_compare(ctx, &p, &w, P, None).is_some() {
        ctx.observe_u64(explore::fnv(&w.bytes));
        ctx.nontrivial();
    }
}

/// S4: hooked capacity c in 1..=9 x npoints 0..=3c+1 x every catalogue type as 4th record
/// (thorough: also as the type of X, Y and Z)
pub fn gen_s4(ctx: &Ctx) -> (Program, usize, usize, usize) {
    let types = cat::types();
    let ti = ctx.pick("type", types.len());
    let c = 1 + ctx.pick("cap", 9);
    let n = ctx.pick("npoints", 3 * c + 2);
    let as_xyz = ctx.tier_thorough && ctx.pick("as-xyz", 2) == 1;
    let ty = types[ti].clone();
    let proto = if as_xyz {
        cat::xyz(ty.clone())
    } else {
        let mut p = cat::xyz(cat::F32);
        p.push(cat::rec("intensity", ty.clone()));
        p
    };
    let mut cl = cloud(proto, n, ti as u64 + 1);
    cl.cap = Some(c);
    let p = Program { guid: "g".into(), ops: vec![Op::Cloud(cl)], ..Default::default() };
    let w = ty.bits() as usize;
    (p, w, c, n)
}

pub fn s4(ctx: &Ctx) {
    let (p, w, c, n) = gen_s4(ctx);
    if roundtrip(ctx, &p, P).is_some() {
        if n > c {
            // the first packet is cut after c values: partial-byte phase at the cut
            ctx.count(format!("wphase:{}:{}", w, (c * w) % 8));
            ctx.nontrivial();
        }
    }
}

/// S5 (thorough): two clouds interleaved with a pad blob at every aligned residue, hooked capacity
pub fn s5(ctx: &Ctx) {
    let pad4 = ctx.pick("pad4", 255);
    let pi = ctx.pick("proto-a", 8);
    let pj = ctx.pick("proto-b", 4);
    let protos = cat::prototypes();
    let mut a = cloud(protos[pi].1.clone(), 5, 1);
    a.cap = Some(2);
    let mut b = cloud(protos[pj].1.clone(), 4, 2);
    b.cap = Some(3);
    let p = Program {
        guid: "g".into(),
        ops: vec![Op::Cloud(a), Op::Blob(pattern(pad4 as u64, 4 * pad4 + 1)), Op::Cloud(b), Op::Image(image(1, true, 33, 9))],
        ..Default::default()
    };
    if let Some((_, rb)) = roundtrip(ctx, &p, P) {
        count_section_residues(ctx, &rb);
        ctx.nontrivial();
    }
}

/// S6: extension attributes of every catalogue type at the first / last prototype position,
/// hooked capacity {1, 3}, npoints {0, 1, 4}, one or two registered extensions
pub fn s6(ctx: &Ctx) {
    let types = cat::types();
    let ti = ctx.pick("type", types.len());
    let first = ctx.pick("extension-record-first", 2) == 1;
    let c = [1usize, 3][ctx.pick("cap", 2)];
    let n = [0usize, 1, 4][ctx.pick("npoints", 3)];
    let two = ctx.pick("two-extensions", 2) == 1;
    // prefix and attribute name rotate through every character class the writer accepts
    const NAMES: [(&str, &str); 6] = [("ext", "attr"), ("my-ext", "q-1"), ("a_b", "_x"), ("Z9", "A-_-9"), ("e-", "n_"), ("_", "a")];
    let (pfx, attr) = NAMES[ti % NAMES.len()];
    let mut proto = cat::xyz(cat::F32);
    let e = cat::ext_rec(pfx, attr, types[ti].clone());
    if first {
        proto.insert(0, e);
    } else {
        proto.push(e);
    }
    let mut ops = vec![Op::Ext(pfx.into(), "http://example.com/ext".into())];
    if two {
        ops.insert(0, Op::Ext("other".into(), "http://example.com/other".into()));
        proto.push(cat::ext_rec("other", "cartesianX", cat::F64));
    }
    let mut cl = cloud(proto, n, ti as u64 + 3);
    cl.cap = Some(c);
    ops.push(Op::Cloud(cl));
    let p = Program { guid: "g".into(), ops, ..Default::default() };
    if roundtrip(ctx, &p, P).is_some() && n > 0 {
        ctx.nontrivial();
    }
}

/// S7: every attribute-group subset (coordinates x states x colour x intensity x row/column x
/// returns x time stamp, with and without their flags), hooked capacity 2, 5 points
pub fn s7(ctx: &Ctx) {
    let coords = ctx.pick("coords", 3);
    let mask = ctx.pick("groups", 1 << cat::N_GROUP_BITS);
    if !cat::group_mask_valid(coords, mask) {
        return;
    }
    let mut cl = cloud(cat::group_proto(coords, mask), 5, (coords * 1024 + mask) as u64);
    cl.cap = Some(2);
    let p = Program { guid: "g".into(), ops: vec![Op::Cloud(cl)], ..Default::default() };
    if roundtrip(ctx, &p, P).is_some() {
        ctx.nontrivial();
    }
}
