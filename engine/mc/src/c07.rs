//! C07 — corrupted pages never yield data; the checksum is CRC-32C in both backends.

use crate::alpha::*;
use crate::cat::{xyz, F32};
use crate::dev::Dev;
use crate::harness::{err_string, guarded, pattern};
use crate::registry::ExtraResult;
use crate::rops::*;
use crate::wprog::*;
use e57::verif::PagedReader;
use e57::E57Reader;
use e57spec::encode::{encode, Canonical, Knobs};
use explore::json::J;
use explore::{Ctx, Fnv, ViolationRec};
use std::io::Read;
use std::time::Instant;

const P: &str = "C07";
pub const N_FILES: usize = 6;

/// The small files whose pages are damaged: points, blobs and XML spread over 2-5 pages.
pub fn file(k: usize) -> Vec<u8> {
    match k {
        0 => encode(&crate::scenes::scene(5), &mut Canonical, Knobs::NONE).bytes,
        1 => {
            let p = Program {
                guid: "g".into(),
                ops: vec![Op::Blob(pattern(3, 1100)), Op::Cloud(cloud(xyz(F32), 60, 4)), Op::Image(image(4, true, 300, 5))],
                ..Default::default()
            };
            let dev = Dev::empty();
            let h = dev.handle();
            let _ = run_program(dev, &p, &ExecOpts::default());
            h.snapshot()
        }
        2 => encode(&crate::scenes::scene(6), &mut Canonical, Knobs::NONE).bytes,
        5 => {
            // runs of identical pages (same payload, hence same checksum): constant blobs over several pages
            let p = Program { guid: "g".into(), ops: vec![Op::Blob(vec![0u8; 3500]), Op::Blob(vec![0xA5u8; 3500])], ..Default::default() };
            let dev = Dev::empty();
            let h = dev.handle();
            let _ = run_program(dev, &p, &ExecOpts::default());
            h.snapshot()
        }
        4 => {
            // header + one blob fill page 0 exactly: the XML section starts at physical offset 1024
            let p = Program { guid: "g".into(), ops: vec![Op::Blob(pattern(5, 956))], ..Default::default() };
            let dev = Dev::empty();
            let h = dev.handle();
            let _ = run_program(dev, &p, &ExecOpts::default());
            h.snapshot()
        }
        _ => encode(&crate::scenes::scene(2), &mut Canonical, Knobs::NONE).bytes,
    }
}

pub struct Pristine {
    pub bytes: Vec<u8>,
    pub ops: Vec<ROp>,
    pub results: Vec<Outcome>,
    pub blobs: Vec<e57::Blob>,
    pub raw_xml: Vec<u8>,
    pub header: String,
}

pub fn pristine(k: usize) -> Result<Pristine, String> {
    let bytes = file(k);
    let r = E57Reader::new(Dev::new(bytes.clone())).map_err(|e| err_string(&e))?;
    let blobs = blob_list(&r);
    let header = format!("{:?}", r.header());
    let ops = alphabet(r.pointclouds().len(), blobs.len());
    let (results, _) = fresh_results(&bytes, &ops)?;
    E57Reader::validate_crc(Dev::new(bytes.clone())).map_err(|e| format!("validate_crc fails on the pristine file: {}", err_string(&e)))?;
    let raw_xml = E57Reader::raw_xml(Dev::new(bytes.clone())).map_err(|e| err_string(&e))?;
    Ok(Pristine { bytes, ops, results, blobs, raw_xml, header })
}

/// run `seq` (indices into p.ops) on one reader over `damaged`; every outcome must be Err or pristine
fn judge_seq(p: &Pristine, damaged: &[u8], seq: &[usize]) -> Option<(String, String)> {
    let mut r = match E57Reader::new(Dev::new(damaged.to_vec())) {
        Ok(r) => r,
        Err(_) => return None,
    };
    // the file header is data read from page 0
    let hdr = format!("{:?}", r.header());
    if hdr != p.header {
        return Some((format!("{P}/data-from-damaged-file/header"), format!("E57Reader::new succeeded and header() returns {hdr}, on the unaltered file it returns {}", p.header)));
    }
    for (i, oi) in seq.iter().enumerate() {
        let out = exec(&mut r, &p.ops[*oi], &p.blobs);
        if out.is_ok() && out != p.results[*oi] {
            let hist: Vec<String> = seq[..=i].iter().map(|x| p.ops[*x].name()).collect();
            return Some((
                format!("{P}/data-from-damaged-file/{}", p.ops[*oi].name().split('(').next().unwrap_or("")),
                format!("operation {} returned {} but on the unaltered file it returns {}; history on this reader: [{}]", p.ops[*oi].name(), out.short(), p.results[*oi].short(), hist.join("; ")),
            ));
        }
    }
    None
}

/// F1: every single-bit flip of every byte of every page x fixed operation list (forwards then backwards on one reader)
pub fn f1(ctx: &Ctx) {
    let k = ctx.pick("file", N_FILES);
    let p = match pristine(k) {
        Ok(p) => p,
        Err(e) => {
            ctx.violation(format!("{P}/precondition/pristine-file-unreadable"), format!("pristine file {k} (written by the real writer / encoded independently, undamaged) is not readable: {e}"));
            return;
        }
    };
    let pages = p.bytes.len() / 1024;
    let page = ctx.pick("page", pages);
    let byte = ctx.pick("byte", 1024);
    ctx.describe(|| format!("file {k} ({pages} pages): all 8 single-bit flips of byte {byte} of page {page}; ops: validate_crc, raw_xml, open, {} ops forwards and backwards", p.ops.len()));
    let mut seq: Vec<usize> = (0..p.ops.len()).collect();
    seq.extend((0..p.ops.len()).rev());
    let mut verdicts = Fnv::default();
    for bit in 0..8 {
        ctx.evals(1);
        ctx.ops(seq.len() as u64 + 3);
        let mut d = p.bytes.clone();
        d[page * 1024 + byte] ^= 1 << bit;
        let res = guarded(|| {
            // O2: whole-file validation must fail
            if E57Reader::validate_crc(Dev::new(d.clone())).is_ok() {
                return Some((format!("{P}/validate-crc-accepts-damage"), format!("validate_crc returned Ok although bit {bit} of byte {byte} of page {page} is flipped")));
            }
            if let Ok(x) = E57Reader::raw_xml(Dev::new(d.clone())) {
                if x != p.raw_xml {
                    return Some((format!("{P}/data-from-damaged-file/raw_xml"), format!("raw_xml returned {} bytes differing from the pristine XML ({} bytes)", x.len(), p.raw_xml.len())));
                }
            }
            judge_seq(&p, &d, &seq)
        });
        match res {
            Err(pi) => {
                ctx.violation(format!("{P}/panic/{}", pi.class()), format!("panic at {} ({}) with bit {bit} of byte {byte} of page {page} of file {k} flipped", pi.loc, pi.msg));
                return;
            }
            Ok(Some((sig, d))) => {
                ctx.violation(sig, format!("file {k}, page {page}, byte {byte}, bit {bit} flipped: {d}"));
                return;
            }
            Ok(None) => verdicts.u64(E57Reader::new(Dev::new(d)).is_ok() as u64),
        }
    }
    ctx.count(format!("flipped:file{k}-page{page}"));
    ctx.observe_u64(verdicts.0 ^ ((k * 100_000 + page * 1024 + byte) as u64));
    ctx.nontrivial();
}

/// F2: one payload flip and one checksum flip per page x all op histories of depth <= 3 on one reader
pub fn f2(ctx: &Ctx) {
    let k = ctx.pick("file", N_FILES);
    let p = match pristine(k) {
        Ok(p) => p,
        Err(e) => {
            ctx.violation(format!("{P}/precondition/pristine-file-unreadable"), format!("pristine file {k} (written by the real writer / encoded independently, undamaged) is not readable: {e}"));
            return;
        }
    };
    let pages = p.bytes.len() / 1024;
    let page = ctx.pick("page", pages);
    let kind = ctx.pick("flip-in", 3); // 0 payload middle, 1 checksum, 2 last payload byte
    let first = ctx.pick("first-op", p.ops.len());
    let mut d = p.bytes.clone();
    let off = page * 1024 + [500usize, 1021, 1019][kind];
    d[off] ^= 0x10;
    let depth = if ctx.tier_thorough { 4 } else { 3 };
    ctx.describe(|| format!("file {k}: byte {} of page {page} damaged; all histories of depth {depth} starting with {}", [500, 1021, 1019][kind], p.ops[first].name()));
    let n = p.ops.len();
    let mut seq = vec![first; depth];
    let total = n.pow(depth as u32 - 1);
    for idx in 0..total {
        let mut x = idx;
        for s in seq.iter_mut().skip(1) {
            *s = x % n;
            x /= n;
        }
        ctx.evals(1);
        match guarded(|| judge_seq(&p, &d, &seq)) {
            Err(pi) => {
                ctx.violation(format!("{P}/panic/{}", pi.class()), format!("panic at {} ({}) during history {:?}", pi.loc, pi.msg, seq.iter().map(|x| p.ops[*x].name()).collect::<Vec<_>>()));
                return;
            }
            Ok(Some((sig, det))) => {
                ctx.violation(sig, format!("file {k}, page {page} damaged at byte {}: {det}", [500, 1021, 1019][kind]));
                return;
            }
            Ok(None) => {}
        }
    }
    ctx.ops(total as u64 * depth as u64);
    ctx.observe_u64((k * 1000 + page * 100 + kind * 50 + first) as u64);
    ctx.nontrivial();
}

/// F5: polling the same iterator beyond its first error. The cloud is shifted through all 255
/// aligned residues of the page payload (so that every packet end coincides with a page end in some
/// file), one page of the cloud is damaged, and both iterators are polled 3x as often as the cloud
/// has points: every delivered item must equal the item with the same index of the unaltered file.
pub fn poll(ctx: &Ctx) {
    let pad = ctx.pick("pad", 255) * 4;
    let which = ctx.pick("iterator", 2);
    // geometry 0: 17 points per packet (packets of 216 bytes, several per page);
    // geometry 1: 300 points per packet (every byte stream of a packet is longer than a page)
    let geo = ctx.pick("geometry", 2);
    let mut c = cloud(xyz(F32), [100, 700][geo], 9);
    c.cap = Some([17, 300][geo]);
    let n = c.points.len();
    let prog = Program { guid: "g".into(), ops: vec![Op::Blob(pattern(pad as u64, pad)), Op::Cloud(c)], ..Default::default() };
    let dev = Dev::empty();
    let h = dev.handle();
    let rr = run_program(dev, &prog, &ExecOpts::default());
    if rr.err.is_some() || rr.panic.is_some() {
        ctx.violation(format!("{P}/precondition/writer-program-failed"), format!("the writer program that produces the undamaged file failed: {:?} {:?}", rr.err, rr.panic.map(|p| p.1.msg)));
        return;
    }
    let bytes = h.snapshot();
    let rep = e57spec::decode::validate(&bytes, &Default::default());
    let Some(cv) = rep.sections.iter().find(|s| s.kind == "cv") else {
        ctx.machinery_error("no point section found by the independent decoder".to_string());
        return;
    };
    let (p0, p1) = ((cv.phys_start / 1024) as usize, ((e57spec::page::log_to_phys(cv.log_start + cv.log_len.saturating_sub(1))) / 1024) as usize);
    // item list of the unaltered file
    let items = |b: &[u8], polls: usize| -> Result<Vec<Result<String, String>>, String> {
        let mut r = E57Reader::new(Dev::new(b.to_vec())).map_err(|e| err_string(&e))?;
        let pc = r.pointclouds()[0].clone();
        let mut out = Vec::new();
        if which == 0 {
            let mut it = r.pointcloud_raw(&pc).map_err(|e| err_string(&e))?;
            for _ in 0..polls {
                match it.next() {
                    None => break,
                    Some(Ok(v)) => out.push(Ok(format!("{v:?}"))),
                    Some(Err(e)) => out.push(Err(err_string(&e))),
                }
            }
        } else {
            let mut it = r.pointcloud_simple(&pc).map_err(|e| err_string(&e))?;
            for _ in 0..polls {
                match it.next() {
                    None => break,
                    Some(Ok(v)) => out.push(Ok(format!("{:?}", v.cartesian))),
                    Some(Err(e)) => out.push(Err(err_string(&e))),
                }
            }
        }
        Ok(out)
    };
    let good = match guarded(|| items(&bytes, 3 * n + 8)) {
        Ok(Ok(g)) if g.len() == n && g.iter().all(|x| x.is_ok()) => g,
        other => {
            ctx.violation(format!("{P}/precondition/unaltered-file-incomplete"), format!("unaltered file does not deliver {n} points: {:?}", other.map(|r| r.map(|v| v.len())).map_err(|p| p.msg)));
            return;
        }
    };
    ctx.describe(|| format!("blob of {pad} bytes then {n} points in packets of {}; pages {p0}..={p1} of the cloud damaged one at a time; {} iterator polled {} times", [17, 300][geo], if which == 0 { "raw" } else { "simple" }, 3 * n + 8));
    let mut h = Fnv::default();
    for page in p0..=p1 {
        for (off, bit) in [(510usize, 3u8), (1021, 0)] {
            ctx.evals(1);
            let mut d = bytes.clone();
            d[page * 1024 + off] ^= 1 << bit;
            match guarded(|| items(&d, 3 * n + 8)) {
                Err(pi) => {
                    ctx.violation(format!("{P}/panic/{}", pi.class()), format!("panic at {} ({}) polling page-{page}-damaged file (pad {pad})", pi.loc, pi.msg));
                    return;
                }
                Ok(Err(_)) => h.u64(0),
                Ok(Ok(got)) => {
                    let mut oks = 0usize;
                    let mut errs = 0usize;
                    for (call, g) in got.iter().enumerate() {
                        match g {
                            Err(_) => errs += 1,
                            Ok(v) => {
                                if oks >= n || Ok(v.clone()) != good[oks] {
                                    ctx.violation(
                                        format!("{P}/data-from-damaged-file/poll-after-error/{}", if which == 0 { "raw" } else { "simple" }),
                                        format!(
                                            "pad {pad}, byte {off} of page {page} damaged: call {call} of the iterator (after {errs} errors) delivered {v} but item {oks} of the unaltered file is {}",
                                            good.get(oks).map(|x| format!("{x:?}")).unwrap_or("<end>".into())
                                        ),
                                    );
                                    return;
                                }
                                oks += 1;
                            }
                        }
                    }
                    if errs == 0 {
                        ctx.violation(format!("{P}/damage-not-reported/poll"), format!("pad {pad}, page {page} damaged, but the iterator delivered {oks} items and no error"));
                        return;
                    }
                    h.u64((oks * 1000 + errs) as u64);
                }
            }
        }
    }
    ctx.observe_u64(h.0 ^ (pad as u64 * 4 + which as u64 * 2 + geo as u64));
    ctx.nontrivial();
}

/// F7: whole-file validation on files of 255..770 pages (page counts around multiples of 256,
/// where physical and logical sizes differ by whole pages): every page damaged in turn.
pub fn big(ctx: &Ctx) {
    const PAGES: [usize; 9] = [255, 256, 257, 300, 513, 770, 2049, 4100, 8200];
    let fi = ctx.pick("file", PAGES.len());
    let want = PAGES[fi];
    // files above 1000 pages: the first two and last two groups of 16 pages and every 32nd group
    let all_groups = want.div_ceil(16);
    let groups: Vec<usize> = if want <= 1000 { (0..all_groups).collect() } else { (0..all_groups).filter(|g| *g < 2 || *g + 2 >= all_groups || g % 32 == 0).collect() };
    let group = groups[ctx.pick("page-group", groups.len())];
    // one blob sized so that the file has exactly `want` pages (XML and header need < 2 pages)
    let blob_len = (want - 2) * 1020 - 600;
    let prog = Program { guid: "g".into(), ops: vec![Op::Blob(pattern(fi as u64 + 77, blob_len))], ..Default::default() };
    let dev = Dev::empty();
    let h = dev.handle();
    let rr = run_program(dev, &prog, &ExecOpts::default());
    let bytes = h.snapshot();
    let pages = bytes.len() / 1024;
    if rr.err.is_some() || rr.panic.is_some() || bytes.len() % 1024 != 0 || pages.abs_diff(want) > 1 {
        ctx.violation(format!("{P}/precondition/big-file-not-written"), format!("big file {fi}: wanted {want} pages, got {} bytes ({:?})", bytes.len(), rr.err));
        return;
    }
    if let Err(e) = E57Reader::validate_crc(Dev::new(bytes.clone())) {
        ctx.violation(format!("{P}/validate-crc-rejects-pristine"), format!("validate_crc fails on an unaltered file of {pages} pages: {}", err_string(&e)));
        return;
    }
    ctx.describe(|| format!("file of {pages} pages; pages {}..{} damaged one at a time (payload bit, checksum bit); validate_crc must fail", group * 16, (group * 16 + 16).min(pages)));
    let mut d = bytes;
    for page in group * 16..(group * 16 + 16).min(pages) {
        for (off, bit) in [((page * 37) % 1020, (page % 8) as u8), (1020 + page % 4, 7 - (page % 8) as u8)] {
            ctx.evals(1);
            d[page * 1024 + off] ^= 1 << bit;
            let r = guarded(|| E57Reader::validate_crc(Dev::new(d.clone())).is_ok());
            d[page * 1024 + off] ^= 1 << bit;
            match r {
                Err(pi) => {
                    ctx.violation(format!("{P}/panic/{}", pi.class()), format!("panic at {} ({}) in validate_crc", pi.loc, pi.msg));
                    return;
                }
                Ok(true) => {
                    ctx.violation(
                        format!("{P}/validate-crc-accepts-damage/big-file"),
                        format!("validate_crc returned Ok for a file of {pages} pages although bit {bit} of byte {off} of page {page} is flipped"),
                    );
                    return;
                }
                Ok(false) => {}
            }
        }
    }
    ctx.observe_u64((fi * 1000 + group) as u64);
    ctx.nontrivial();
}

/// F8: page sizes other than 1024 (reachable through `validate_crc` and `raw_xml`, which take
/// the page size from the header): every page size 64..=4200 and a few large ones; 3-page images
/// sealed with the independent bitwise CRC-32C. The unaltered image must validate and yield its
/// XML, every damaged image must fail validation and must not yield other XML. Executed in both
/// CRC backends (observations compared case by case).
pub fn pagesize(ctx: &Ctx) {
    const BIG: [usize; 7] = [8191, 8192, 8193, 65535, 65536, 65537, 1 << 20];
    let i = ctx.pick("page-size", 4200 - 64 + 1 + BIG.len());
    let ps = if i <= 4200 - 64 { 64 + i } else { BIG[i - (4200 - 64 + 1)] };
    let pl = ps - 4;
    let mut log = vec![0u8; 3 * pl];
    for (k, b) in log.iter_mut().enumerate() {
        *b = ((k as u32).wrapping_mul(2654435761) >> 11) as u8;
    }
    let xml_log = pl + 7;
    let xml_len = pl;
    let xml: Vec<u8> = (0..xml_len).map(|k| b"<e57Root xmlns='u'>abc</e57Root>\n"[k % 32]).collect();
    log[xml_log..xml_log + xml_len].copy_from_slice(&xml);
    log[0..8].copy_from_slice(b"ASTM-E57");
    log[8..12].copy_from_slice(&1u32.to_le_bytes());
    log[12..16].copy_from_slice(&0u32.to_le_bytes());
    log[16..24].copy_from_slice(&((3 * ps) as u64).to_le_bytes());
    log[24..32].copy_from_slice(&((ps + 7) as u64).to_le_bytes());
    log[32..40].copy_from_slice(&(xml_len as u64).to_le_bytes());
    log[40..48].copy_from_slice(&(ps as u64).to_le_bytes());
    let mut img = Vec::with_capacity(3 * ps);
    for pg in 0..3 {
        let payload = &log[pg * pl..(pg + 1) * pl];
        img.extend_from_slice(payload);
        img.extend_from_slice(&e57spec::crc::crc32c(payload).to_be_bytes());
    }
    ctx.describe(|| format!("page size {ps}: 3-page image; unaltered, then one damaged byte per page (first / last payload byte, each checksum byte)"));
    let mut verdicts = Fnv::default();
    let res = guarded(|| -> Result<(), (String, String)> {
        match E57Reader::validate_crc(Dev::new(img.clone())) {
            Ok(p) if p == ps as u64 => {}
            other => return Err((format!("{P}/validate-crc-rejects-pristine/page-size"), format!("validate_crc on an unaltered 3-page image with page size {ps} returned {:?}", other.map_err(|e| err_string(&e))))),
        }
        match E57Reader::raw_xml(Dev::new(img.clone())) {
            Ok(x) if x == xml => {}
            other => return Err((format!("{P}/raw-xml-wrong/page-size"), format!("raw_xml on an unaltered image with page size {ps} returned {:?}", other.map(|x| x.len()).map_err(|e| err_string(&e))))),
        }
        let mut d = img.clone();
        for pg in 0..3 {
            for off in [0, pl / 2, pl - 1, pl, pl + 1, pl + 2, pl + 3] {
                ctx.evals(1);
                let at = pg * ps + off;
                d[at] ^= 1 << (off % 8);
                let v = E57Reader::validate_crc(Dev::new(d.clone())).is_ok();
                let x = E57Reader::raw_xml(Dev::new(d.clone()));
                d[at] ^= 1 << (off % 8);
                if v {
                    return Err((format!("{P}/validate-crc-accepts-damage/page-size"), format!("validate_crc returned Ok for page size {ps} although byte {off} of page {pg} is damaged")));
                }
                if let Ok(x) = &x {
                    if *x != xml {
                        return Err((format!("{P}/data-from-damaged-file/raw_xml/page-size"), format!("raw_xml returned other bytes for page size {ps} with byte {off} of page {pg} damaged")));
                    }
                }
                verdicts.u64(x.is_ok() as u64);
            }
        }
        Ok(())
    });
    match res {
        Err(pi) => ctx.violation(format!("{P}/panic/{}", pi.class()), format!("panic at {} ({}) with page size {ps}", pi.loc, pi.msg)),
        Ok(Err((sig, d))) => ctx.violation(sig, d),
        Ok(Ok(())) => {
            ctx.observe_u64(verdicts.0 ^ ps as u64);
            ctx.nontrivial();
        }
    }
}

/// F6 digest space: file bytes of writer programs + verdict vectors of damaged files; run once with
/// the built-in CRC and once with the `crc32c` feature, the per-case observations must be identical
pub fn f6(ctx: &Ctx) {
    let which = ctx.pick("kind", 2);
    if which == 0 {
        // writer programs: the produced bytes
        let p = pick_program(ctx, 2);
        ctx.describe(|| describe(&p));
        let dev = Dev::empty();
        let h = dev.handle();
        let r = run_program(dev, &p, &ExecOpts::default());
        let bytes = h.snapshot();
        ctx.observe(&bytes);
        ctx.observe_u64(r.finalized as u64);
        // independent CRC on every page
        if let Ok((_, bad)) = e57spec::page::unseal(&bytes) {
            if !bad.is_empty() {
                ctx.violation(format!("{P}/page-crc-not-crc32c"), format!("pages {bad:?} of the written file do not carry the CRC-32C of their payload (independent bitwise implementation); program: {}", describe(&p)));
            }
        }
        ctx.nontrivial();
    } else {
        let k = ctx.pick("file", N_FILES);
        let bytes = file(k);
        let pages = bytes.len() / 1024;
        let page = ctx.pick("page", pages);
        let byte = 17 * ctx.pick("byte17", 61);
        ctx.describe(|| format!("verdict vector for file {k}, page {page}, byte {byte}, 8 bit flips"));
        for bit in 0..8 {
            let mut d = bytes.clone();
            d[page * 1024 + byte.min(1023)] ^= 1 << bit;
            let v = E57Reader::validate_crc(Dev::new(d.clone()));
            ctx.observe_str(&format!("{:?}", v.map_err(|e| err_string(&e))));
            let o = E57Reader::new(Dev::new(d)).map(|r| r.xml().len()).map_err(|e| err_string(&e));
            ctx.observe_str(&format!("{o:?}"));
        }
        ctx.observe(&bytes);
        ctx.nontrivial();
    }
}

// ------------------------------------------------------------------------------------------
// F3 + F4: two-bit flips through the real page reader, measured syndrome table, 3-bit and burst clauses

fn crc_real(payload: &[u8]) -> u32 {
    #[cfg(not(feature = "hw"))]
    {
        e57::verif::Crc32::new().calculate(payload)
    }
    #[cfg(feature = "hw")]
    {
        // with the crc32c feature the crate has no Crc32 of its own; measure through the page writer
        use std::io::Write;
        let dev = Dev::empty();
        let h = dev.handle();
        let mut w = e57::verif::PagedWriter::new(dev).unwrap();
        w.write_all(payload).unwrap();
        drop(w);
        let b = h.snapshot();
        u32::from_be_bytes([b[1020], b[1021], b[1022], b[1023]])
    }
}

/// does the real page reader accept this 1-page image?
fn reader_accepts(img: &[u8]) -> bool {
    let mut r = match PagedReader::new(Dev::new(img.to_vec()), 1024) {
        Ok(r) => r,
        Err(_) => return false,
    };
    let mut buf = [0u8; 16];
    r.read(&mut buf).is_ok()
}

/// the CRC stage in this build, then (if available) the same stage in the crc32c-feature build
pub fn extra(thorough: bool, seed: u64, deadline: Instant) -> ExtraResult {
    let mut r = extra_local(thorough, seed, deadline);
    if let Ok(hw) = std::env::var("MC_HW_EXE") {
        if std::path::Path::new(&hw).exists() {
            let secs = deadline.saturating_duration_since(Instant::now()).as_secs().max(20);
            match std::process::Command::new(&hw).args(["c07extra", if thorough { "thorough" } else { "quick" }, &seed.to_string(), &secs.to_string()]).output() {
                Ok(o) => {
                    let text = String::from_utf8_lossy(&o.stdout).to_string();
                    let mut stat = None;
                    for l in text.lines() {
                        let f: Vec<&str> = l.splitn(3, '\t').collect();
                        match f.as_slice() {
                            ["VIOL", sig, d] => r.violations.push(ViolationRec { choices: vec![], sig: sig.to_string(), detail: format!("[crc32c-feature build] {d}"), desc: String::new(), kind: "oracle" }),
                            ["MACH", m] => r.machinery_errors.push(format!("[crc32c-feature build] {m}")),
                            ["STAT", j] => stat = explore::json::J::parse(j).ok(),
                            _ => {}
                        }
                    }
                    match stat {
                        Some(j) => {
                            if let Some(t) = j.get("two_bit_flips_executed").and_then(|x| x.as_i64()) {
                                r.transitions += t as u64 + 8192;
                                r.traces += t as u64 + 8192;
                            }
                            r.json.set("crc32c_feature_build", j);
                        }
                        None => r.machinery_errors.push(format!("the crc32c-feature build did not report its CRC stage (exit {:?})", o.status.code())),
                    }
                }
                Err(e) => r.machinery_errors.push(format!("cannot run the crc32c-feature build: {e}")),
            }
        }
    }
    r
}

pub fn extra_local(thorough: bool, seed: u64, deadline: Instant) -> ExtraResult {
    let t0 = Instant::now();
    let threads = std::thread::available_parallelism().map(|n| n.get()).unwrap_or(8);
    let mut violations: Vec<ViolationRec> = Vec::new();
    let mut machinery = Vec::new();
    let viol = |sig: &str, d: String| ViolationRec { choices: vec![], sig: format!("{P}/{sig}"), detail: d, desc: String::new(), kind: "oracle" };
    // the page under study: payload pattern depends on the seed family only
    let payload: Vec<u8> = pattern(1000 + seed % 4, 1020);
    let c0 = crc_real(&payload);
    if c0 != e57spec::crc::crc32c(&payload) {
        violations.push(viol("crc-not-crc32c", format!("the crate's CRC of the test payload is {c0:#010x}, CRC-32C (bitwise reference) is {:#010x}", e57spec::crc::crc32c(&payload))));
    }
    let mut page = payload.clone();
    page.extend_from_slice(&c0.to_be_bytes());
    if !reader_accepts(&page) {
        machinery.push("page reader rejects the pristine test page".to_string());
    }
    // F4: syndrome of every single-bit error, measured by running the real implementation
    // position p = byte * 8 + bit (bit = LSB-first index inside the byte)
    let mut syn = vec![0u32; 8192];
    for p in 0..8160 {
        let mut pl = payload.clone();
        pl[p / 8] ^= 1 << (p % 8);
        syn[p] = crc_real(&pl) ^ c0;
    }
    for p in 8160..8192 {
        // a flipped bit of the stored big-endian checksum: byte k holds bits (31-8k .. 24-8k)
        let k = (p - 8160) / 8;
        let bit = (p - 8160) % 8;
        syn[p] = 1u32 << ((3 - k) * 8 + bit);
    }
    let mut executed: u64 = 8160;
    // singles through the real reader (all 8192)
    let mut single_undetected = 0;
    for p in 0..8192 {
        let mut im = page.clone();
        im[p / 8] ^= 1 << (p % 8);
        executed += 1;
        if reader_accepts(&im) {
            single_undetected += 1;
            if violations.len() < 5 {
                violations.push(viol("undetected-1-bit", format!("page reader accepts the test page with bit {} of byte {} flipped", p % 8, p / 8)));
            }
        }
        if (syn[p] == 0) != reader_accepts(&im) && machinery.is_empty() {
            machinery.push(format!("syndrome table disagrees with the reader for single bit {p}"));
        }
    }
    // F3b: the stored checksum must be exactly the big-endian CRC: every plausible mis-encoding of the
    // correct value (24 byte orders x complement x per-byte bit reversal x whole-word bit reversal,
    // CRC of the payload without final xor, CRC-32/IEEE) must be rejected unless it equals the real one
    let mut encodings_tried = 0u64;
    {
        let perms: Vec<[usize; 4]> = {
            let mut v = Vec::new();
            for a in 0..4 {
                for b in 0..4 {
                    for c in 0..4 {
                        for d in 0..4 {
                            let p = [a, b, c, d];
                            let mut seen = [false; 4];
                            p.iter().for_each(|x| seen[*x] = true);
                            if seen.iter().all(|x| *x) {
                                v.push(p);
                            }
                        }
                    }
                }
            }
            v
        };
        let crc_ieee = {
            let mut crc: u32 = 0xFFFF_FFFF;
            for &b in &payload {
                crc ^= b as u32;
                for _ in 0..8 {
                    crc = if crc & 1 != 0 { (crc >> 1) ^ 0xEDB8_8320 } else { crc >> 1 };
                }
            }
            !crc
        };
        let bases: [(u32, &str); 6] = [(c0, "crc"), (!c0, "complemented crc"), (c0.reverse_bits(), "bit-reversed crc"), (c0.swap_bytes().reverse_bits(), "per-byte bit-reversed crc"), (crc_ieee, "CRC-32/IEEE"), (c0 ^ 0xFFFF_FFFF ^ 0, "crc without final xor")];
        let good = c0.to_be_bytes();
        for (val, name) in bases {
            let b = val.to_be_bytes();
            for pm in &perms {
                let enc = [b[pm[0]], b[pm[1]], b[pm[2]], b[pm[3]]];
                if enc == good {
                    continue;
                }
                let mut im = page.clone();
                im[1020..1024].copy_from_slice(&enc);
                encodings_tried += 1;
                executed += 1;
                if reader_accepts(&im) && violations.len() < 8 {
                    violations.push(viol("checksum-encoding-accepted", format!("the page reader accepts a page whose stored checksum is the {name} in byte order {pm:?} ({enc:02x?}) instead of the big-endian CRC-32C ({good:02x?})")));
                }
            }
        }
    }
    // F3: two-bit flips through the real reader; quick: all pairs within every 64-bit window; thorough: all pairs
    let pairs_all = thorough;
    let und2 = std::sync::atomic::AtomicU64::new(0);
    let exec2 = std::sync::atomic::AtomicU64::new(0);
    let aff_bad = std::sync::Mutex::new(Vec::<String>::new());
    let und_list = std::sync::Mutex::new(Vec::<(usize, usize)>::new());
    let next = std::sync::atomic::AtomicUsize::new(0);
    let capped = std::sync::atomic::AtomicBool::new(false);
    std::thread::scope(|s| {
        for _ in 0..threads {
            s.spawn(|| {
                let mut im = page.clone();
                loop {
                    let i = next.fetch_add(1, std::sync::atomic::Ordering::Relaxed);
                    if i >= 8192 {
                        break;
                    }
                    if Instant::now() > deadline {
                        capped.store(true, std::sync::atomic::Ordering::Relaxed);
                        break;
                    }
                    let jmax = if pairs_all { 8192 } else { (i + 64).min(8192) };
                    let mut n = 0u64;
                    for j in i + 1..jmax {
                        im[i / 8] ^= 1 << (i % 8);
                        im[j / 8] ^= 1 << (j % 8);
                        let acc = reader_accepts(&im);
                        // affinity of the measured table on every executed pair:
                        // accepted <=> syndromes cancel
                        if acc != ((syn[i] ^ syn[j]) == 0) {
                            let mut g = aff_bad.lock().unwrap();
                            if g.len() < 3 {
                                g.push(format!("bits {i},{j}: reader accepts = {acc}, syndromes {:#x} ^ {:#x}", syn[i], syn[j]));
                            }
                        }
                        if acc {
                            und2.fetch_add(1, std::sync::atomic::Ordering::Relaxed);
                            let mut g = und_list.lock().unwrap();
                            if g.len() < 3 {
                                g.push((i, j));
                            }
                        }
                        im[i / 8] ^= 1 << (i % 8);
                        im[j / 8] ^= 1 << (j % 8);
                        n += 1;
                    }
                    exec2.fetch_add(n, std::sync::atomic::Ordering::Relaxed);
                }
            });
        }
    });
    let exec2 = exec2.into_inner();
    executed += exec2;
    for m in aff_bad.into_inner().unwrap() {
        machinery.push(format!("syndrome table is not affine on executed pair: {m}"));
    }
    for (i, j) in und_list.into_inner().unwrap() {
        violations.push(viol("undetected-2-bit", format!("page reader accepts the test page with bits {i} and {j} flipped (bit index = byte*8 + bit)")));
    }
    // F4a: all triples on the table: {i,j,k} undetected iff syn_i ^ syn_j == syn_k
    let mut by_syn: std::collections::HashMap<u32, Vec<u16>> = std::collections::HashMap::new();
    for (p, s) in syn.iter().enumerate() {
        by_syn.entry(*s).or_default().push(p as u16);
    }
    let mut triples_undetected = 0u64;
    let mut first_triple = None;
    let mut pair_count = 0u64;
    for i in 0..8192usize {
        for j in i + 1..8192usize {
            pair_count += 1;
            if let Some(ks) = by_syn.get(&(syn[i] ^ syn[j])) {
                for k in ks {
                    let k = *k as usize;
                    if k > j {
                        triples_undetected += 1;
                        first_triple.get_or_insert((i, j, k));
                    }
                }
            }
        }
    }
    if let Some((i, j, k)) = first_triple {
        // confirm on the real reader before reporting
        let mut im = page.clone();
        for p in [i, j, k] {
            im[p / 8] ^= 1 << (p % 8);
        }
        executed += 1;
        if reader_accepts(&im) {
            violations.push(viol("undetected-3-bit", format!("page reader accepts the test page with bits {i}, {j}, {k} flipped ({triples_undetected} such triples on the syndrome table)")));
        } else {
            machinery.push(format!("syndrome table predicts an undetected triple {i},{j},{k} that the reader detects"));
        }
    }
    // F4b: bursts of length <= 32 at every position.  Bit numbering is the CRC's own (reflected
    // CRC-32C: least significant bit of each byte first), the order in which the burst guarantee of a
    // CRC is stated; byte-aligned bursts of <= 4 bytes are the same set in either numbering.
    // Windows are classified: entirely inside the payload / overlapping the stored checksum.
    let mut burst_bad_payload: Vec<usize> = Vec::new();
    let mut burst_bad_straddle: Vec<usize> = Vec::new();
    let mut straddle_example: Option<Vec<usize>> = None;
    for start in 0..8192usize {
        let end = (start + 32).min(8192);
        // Gaussian elimination over GF(2), tracking which positions combine to zero
        let mut basis: [(u32, u32); 32] = [(0, 0); 32];
        let mut dependent: Option<u32> = None;
        for q in start..end {
            let mut v = syn[q];
            let mut comb = 1u32 << (q - start);
            while v != 0 {
                let b = 31 - v.leading_zeros() as usize;
                if basis[b].0 == 0 {
                    basis[b] = (v, comb);
                    break;
                }
                v ^= basis[b].0;
                comb ^= basis[b].1;
            }
            if v == 0 {
                dependent = Some(comb);
                break;
            }
        }
        if let Some(comb) = dependent {
            if end <= 8160 {
                burst_bad_payload.push(start);
            } else {
                burst_bad_straddle.push(start);
                if straddle_example.is_none() {
                    straddle_example = Some((0..32).filter(|i| comb >> i & 1 == 1).map(|i| start + i).collect());
                }
            }
        }
    }
    if let Some(start) = burst_bad_payload.first() {
        violations.push(viol("undetected-burst/payload", format!("the syndromes of the 32 consecutive payload bits starting at bit {start} are linearly dependent: some burst of <= 32 bits inside the page payload is undetected ({} such windows)", burst_bad_payload.len())));
    }
    if let Some(bits) = &straddle_example {
        // confirm on the real reader before reporting
        let mut im = page.clone();
        for q in bits {
            im[q / 8] ^= 1 << (q % 8);
        }
        executed += 1;
        if reader_accepts(&im) {
            violations.push(viol(
                "undetected-burst/straddling-checksum",
                format!(
                    "a burst of {} bits spanning the end of the payload and the stored big-endian checksum (bits {:?}, i.e. bytes {}..={} of the page) is accepted by the page reader ({} such windows)",
                    bits.last().unwrap() - bits[0] + 1,
                    bits,
                    bits[0] / 8,
                    bits.last().unwrap() / 8,
                    burst_bad_straddle.len()
                ),
            ));
        } else {
            machinery.push("syndrome table predicts an undetected straddling burst that the reader detects".to_string());
        }
    }
    let burst_bad: Vec<usize> = burst_bad_payload.iter().chain(burst_bad_straddle.iter()).cloned().collect();
    // bursts of length <= 10 directly through the real reader (thorough): every position, every pattern
    let mut burst_exec = 0u64;
    if thorough {
        let und = std::sync::atomic::AtomicU64::new(0);
        let cnt = std::sync::atomic::AtomicU64::new(0);
        let nxt = std::sync::atomic::AtomicUsize::new(0);
        std::thread::scope(|s| {
            for _ in 0..threads {
                s.spawn(|| {
                    let mut im = page.clone();
                    loop {
                        let st = nxt.fetch_add(1, std::sync::atomic::Ordering::Relaxed);
                        if st >= 8192 || Instant::now() > deadline {
                            break;
                        }
                        // patterns with the first bit set, length <= 10
                        for pat in (1u32..1024).step_by(2) {
                            let mut touched = Vec::with_capacity(10);
                            for b in 0..10 {
                                if pat >> b & 1 == 1 && st + b < 8192 {
                                    touched.push(st + b);
                                }
                            }
                            for q in &touched {
                                im[q / 8] ^= 1 << (q % 8);
                            }
                            if reader_accepts(&im) {
                                und.fetch_add(1, std::sync::atomic::Ordering::Relaxed);
                            }
                            for q in &touched {
                                im[q / 8] ^= 1 << (q % 8);
                            }
                            cnt.fetch_add(1, std::sync::atomic::Ordering::Relaxed);
                        }
                    }
                });
            }
        });
        burst_exec = cnt.into_inner();
        executed += burst_exec;
        if und.into_inner() > 0 {
            violations.push(viol("undetected-burst", "the page reader accepts a page damaged by a burst of <= 10 bits".to_string()));
        }
    }
    let exhaustive = !capped.into_inner();
    let json = J::obj()
        .with("space", J::s("c07.f3+f4"))
        .with("what", J::s("one 1024-byte page: all single-bit flips and all two-bit flips (quick: within every 64-bit window; thorough: all C(8192,2)) through the real PagedReader; syndrome of every single-bit error measured with the crate's CRC; table checked for affinity on every executed pair; all C(8192,3) triples and all bursts <= 32 bits decided on the table (rank test per window, both bit orders); thorough: all bursts <= 10 bits through the real reader"))
        .with("single_bit_flips_executed", J::Int(8192))
        .with("single_bit_undetected", J::Int(single_undetected))
        .with("checksum_misencodings_executed", J::Int(encodings_tried as i64))
        .with("two_bit_flips_executed", J::Int(exec2 as i64))
        .with("two_bit_all_pairs", J::Bool(pairs_all))
        .with("two_bit_undetected", J::Int(und2.into_inner() as i64))
        .with("pairs_used_for_triple_decision", J::Int(pair_count as i64))
        .with("triples_decided", J::s("all C(8192,3) = 91 592 417 280"))
        .with("triples_undetected_on_table", J::Int(triples_undetected as i64))
        .with("burst_windows_checked", J::Int(8192))
        .with("burst_windows_dependent_inside_payload", J::Int(burst_bad_payload.len() as i64))
        .with("burst_windows_dependent_straddling_checksum", J::Int(burst_bad_straddle.len() as i64))
        .with("bursts_le10_executed_through_reader", J::Int(burst_exec as i64))
        .with("crc_backend", J::s(if cfg!(feature = "hw") { "crc32c crate" } else { "built-in table" }))
        .with("wall_s", J::Num((t0.elapsed().as_secs_f64() * 100.0).round() / 100.0));
    ExtraResult {
        states: 8192 + exec2,
        transitions: executed,
        traces: executed,
        exhaustive,
        note: format!("1-bit 8192, 2-bit {exec2} executed; triples/bursts decided on measured syndrome table; undetected triples {triples_undetected}, dependent burst windows {}", burst_bad.len()),
        violations,
        machinery_errors: machinery,
        samples: vec![J::obj().with("space", J::s("c07.f3")).with("case", J::s("test page with bits 0 and 1 of byte 0 flipped -> PagedReader::read must fail"))],
        json,
    }
}

/// Every burst inside the four stored checksum bytes: for each page of a 6-page file, every
/// alteration of the stored checksum by one burst of 2..=16 bits (thorough: ..=20; all patterns
/// whose first and last bit are flipped, at every position) - the reader's comparison of stored
/// and calculated checksum must notice each of them, on its own without any help from the CRC's
/// mathematics (the payload is intact, only the stored value changes).
pub fn checksum_bursts(ctx: &Ctx) {
    let img = file(0);
    let pages = img.len() / 1024;
    let page = ctx.pick("page", pages.min(6));
    let max_len: u32 = if ctx.tier_thorough { 20 } else { 16 };
    let len = 2 + ctx.pick("burst-length", (max_len - 1) as usize) as u32;
    ctx.describe(|| format!("page {page} of a {pages}-page file: every burst of exactly {len} bits inside the stored checksum"));
    let stored = u32::from_be_bytes(img[page * 1024 + 1020..page * 1024 + 1024].try_into().unwrap());
    let inner = 1u64 << (len - 2);
    let mut n = 0u64;
    let res = guarded(|| -> Result<(), String> {
        let mut work = img.clone();
        for pos in 0..=(32 - len) {
            for mid in 0..inner {
                // first and last bit of the burst are flipped, the bits between them as `mid` says
                let pat: u64 = 1 | (mid << 1) | (1u64 << (len - 1));
                let x = ((pat as u32) << pos) ^ stored;
                work[page * 1024 + 1020..page * 1024 + 1024].copy_from_slice(&x.to_be_bytes());
                let mut r = PagedReader::new(Dev::new(work.clone()), 1024).map_err(|e| format!("PagedReader::new: {e}"))?;
                r.seek_physical((page * 1024 + 8) as u64).map_err(|e| format!("seek: {e}"))?;
                let mut b = [0u8; 4];
                n += 1;
                if r.read_exact(&mut b).is_ok() {
                    return Err(format!("stored checksum {stored:08x} replaced by {x:08x} (burst of {len} bits at bit {pos}): data of page {page} was handed out"));
                }
            }
        }
        Ok(())
    });
    ctx.evals(n);
    match res {
        Err(pi) => ctx.violation(format!("{P}/panic/{}", pi.class()), format!("page reader panicked at {} ({})", pi.loc, pi.msg)),
        Ok(Err(m)) => ctx.violation(format!("{P}/altered-checksum-accepted"), m),
        Ok(Ok(())) => {
            ctx.observe_u64((page as u64) << 8 | len as u64);
            ctx.nontrivial();
        }
    }
}
