//! C16 — device faults surface as errors; short I/O changes nothing.

use crate::alpha::*;
use crate::c15::exec_ops;
use crate::dev::{DevOp, Chunk, Dev, Src};
use crate::harness::{err_string, guarded};
use crate::rops::*;
use crate::wprog::*;
use e57::E57Reader;
use explore::Ctx;

const P: &str = "C16";
const ERR_KINDS: [std::io::ErrorKind; 6] = [std::io::ErrorKind::Other, std::io::ErrorKind::Interrupted, std::io::ErrorKind::UnexpectedEof, std::io::ErrorKind::WouldBlock, std::io::ErrorKind::TimedOut, std::io::ErrorKind::WriteZero];

fn writer_program(ctx: &Ctx) -> Program {
    let kind = ctx.pick("program-kind", 3);
    if kind == 2 {
        // every image representation kind with and without mask (payloads crossing a page end)
        let k = ctx.pick("image-kind", 5);
        let mask = ctx.pick("mask", 2) == 1;
        return Program { guid: "g".into(), ops: vec![Op::Image(image(k, mask, 1100, 7)), Op::Blob(crate::harness::pattern(3, 10))], ..Default::default() };
    }
    if kind == 0 {
        // hand-listed shapes shared with C15
        let k = ctx.pick("special", crate::c15::N_SPECIAL);
        crate::c15::special(k)
    } else {
        pick_program(ctx, if ctx.tier_thorough { 3 } else { 2 })
    }
}

/// Execute ops + finalize by hand so that the call in progress is known when a fault fires.
/// Returns (first error as (call, message)), whether finalize returned Ok, faults fired before drop.
fn run_with_device(dev: Dev, view: &Dev, p: &Program, src_chunk: Chunk, ctx: Option<&Ctx>) -> (Option<(String, String)>, bool, u64) {
    let mut w = match e57::E57Writer::new(dev, &p.guid) {
        Ok(w) => w,
        Err(e) => return (Some(("E57Writer::new".into(), err_string(&e))), false, view.with(|s| s.faults_fired)),
    };
    let _ = (src_chunk, ctx);
    if let Err(e) = exec_ops(&mut w, p) {
        let fired = view.with(|s| s.faults_fired);
        return (Some(("writer call".into(), e)), false, fired);
    }
    let r = w.finalize();
    let fired = view.with(|s| s.faults_fired);
    // "whenever top-level finalize reports success the device holds the complete file": at this
    // point (the writer is still alive) everything written must also have been flushed - on a
    // device with a write-back cache only flushed data is held by the device
    if r.is_ok() && view.with(|s| s.log_on) {
        let (mut durable, mut all): (Vec<u8>, Vec<u8>) = (Vec::new(), Vec::new());
        for op in view.with(|s| s.log.clone()) {
            match op {
                DevOp::Write { pos, data } => {
                    let e = pos as usize + data.len();
                    if all.len() < e {
                        all.resize(e, 0);
                    }
                    all[pos as usize..e].copy_from_slice(&data);
                }
                DevOp::Flush => durable = all.clone(),
            }
        }
        if durable != all {
            let at = durable.iter().zip(all.iter()).position(|(a, b)| a != b).unwrap_or(durable.len().min(all.len()));
            return (Some(("finalize-not-flushed".into(), format!("finalize returned Ok but the device writes after the last flush never reached a flush: flushed image {} bytes, written image {} bytes, first difference at byte {at}", durable.len(), all.len()))), true, fired);
        }
    }
    match r {
        Ok(()) => (None, true, fired),
        Err(e) => (Some(("finalize".into(), err_string(&e))), false, fired),
    }
}

/// one injected device error at every device-operation index of a writer program
pub fn writer_faults(ctx: &Ctx) {
    let p = writer_program(ctx);
    // fault-free run: reference bytes and number of device operations
    let dev = Dev::empty();
    dev.with(|s| s.log_on = true);
    let h = dev.handle();
    let (err, fin, _) = run_with_device(dev, &h, &p, Chunk::Full, None);
    if let Some((what, msg)) = &err {
        if what == "finalize-not-flushed" {
            ctx.violation(format!("{P}/finalize-ok-but-not-flushed"), format!("{msg}; {}", describe(&p)));
            return;
        }
    }
    if err.is_some() || !fin {
        ctx.violation(format!("{P}/program-failed"), format!("fault-free run failed: {err:?}; {}", describe(&p)));
        return;
    }
    let good = h.snapshot();
    let nops = h.with(|s| s.ops) as usize;
    let k = ctx.pick("fault-at-device-op", nops);
    // error kind of the injected fault: a generic error, "interrupted" (which std's write_all,
    // read_exact and io::copy answer by calling again), "unexpected end of file", "would block"
    let ek = ctx.pick("error-kind", ERR_KINDS.len());
    let errkind = ERR_KINDS[ek];
    ctx.describe(|| format!("{}: {} device operations, injected {errkind:?} error at operation {k}", describe(&p), nops));
    let res = guarded(|| {
        let dev = Dev::empty();
        dev.with(|s| {
            s.fault_at = Some(k as u64);
            s.fault_errkind = errkind;
        });
        let h = dev.handle();
        let (err, fin, fired_before_drop) = run_with_device(dev, &h, &p, Chunk::Full, None);
        let kind = h.with(|s| s.fault_kind).unwrap_or("?");
        (err, fin, fired_before_drop, h.with(|s| s.faults_fired), h.snapshot(), kind)
    });
    ctx.ops(20);
    let (err, fin, fired_before_drop, fired_total, bytes, kind) = match res {
        Ok(x) => x,
        Err(pi) => {
            ctx.violation(format!("{P}/panic/{}", pi.class()), format!("writer panicked at {} ({}) with a device error injected at operation {k}: {}", pi.loc, pi.msg, describe(&p)));
            return;
        }
    };
    ctx.count(format!("faulted-op-kind:{kind}"));
    // an interrupted operation may be repeated: then everything may succeed, with the right file
    if errkind == std::io::ErrorKind::Interrupted && err.is_none() && fin && bytes == good {
        ctx.count("interrupted:retried-successfully");
        ctx.observe(&bytes);
        ctx.nontrivial();
        return;
    }
    if errkind == std::io::ErrorKind::Interrupted && err.is_none() {
        ctx.violation(
            format!("{P}/interrupted-operation-corrupts-file/{kind}"),
            format!("device {kind} reported ErrorKind::Interrupted once at operation {k}; every call including finalize returned Ok, but the device content differs from the fault-free file ({} vs {} bytes): {}", bytes.len(), good.len(), describe(&p)),
        );
        return;
    }
    if fired_before_drop > 0 && err.is_none() {
        ctx.violation(
            format!("{P}/fault-swallowed/{kind}"),
            format!("device {kind} error injected at operation {k} fired during a library call, but every call including finalize returned Ok: {}", describe(&p)),
        );
        return;
    }
    if fin && bytes != good {
        ctx.violation(
            format!("{P}/finalize-ok-but-file-incomplete"),
            format!("finalize returned Ok but the device content differs from the fault-free file (fault at operation {k}, fired {fired_total}x): {}", describe(&p)),
        );
        return;
    }
    // whatever is on the device: accepted only if complete (C15's clause)
    if !fin {
        if let Ok(Ok(rd)) = guarded(|| E57Reader::new(Dev::new(bytes.clone()))) {
            let good_rd = E57Reader::new(Dev::new(good.clone())).ok();
            let same = good_rd.map_or(false, |g| g.xml() == rd.xml() && format!("{:?}", g.pointclouds()) == format!("{:?}", rd.pointclouds()));
            if !same {
                ctx.violation(format!("{P}/partial-file-accepted"), format!("after a failed write (fault at op {k}) the reader accepts the device content with other metadata than the complete file: {}", describe(&p)));
                return;
            }
        }
    }
    ctx.observe(&bytes);
    ctx.nontrivial();
}

/// The caller carries on after a failed call: every op of the program is attempted whatever the
/// earlier ones returned, and finalize is attempted up to two times. "Whenever top-level finalize
/// reports success the device holds the complete file" - complete here means: the independent
/// validator accepts it and it holds exactly the content of the calls that returned Ok.
pub fn writer_continue(ctx: &Ctx) {
    let p = writer_program(ctx);
    let dev = Dev::empty();
    let h = dev.handle();
    let (err, fin, _) = run_with_device(dev, &h, &p, Chunk::Full, None);
    if err.is_some() || !fin {
        ctx.violation(format!("{P}/program-failed"), format!("fault-free run failed: {err:?}; {}", describe(&p)));
        return;
    }
    let nops = h.with(|s| s.ops) as usize;
    let k = ctx.pick("fault-at-device-op", nops);
    let errkind = ERR_KINDS[ctx.pick("error-kind", ERR_KINDS.len())];
    // the device transfers in full or in halves (a fault in the middle of a page write leaves the
    // device position inside the page)
    let chunk = [Chunk::Full, Chunk::AlwaysHalf][ctx.pick("device-chunking", 2)];
    ctx.describe(|| format!("{}: {} device operations, injected {errkind:?} error at operation {k} (device transfers {chunk:?}); the caller continues with the remaining calls and tries finalize three times", describe(&p), nops));
    let res = guarded(|| {
        let dev = Dev::empty();
        dev.with(|s| {
            s.fault_at = Some(k as u64);
            s.fault_errkind = errkind;
            s.chunk = chunk;
        });
        let h = dev.handle();
        let mut w = match e57::E57Writer::new(dev, &p.guid) {
            Ok(w) => w,
            Err(_) => return None,
        };
        let mut done: Vec<Op> = Vec::new();
        let mut failed = 0;
        for op in &p.ops {
            let one = Program { guid: p.guid.clone(), ops: vec![op.clone()], ..Default::default() };
            if exec_ops(&mut w, &one).is_ok() {
                done.push(op.clone());
            } else {
                failed += 1;
            }
        }
        let mut attempts = 0;
        let mut fin = false;
        while attempts < 3 && !fin {
            attempts += 1;
            fin = w.finalize().is_ok();
        }
        Some((done, failed, fin, attempts, h.snapshot()))
    });
    ctx.ops(20);
    match res {
        Err(pi) => ctx.violation(format!("{P}/panic/{}", pi.class()), format!("writer panicked at {} ({}) when the caller continued after a device error at operation {k}: {}", pi.loc, pi.msg, describe(&p))),
        Ok(None) => ctx.nontrivial(),
        Ok(Some((done, failed, fin, attempts, bytes))) => {
            ctx.count(format!("failed-calls:{failed}:finalize-{}", if fin { format!("ok-at-attempt-{attempts}") } else { "refused".to_string() }));
            if fin {
                let pexp = Program { guid: p.guid.clone(), ops: done, ..Default::default() };
                let w = crate::oracle::Written { bytes, run: RunResult { finalized: true, ..Default::default() } };
                ctx.describe(|| format!("{}: {errkind:?} error at device operation {k} of {nops}, {failed} call(s) failed, finalize Ok at attempt {attempts}; expected content: {}", describe(&p), describe(&pexp)));
                if crate::c02::spec_check(ctx, &pexp, &w) {
                    ctx.observe(&w.bytes);
                    ctx.nontrivial();
                }
            } else {
                ctx.nontrivial();
            }
        }
    }
}

/// short writes / short reads of the blob source: bytes identical to the full-transfer run
pub fn writer_chunks(ctx: &Ctx) {
    let p = writer_program(ctx);
    let mode = ctx.pick("schedule", 4); // 0 chooser-driven (deviation bound), 1 always 1 byte, 2 always half, 3 alternating
    let dev = Dev::empty();
    let h = dev.handle();
    let r = run_program(dev, &p, &ExecOpts::default());
    if r.err.is_some() || r.panic.is_some() {
        ctx.violation(format!("{P}/program-failed"), format!("full-transfer run failed: {:?}; {}", r.err, describe(&p)));
        return;
    }
    let good = h.snapshot();
    let chunk = [Chunk::Choose, Chunk::AlwaysOne, Chunk::AlwaysHalf, Chunk::Alternate][mode];
    ctx.describe(|| format!("{} under chunking schedule {:?}", describe(&p), chunk));
    let cc = ctx.clone();
    let res = guarded(|| {
        let dev = Dev::empty();
        dev.with(|s| {
            s.chunk = chunk;
            s.ctx = Some(cc.clone());
        });
        let h = dev.handle();
        let r = run_program(dev, &p, &ExecOpts { src_chunk: chunk, ctx: Some(cc.clone()) });
        (r, h.snapshot(), h.with(|s| s.short_transfers))
    });
    let (r, bytes, shorts) = match res {
        Ok(x) => x,
        Err(pi) => {
            ctx.violation(format!("{P}/panic/{}", pi.class()), format!("panic at {} ({}) under short transfers: {}", pi.loc, pi.msg, describe(&p)));
            return;
        }
    };
    ctx.ops(r.api_calls);
    if let Some((i, pi)) = &r.panic {
        ctx.violation(format!("{P}/panic/{}", pi.class()), format!("writer panicked at {} ({}) in op #{i} under short transfers: {}", pi.loc, pi.msg, describe(&p)));
        return;
    }
    if let Some((_, call, e)) = &r.err {
        ctx.violation(format!("{P}/short-transfer-error/{call}"), format!("{call} failed with {e} only because the device transferred fewer bytes per call: {}", describe(&p)));
        return;
    }
    if bytes != good {
        let pos = bytes.iter().zip(good.iter()).position(|(a, b)| a != b);
        ctx.violation(
            format!("{P}/short-write-changes-file"),
            format!("file written under short transfers ({shorts} short) differs from the full-transfer file (sizes {} vs {}, first difference at {pos:?}): {}", bytes.len(), good.len(), describe(&p)),
        );
        return;
    }
    ctx.count_n("short-transfers:writer", shorts);
    ctx.observe_u64(explore::fnv(&good) ^ shorts);
    if shorts > 0 {
        ctx.nontrivial();
    }
}

fn reader_file(k: usize) -> Vec<u8> {
    crate::c07::file(k % crate::c07::N_FILES)
}

/// the reader program: validate_crc, raw_xml, open, every op of the alphabet
fn reader_run(dev: Dev) -> Result<Vec<Outcome>, (usize, String)> {
    let mut out = Vec::new();
    E57Reader::validate_crc(dev.handle()).map_err(|e| (0usize, err_string(&e)))?;
    out.push(Outcome::Ok(0, 0));
    let x = E57Reader::raw_xml(dev.handle()).map_err(|e| (1usize, err_string(&e)))?;
    out.push(Outcome::Ok(explore::fnv(&x), x.len() as u64));
    let mut r = E57Reader::new(dev).map_err(|e| (2usize, err_string(&e)))?;
    let blobs = blob_list(&r);
    let ops = alphabet(r.pointclouds().len(), blobs.len());
    for (i, op) in ops.iter().enumerate() {
        // the descriptor that runs past the end of the file fails by design: not part of this program
        if matches!(op, ROp::EofBlob) {
            continue;
        }
        let o = exec(&mut r, op, &blobs);
        if let Outcome::Err(e) = &o {
            return Err((3 + i, e.clone()));
        }
        out.push(o);
    }
    Ok(out)
}

/// one injected device error at every device-operation index of the reader program
pub fn reader_faults(ctx: &Ctx) {
    let fk = ctx.pick("file", crate::c07::N_FILES);
    let bytes = reader_file(fk);
    let dev = Dev::new(bytes.clone());
    let h = dev.handle();
    let good = match reader_run(dev) {
        Ok(g) => g,
        Err((i, e)) => {
            ctx.violation(format!("{P}/precondition/fault-free-run-fails"), format!("fault-free reader program fails at step {i}: {e}"));
            return;
        }
    };
    let nops = h.with(|s| s.ops) as usize;
    let k = ctx.pick("fault-at-device-op", nops);
    let errkind = ERR_KINDS[ctx.pick("error-kind", ERR_KINDS.len())];
    ctx.describe(|| format!("reader program on file {fk}: {nops} device operations, injected {errkind:?} error at operation {k}"));
    let res = guarded(|| {
        let dev = Dev::new(bytes.clone());
        dev.with(|s| {
            s.fault_at = Some(k as u64);
            s.fault_errkind = errkind;
        });
        let h = dev.handle();
        let r = reader_run(dev);
        (r, h.with(|s| s.faults_fired), h.with(|s| s.fault_kind).unwrap_or("?"))
    });
    ctx.ops(good.len() as u64);
    match res {
        Err(pi) => ctx.violation(format!("{P}/panic/{}", pi.class()), format!("reader panicked at {} ({}) with a device error injected at operation {k} (file {fk})", pi.loc, pi.msg)),
        Ok((Ok(got), fired, kind)) => {
            if errkind == std::io::ErrorKind::Interrupted && fired > 0 {
                // repeated after the interruption: fine if the results are the fault-free ones
                if got == good {
                    ctx.count("interrupted:retried-successfully");
                    ctx.nontrivial();
                } else {
                    ctx.violation(format!("{P}/interrupted-operation-changes-results/{kind}"), format!("device {kind} reported ErrorKind::Interrupted once at operation {k}; every reader call returned Ok but the results differ from the fault-free run (file {fk})"));
                }
                return;
            }
            if fired > 0 {
                ctx.violation(format!("{P}/fault-swallowed/{kind}"), format!("device {kind} error at operation {k} fired but every reader call returned Ok (file {fk})"));
            } else {
                ctx.machinery_error(format!("fault at device op {k} of {nops} never fired"));
            }
        }
        Ok((Err((step, _)), fired, kind)) => {
            if fired == 0 {
                ctx.violation(format!("{P}/spurious-error"), format!("reader step {step} failed although no fault fired (file {fk}, planned fault at {k})"));
                return;
            }
            ctx.count(format!("faulted-op-kind:{kind}"));
            ctx.observe_u64((fk * 10000 + step) as u64);
            ctx.nontrivial();
        }
    }
}

/// short reads: every result identical to the full-transfer run
pub fn reader_chunks(ctx: &Ctx) {
    let fk = ctx.pick("file", crate::c07::N_FILES);
    let mode = ctx.pick("schedule", 4);
    let bytes = reader_file(fk);
    let good = match reader_run(Dev::new(bytes.clone())) {
        Ok(g) => g,
        Err((i, e)) => {
            ctx.violation(format!("{P}/precondition/fault-free-run-fails"), format!("full-transfer reader program fails at step {i}: {e}"));
            return;
        }
    };
    let chunk = [Chunk::Choose, Chunk::AlwaysOne, Chunk::AlwaysHalf, Chunk::Alternate][mode];
    ctx.describe(|| format!("reader program on file {fk} under chunking schedule {chunk:?}"));
    let cc = ctx.clone();
    let res = guarded(|| {
        let dev = Dev::new(bytes.clone());
        dev.with(|s| {
            s.chunk = chunk;
            s.ctx = Some(cc.clone());
        });
        let h = dev.handle();
        (reader_run(dev), h.with(|s| s.short_transfers))
    });
    ctx.ops(good.len() as u64);
    match res {
        Err(pi) => ctx.violation(format!("{P}/panic/{}", pi.class()), format!("reader panicked at {} ({}) under short reads (file {fk})", pi.loc, pi.msg)),
        Ok((Err((step, e)), _)) => ctx.violation(format!("{P}/short-read-error"), format!("reader step {step} fails with {e} only because the device returned fewer bytes per call (file {fk}, schedule {chunk:?})")),
        Ok((Ok(out), shorts)) => {
            if out != good {
                let i = out.iter().zip(good.iter()).position(|(a, b)| a != b);
                ctx.violation(format!("{P}/short-read-changes-result"), format!("reader step {i:?} returns another result under short reads (file {fk}, schedule {chunk:?})"));
                return;
            }
            ctx.count_n("short-transfers:reader", shorts);
            ctx.observe_u64((fk * 7 + mode) as u64 ^ (shorts << 8));
            if shorts > 0 {
                ctx.nontrivial();
            }
        }
    }
}

#[allow(dead_code)]
fn unused(_: Src) {}
