//! mc — model-checking harness for cry-inc/e57.
//!
//!   mc run <ID> <quick|thorough>     run all stages of a check, write evidence, print verdict lines
//!   mc worker                        worker subprocess (line protocol on stdin/stdout)
//!   mc replay <file>                 re-run exactly one recorded case with a trace
//!   mc list                          list checks and stages

mod alpha;
mod c01;
mod c02;
mod c03;
mod c04;
mod c05;
mod scenes;
mod c06;
mod c07;
mod c08;
mod mutate;
mod rops;
mod c10;
mod c11;
mod bfs;
mod c12;
mod c13;
mod c14;
mod c15;
mod c16;
mod c17;
mod c18;
mod c19;
mod c20;
mod cat;
mod conv;
mod dev;
mod harness;
mod oracle;
mod registry;
mod wprog;

use explore::json::J;
use explore::{explore, ExploreCfg, ExploreResult, RunOpts, ViolationRec};
use registry::{checks, Check, Stage};
use std::collections::BTreeMap;
use std::time::{Duration, Instant};

#[global_allocator]
static GLOBAL: c08::Counting = c08::Counting;

fn verif_dir() -> std::path::PathBuf {
    std::env::var("VERIF_DIR").map(std::path::PathBuf::from).unwrap_or_else(|_| std::path::PathBuf::from("/verif"))
}

fn main() {
    let _ = explore::ESCAPED_PANIC.set(harness::classify_escaped_panic);
    let args: Vec<String> = std::env::args().collect();
    let cmd = args.get(1).map(|s| s.as_str()).unwrap_or("");
    match cmd {
        "worker" => {
            harness::install_panic_hook(false);
            let cap: u64 = std::env::var("MC_ALLOC_CAP").ok().and_then(|s| s.parse().ok()).unwrap_or(2 << 30);
            c08::ALLOC_CAP.store(cap, std::sync::atomic::Ordering::Relaxed);
            let all = checks();
            explore::worker_loop(&|name| all.iter().flat_map(|c| c.stages.iter()).find(|s| s.space == name).map(|s| s.f));
        }
        "run" => {
            let id = args.get(2).cloned().unwrap_or_default();
            let tier = args.get(3).cloned().unwrap_or_else(|| "quick".into());
            std::process::exit(run_check(&id, &tier));
        }
        "replay" => {
            let f = args.get(2).cloned().unwrap_or_default();
            std::process::exit(replay(&f));
        }
        "c07extra" => {
            // the CRC stage of C07 executed by this build (used for the crc32c-feature build)
            harness::install_panic_hook(false);
            let thorough = args.get(2).map(|s| s == "thorough").unwrap_or(false);
            let sd: u64 = args.get(3).and_then(|s| s.parse().ok()).unwrap_or(0);
            let secs: u64 = args.get(4).and_then(|s| s.parse().ok()).unwrap_or(60);
            let r = c07::extra_local(thorough, sd, Instant::now() + Duration::from_secs(secs));
            for v in &r.violations {
                println!("VIOL\t{}\t{}", v.sig, v.detail.replace('\n', " "));
            }
            for m in &r.machinery_errors {
                println!("MACH\t{}", m.replace('\n', " "));
            }
            println!("STAT\t{}", r.json.to_string_compact());
        }
        "xmldump" => {
            let dir = args.get(2).cloned().unwrap_or_default();
            std::process::exit(xmldump(&dir));
        }
        "list" => {
            for c in checks() {
                println!("{} [{}]", c.id, c.level);
                for s in &c.stages {
                    println!("    {:24} bound q={} t={} tiers={}  {}", s.space, s.bound.0, s.bound.1, s.tiers, s.what);
                }
            }
        }
        _ => {
            eprintln!("usage: mc run <ID> <quick|thorough> | worker | replay <file> | list");
            std::process::exit(2);
        }
    }
}

fn seed() -> u64 {
    std::env::var("VERIF_SEED").ok().and_then(|s| s.parse::<i64>().ok()).map(|v| v as u64).unwrap_or(0)
}

struct Finding {
    property: String,
    signature: String,
    what: String,
}

fn load_findings() -> Result<Vec<Finding>, String> {
    let p = verif_dir().join("known_findings.json");
    let Ok(s) = std::fs::read_to_string(&p) else { return Ok(Vec::new()) };
    let j = J::parse(&s).map_err(|e| format!("known_findings.json: {e}"))?;
    let mut out = Vec::new();
    if let Some(a) = j.get("findings").and_then(|f| f.as_arr()) {
        for f in a {
            out.push(Finding {
                property: f.get("property").and_then(|x| x.as_str()).unwrap_or("").to_string(),
                signature: f.get("signature").and_then(|x| x.as_str()).unwrap_or("").to_string(),
                what: f.get("what").and_then(|x| x.as_str()).unwrap_or("").to_string(),
            });
        }
    }
    Ok(out)
}

fn finding_matches(f: &Finding, prop: &str, sig: &str) -> bool {
    if f.property != prop {
        return false;
    }
    if let Some(p) = f.signature.strip_suffix('*') {
        sig.starts_with(p)
    } else {
        f.signature == sig
    }
}

fn stage_cfg(st: &Stage, thorough: bool, deadline: Instant, exe: &str) -> ExploreCfg {
    let mem_kb: u64 = std::env::var("MC_WORKER_MEM_KB").ok().and_then(|s| s.parse().ok()).unwrap_or(4 * 1024 * 1024);
    let workers: usize = std::env::var("MC_WORKERS").ok().and_then(|s| s.parse().ok()).unwrap_or_else(|| {
        std::thread::available_parallelism().map(|n| n.get()).unwrap_or(8)
    });
    ExploreCfg {
        space: st.space.to_string(),
        bound: if thorough { st.bound.1 } else { st.bound.0 },
        workers,
        worker_cmd: vec!["/bin/sh".into(), "-c".into(), format!("ulimit -v {mem_kb}; exec \"$0\" worker"), exe.to_string()],
        // the mutation sweeps run 8x as many option vectors per case in the thorough tier; the
        // watchdog bounds the whole case, single calls are timed by the oracle itself
        case_timeout: Duration::from_secs(if thorough && st.space.ends_with(".sweep") { st.timeout_s * 8 } else { st.timeout_s }),
        deadline: Some(deadline),
        max_cases: u64::MAX,
        n_samples: 3,
        max_violations: 200,
        thorough,
        seed: seed(),
        recheck_every: 1000,
        record_obs: st.hw_compare || st.twice,
        // C19 demands byte-identical output for identical content: hidden nondeterminism of the
        // writer is a violation of that property, not a machinery problem
        nondeterminism_signature: if st.space.starts_with("c19.") { Some("C19/nondeterministic-across-executions".to_string()) } else { None },
    }
}

fn run_check(id: &str, tier: &str) -> i32 {
    let t0 = Instant::now();
    let thorough = tier == "thorough";
    let all = checks();
    let Some(check) = all.iter().find(|c| c.id == id) else {
        eprintln!("unknown check {id}");
        return 2;
    };
    harness::install_panic_hook(false);
    let exe = std::env::current_exe().map(|p| p.to_string_lossy().to_string()).unwrap_or_else(|_| "mc".into());
    let budget = Duration::from_secs(if thorough { check.budget_s.1 } else { check.budget_s.0 });
    let findings = match load_findings() {
        Ok(f) => f,
        Err(e) => {
            println!("MACHINERY-ERROR {e}");
            return 2;
        }
    };
    // MC_ONLY_STAGE=<substring>: development aid, runs only the matching stages (never set by ./check)
    let only = std::env::var("MC_ONLY_STAGE").ok();
    let stages: Vec<&Stage> = check.stages.iter().filter(|s| s.tiers & if thorough { 2 } else { 1 } != 0).filter(|s| only.as_ref().map_or(true, |o| s.space.contains(o.as_str()))).collect();
    let mut results: Vec<ExploreResult> = Vec::new();
    for (k, st) in stages.iter().enumerate() {
        // remaining budget is shared among the remaining stages
        let remaining = budget.saturating_sub(t0.elapsed());
        let share = remaining / (stages.len() - k) as u32;
        let share = share.max(Duration::from_secs(2));
        let cfg = stage_cfg(st, thorough, Instant::now() + share, &exe);
        let r = explore(&cfg);
        eprintln!(
            "[{}] stage {:20} bound={} exec={} evals={} outcomes={} viol={} completed_bound={} capped={} wall={:.1}s",
            id, st.space, cfg.bound, r.executions, r.evals, r.distinct_obs, r.violations_total, r.completed_bound, r.capped, r.wall_s
        );
        let mut r = r;
        if st.hw_compare || st.twice {
            // second run with the workers of the crc32c-feature build (or fresh workers of this build)
            let other = if st.twice { Ok(exe.clone()) } else { std::env::var("MC_HW_EXE") };
            match other {
                Ok(hw) if std::path::Path::new(&hw).exists() => {
                    let cfg2 = stage_cfg(st, thorough, Instant::now() + share, &hw);
                    let r2 = explore(&cfg2);
                    eprintln!("[{}] stage {:20} ({}) exec={} outcomes={}", id, st.space, if st.twice { "second set of worker processes" } else { "crc32c feature build" }, r2.executions, r2.distinct_obs);
                    r.machinery_errors.extend(r2.machinery_errors.iter().cloned());
                    if r2.capped || r.capped {
                        r.capped = true;
                    } else if r.obs_by_case.len() != r2.obs_by_case.len() {
                        r.machinery_errors.push(format!("backend comparison: {} cases in the default build, {} in the crc32c build", r.obs_by_case.len(), r2.obs_by_case.len()));
                    } else {
                        for ((c1, o1), (c2, o2)) in r.obs_by_case.iter().zip(r2.obs_by_case.iter()) {
                            if c1 != c2 {
                                r.machinery_errors.push(format!("backend comparison: case lists differ ({c1} vs {c2})"));
                                break;
                            }
                            if o1 != o2 {
                                r.violations_total += 1;
                                r.violations.push(explore::ViolationRec {
                                    choices: explore::parse_choices(c1),
                                    sig: format!("{}/{}", check.id, if st.twice { "nondeterministic-across-processes" } else { "backends-differ" }),
                                    detail: format!("case [{c1}] of space {} yields observation {o1:016x} in the first run and {o2:016x} in the second ({})", st.space, if st.twice { "separate worker processes of the same build" } else { "built-in CRC vs crc32c feature" }),
                                    desc: String::new(),
                                    kind: "oracle",
                                });
                                break;
                            }
                        }
                    }
                    r.counters.insert("backend-compare:cases-compared".into(), r.obs_by_case.len() as u64);
                    r.violations.extend(r2.violations.iter().cloned());
                    r.violations_total += r2.violations_total;
                }
                _ => r.machinery_errors.push("MC_HW_EXE is not set or missing: cannot compare CRC backends".into()),
            }
        }
        results.push(r);
    }
    // extra in-process stage (E2 / E4 engines) if the check defines one
    let mut extra: Option<registry::ExtraResult> = None;
    if let Some(f) = check.extra {
        let remaining = budget.saturating_sub(t0.elapsed()).max(Duration::from_secs(5));
        // the in-process engines call the code under test directly: a panic there must not take the
        // driver (and the verdicts of the stages that already ran) with it
        let deadline = Instant::now() + remaining;
        let r = match harness::guarded(|| f(thorough, seed(), deadline)) {
            Ok(r) => r,
            Err(pi) => {
                let own = ["mc/src/", "explore/src/", "e57spec/src/", "/engine/"].iter().any(|p| pi.loc.contains(p));
                let mut r = registry::ExtraResult { states: 0, transitions: 0, traces: 0, exhaustive: false, note: "aborted by a panic".into(), violations: Vec::new(), machinery_errors: Vec::new(), samples: Vec::new(), json: J::obj() };
                if own {
                    r.machinery_errors.push(format!("in-process engine panicked at {} ({})", pi.loc, pi.msg));
                } else {
                    r.violations.push(ViolationRec {
                        choices: Vec::new(),
                        sig: format!("C00/panic-in-library/{}", pi.class()),
                        detail: format!("the code under test panicked at {} ({}) inside the in-process engine of this check", pi.loc, pi.msg),
                        desc: "in-process engine".into(),
                        kind: "oracle",
                    });
                }
                r
            }
        };
        eprintln!("[{}] extra stage: states={} transitions={} violations={} {}", id, r.states, r.transitions, r.violations.len(), r.note);
        extra = Some(r);
    }

    // verdicts
    let mut machinery: Vec<String> = Vec::new();
    let mut by_sig: BTreeMap<String, (String, explore::ViolationRec)> = BTreeMap::new();
    let mut total_viol = 0u64;
    let mut resource_deaths_ignored: Vec<String> = Vec::new();
    for (st, r) in stages.iter().zip(results.iter()) {
        machinery.extend(r.machinery_errors.iter().cloned());
        total_viol += r.violations_total;
        for v in &r.violations {
            let oom = v.kind == "crash" && v.detail.contains("exit status: 97");
            if check.ignore_resource_deaths && (oom || v.kind == "timeout") {
                // memory exhaustion and hangs are C09's business (the same sweep runs there)
                total_viol = total_viol.saturating_sub(1);
                resource_deaths_ignored.push(format!("{}: {} [{}]", st.space, v.desc, v.kind));
                continue;
            }
            let sig = if v.kind == "oracle" {
                // oracles shared between properties (e.g. the C03 judge used by C05/C12/C19) name
                // their home property; the signature is filed under the property being checked
                let b = v.sig.as_bytes();
                if b.len() > 4 && b[0] == b'C' && b[1].is_ascii_digit() && b[2].is_ascii_digit() && b[3] == b'/' && !v.sig.starts_with(check.id) {
                    format!("{}{}", check.id, &v.sig[3..])
                } else {
                    v.sig.clone()
                }
            } else if oom {
                format!("{}/out-of-memory/{}", check.id, st.space)
            } else {
                format!("{}/{}", check.id, v.sig)
            };
            by_sig.entry(sig).or_insert_with(|| (st.space.to_string(), v.clone()));
        }
    }
    if let Some(e) = &extra {
        machinery.extend(e.machinery_errors.iter().cloned());
        total_viol += e.violations.len() as u64;
        for v in &e.violations {
            let sig = if v.sig.starts_with("C00/") { format!("{}{}", check.id, &v.sig[3..]) } else { v.sig.clone() };
            by_sig.entry(sig).or_insert_with(|| ("extra".to_string(), v.clone()));
        }
    }
    let rdir = verif_dir().join("replays").join(check.id);
    let _ = std::fs::remove_dir_all(&rdir);
    let _ = std::fs::create_dir_all(&rdir);
    let mut exit = 0;
    let mut known_seen: Vec<String> = Vec::new();
    let mut reported: Vec<J> = Vec::new();
    for (sig, (space, v)) in &by_sig {
        let name = format!("{:016x}.json", explore::fnv(format!("{sig}|{}", explore::fmt_choices(&v.choices)).as_bytes()));
        let path = rdir.join(&name);
        let j = J::obj()
            .with("property", J::s(check.id))
            .with("space", J::s(space.clone()))
            .with("tier", J::s(tier))
            .with("seed", J::Int(seed() as i64))
            .with("signature", J::s(sig.clone()))
            .with("kind", J::s(v.kind))
            .with("choices", J::Arr(v.choices.iter().map(|c| J::Int(*c as i64)).collect()))
            .with("case", J::s(v.desc.clone()))
            .with("detail", J::s(v.detail.clone()))
            .with("replay_cmd", J::s(format!("./check replay {}", path.display())));
        let _ = std::fs::write(&path, j.to_string_pretty());
        if let Some(f) = findings.iter().find(|f| finding_matches(f, check.id, sig)) {
            let line = format!("KNOWN-FINDING: property={} {} [{}]", check.id, f.what, f.signature);
            if !known_seen.contains(&line) {
                println!("{line}");
                known_seen.push(line);
            }
        } else {
            println!("VIOLATION property={} replay={}", check.id, path.display());
            println!("  signature: {sig}");
            println!("  detail: {}", v.detail.chars().take(600).collect::<String>());
            exit = 1;
        }
        reported.push(J::obj().with("signature", J::s(sig.clone())).with("replay", J::s(path.display().to_string())));
    }
    if !machinery.is_empty() {
        for m in machinery.iter().take(10) {
            println!("MACHINERY-ERROR {m}");
        }
        // a violation that was found and reported stays the verdict (exit 1): code that breaks the
        // property often also breaks a precondition of a later harness step
        if exit == 0 {
            exit = 2;
        }
    }

    // evidence
    let mut ev = build_evidence(check, tier, &stages, &results, extra.as_ref(), total_viol, &known_seen, reported, t0.elapsed().as_secs_f64());
    if !resource_deaths_ignored.is_empty() {
        for d in resource_deaths_ignored.iter().take(5) {
            println!("NOTE memory/time death left to C09 (same sweep with budgets): {}", d.chars().take(300).collect::<String>());
        }
        ev.set("resource_deaths_left_to_C09", J::Arr(resource_deaths_ignored.iter().take(50).map(|d| J::s(d.clone())).collect()));
    }
    let edir = verif_dir().join("evidence");
    let _ = std::fs::create_dir_all(&edir);
    if let Err(e) = std::fs::write(edir.join(format!("{}.json", check.id)), ev.to_string_pretty()) {
        println!("MACHINERY-ERROR cannot write evidence: {e}");
        exit = 2;
    }
    let execs: u64 = results.iter().map(|r| r.executions).sum::<u64>() + extra.as_ref().map_or(0, |e| e.traces);
    println!(
        "{} {}: {} executions, {} violations ({} distinct classes, {} known), {:.1}s -> exit {}",
        check.id,
        tier,
        execs,
        total_viol,
        by_sig.len(),
        known_seen.len(),
        t0.elapsed().as_secs_f64(),
        exit
    );
    exit
}

#[allow(clippy::too_many_arguments)]
fn build_evidence(
    check: &Check,
    tier: &str,
    stages: &[&Stage],
    results: &[ExploreResult],
    extra: Option<&registry::ExtraResult>,
    total_viol: u64,
    known: &[String],
    reported: Vec<J>,
    wall: f64,
) -> J {
    let mut states = 0u64;
    let mut transitions = 0u64;
    let mut execs = 0u64;
    let mut evals = 0u64;
    let mut nontrivial = 0u64;
    let mut samples: Vec<J> = Vec::new();
    let mut stage_js: Vec<J> = Vec::new();
    let mut exhaustive = true;
    let mut caps: Vec<J> = Vec::new();
    for (st, r) in stages.iter().zip(results.iter()) {
        states += r.distinct_obs;
        transitions += r.ops;
        execs += r.executions;
        evals += r.evals;
        nontrivial += r.distinct_nontrivial;
        if r.capped {
            exhaustive = false;
            caps.push(J::s(format!("{}: time/size cap hit, completed deviation bound {} of {}", st.space, r.completed_bound, r.bound)));
        }
        for (ch, d) in r.samples.iter().take(2) {
            samples.push(
                J::obj()
                    .with("space", J::s(st.space))
                    .with("choices", J::s(explore::fmt_choices(ch)))
                    .with("case", J::s(d.chars().take(700).collect::<String>())),
            );
        }
        // coverage tables: group counters "table:key" by table
        let mut tables: BTreeMap<String, BTreeMap<String, u64>> = BTreeMap::new();
        for (k, v) in &r.counters {
            let (t, key) = k.split_once(':').unwrap_or((k.as_str(), ""));
            tables.entry(t.to_string()).or_default().insert(key.to_string(), *v);
        }
        let mut tj = J::obj();
        for (t, m) in &tables {
            let mut o = J::obj().with("distinct_keys", J::Int(m.len() as i64));
            if m.len() <= 40 {
                let mut kv = J::obj();
                for (k, v) in m {
                    kv.set(k, J::Int(*v as i64));
                }
                o.set("counts", kv);
            } else {
                let keys: Vec<&String> = m.keys().collect();
                o.set("first_keys", J::Arr(keys.iter().take(12).map(|k| J::s((*k).clone())).collect()));
                o.set("total", J::Int(m.values().sum::<u64>() as i64));
            }
            tj.set(t, o);
        }
        stage_js.push(
            J::obj()
                .with("space", J::s(st.space))
                .with("what", J::s(st.what))
                .with("deviation_bound", J::Int(r.bound as i64))
                .with("completed_bound", J::Int(r.completed_bound))
                .with("capped", J::Bool(r.capped))
                .with("executions", J::Int(r.executions as i64))
                .with("executions_per_deviation_level", J::Arr(r.per_level.iter().map(|x| J::Int(*x as i64)).collect()))
                .with("inner_evaluations", J::Int(r.evals as i64))
                .with("api_operations", J::Int(r.ops as i64))
                .with("choice_points", J::Int(r.points as i64))
                .with("max_choice_points", J::Int(r.max_points as i64))
                .with("distinct_outcomes", J::Int(r.distinct_obs as i64))
                .with("distinct_nontrivial_outcomes", J::Int(r.distinct_nontrivial as i64))
                .with("replayed_twice", J::Int(r.rechecked as i64))
                .with("violations", J::Int(r.violations_total as i64))
                .with("worker_deaths_not_reproduced", J::Int(r.flaky_crashes as i64))
                .with("wall_s", J::Num((r.wall_s * 100.0).round() / 100.0))
                .with("tables", tj),
        );
    }
    if let Some(e) = extra {
        states += e.states;
        transitions += e.transitions;
        execs += e.traces;
        evals += e.traces;
        nontrivial += e.states;
        if !e.exhaustive {
            exhaustive = false;
            caps.push(J::s(format!("extra: {}", e.note)));
        }
        samples.extend(e.samples.iter().cloned());
        stage_js.push(e.json.clone());
    }
    let cov = J::obj()
        .with("states", J::Int(states.max(1) as i64))
        .with("transitions", J::Int(transitions.max(1) as i64))
        .with("traces_validated_against_impl", J::Int(execs as i64))
        .with("evaluations", J::Int(evals.max(execs) as i64))
        .with("distinct_nontrivial", J::Int(nontrivial as i64))
        .with("rule", J::s(check.rule))
        .with("exhaustive", J::Bool(exhaustive))
        .with("caps_hit", J::Arr(caps))
        .with("samples", J::Arr(if samples.is_empty() { vec![J::s("no case executed")] } else { samples }))
        .with("stages", J::Arr(stage_js))
        .with("known_findings_reported", J::Arr(known.iter().map(|k| J::s(k.clone())).collect()))
        .with("violation_classes", J::Arr(reported));
    J::obj()
        .with("property_id", J::s(check.id))
        .with("tier", J::s(tier))
        .with("seed", J::Int(seed() as i64))
        .with("level", J::s(check.level))
        .with("coverage", cov)
        .with("assumptions", J::Arr(check.assumptions.iter().map(|a| J::s(*a)).collect()))
        .with("wall_s", J::Num((wall * 100.0).round() / 100.0))
        .with("violations", J::Int(total_viol as i64))
}

/// Model honesty: write XML documents plus the infoset computed by the independent parser, for the
/// expat cross-check (py/xml_xcheck.py).
fn xmldump(dir: &str) -> i32 {
    use e57spec::encode::{encode, Choose, Knobs};
    struct Seq(Vec<usize>, usize);
    impl Choose for Seq {
        fn choose(&mut self, _l: &str, a: usize) -> usize {
            let v = self.0.get(self.1).copied().unwrap_or(0);
            self.1 += 1;
            v % a
        }
    }
    let _ = std::fs::remove_dir_all(dir);
    if std::fs::create_dir_all(dir).is_err() {
        return 2;
    }
    let mut docs: Vec<Vec<u8>> = Vec::new();
    // 1. lexical variants of every scene: every single deviation and pairs of neighbouring ones
    for si in 0..scenes::N_SCENES {
        let sc = scenes::scene(si);
        let k = Knobs { xml_lexical: true, proto_attrs: true, ..Knobs::NONE };
        for dev in 0..24usize {
            for alt in 1..5usize {
                let mut v = vec![0usize; 26];
                v[dev] = alt;
                if dev % 3 == 0 {
                    v[(dev + 5) % 24] = 1;
                }
                docs.push(encode(&sc, &mut Seq(v, 0), k).xml.into_bytes());
            }
        }
    }
    // 2. writer documents with the string catalogue in every field
    let strings = cat::strings();
    for s0 in (0..strings.len()).step_by(7) {
        let p = c04::build_with(&strings, s0, s0 % 5);
        let dev = dev::Dev::empty();
        let h = dev.handle();
        let _ = wprog::run_program(dev, &p, &wprog::ExecOpts::default());
        let bytes = h.snapshot();
        if let Ok(x) = e57::E57Reader::raw_xml(dev::Dev::new(bytes)) {
            docs.push(x);
        }
    }
    // 3. bundled files
    if let Ok(rd) = std::fs::read_dir("/repo/testdata") {
        let mut names: Vec<_> = rd.flatten().map(|e| e.path()).filter(|p| p.extension().map_or(false, |e| e == "e57")).collect();
        names.sort();
        for n in names {
            if let Ok(b) = std::fs::read(&n) {
                if let Ok(x) = e57::E57Reader::raw_xml(dev::Dev::new(b)) {
                    docs.push(x);
                }
            }
        }
    }
    // 4. documents both parsers must reject
    for bad in ["<a><b></a>", "<a>]]></a>", "<p:a/>", "<a b='1' b='2'/>", "<a>&unknown;</a>", "<a><!-- -- --></a>", "<a></a><b/>", "<a b=1/>", "<a>\u{1}</a>", "<a xmlns:p='u'><p:b></p:c></a>"] {
        docs.push(bad.as_bytes().to_vec());
    }
    docs.sort();
    docs.dedup();
    for (i, d) in docs.iter().enumerate() {
        let info = match std::str::from_utf8(d).map_err(|e| e.to_string()).and_then(e57spec::xml::parse) {
            Ok(doc) => e57spec::xml::infoset(&doc),
            Err(e) => format!("ERROR {e}\n"),
        };
        if std::fs::write(format!("{dir}/doc_{i:05}.xml"), d).is_err() || std::fs::write(format!("{dir}/doc_{i:05}.info"), info).is_err() {
            return 2;
        }
    }
    println!("xmldump: {} documents written to {dir}", docs.len());
    0
}

fn replay(file: &str) -> i32 {
    let Ok(s) = std::fs::read_to_string(file) else {
        eprintln!("cannot read {file}");
        return 2;
    };
    let j = match J::parse(&s) {
        Ok(j) => j,
        Err(e) => {
            eprintln!("bad replay file: {e}");
            return 2;
        }
    };
    let space = j.get("space").and_then(|x| x.as_str()).unwrap_or("").to_string();
    let choices: Vec<u32> = j.get("choices").and_then(|x| x.as_arr()).map(|a| a.iter().filter_map(|v| v.as_i64()).map(|v| v as u32).collect()).unwrap_or_default();
    let thorough = j.get("tier").and_then(|x| x.as_str()) == Some("thorough");
    let sd = j.get("seed").and_then(|x| x.as_i64()).unwrap_or(0) as u64;
    let all = checks();
    if space == "extra" {
        eprintln!("this violation comes from an in-process engine stage; detail:\n{}", j.get("detail").and_then(|x| x.as_str()).unwrap_or(""));
        return 0;
    }
    let Some(st) = all.iter().flat_map(|c| c.stages.iter()).find(|s| s.space == space) else {
        eprintln!("unknown space {space}");
        return 2;
    };
    harness::install_panic_hook(true);
    eprintln!("replaying {} choices={:?}", space, choices);
    let spec = format!("0|0|{}", explore::fmt_choices(&choices));
    let o = RunOpts { bound: 0, want_desc: true, trace: true, thorough, seed: sd };
    let r = explore::run_case(st.f, &spec, &o);
    println!("case: {}", r.desc);
    if r.status == 2 {
        println!("MACHINERY-ERROR {}", r.err);
        return 2;
    }
    if r.violations.is_empty() {
        println!("replay: no violation");
        0
    } else {
        for v in &r.violations {
            println!("replay: VIOLATION {} -- {}", v.sig, v.detail);
        }
        1
    }
}
