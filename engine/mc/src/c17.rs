//! C17 — read operations are independent of what was read before.

use crate::alpha::*;
use crate::bfs::{bfs, StepOut};
use crate::cat;
use crate::dev::Dev;
use crate::harness::guarded;
use crate::registry::ExtraResult;
use crate::rops::*;
use crate::wprog::*;
use e57::E57Reader;
use e57spec::page;
use explore::json::J;
use explore::{Ctx, Fnv};
use std::time::Instant;

const P: &str = "C17";
pub const N_VARIANTS: usize = 8;

fn base_file() -> Vec<u8> {
    base_file_with(false)
}

/// `twins`: both point clouds carry the same GUID (nothing forbids it) but differ in prototype,
/// pose and limits, so anything remembered per GUID shows
fn base_file_with(twins: bool) -> Vec<u8> {
    let mut a = cloud(cat::xyz(cat::F32), 200, 1); // spans three pages
    a.cap = Some(64);
    let mut b = cloud(cat::prototypes()[3].1.clone(), 10, 2);
    if twins {
        a.meta.guid = Some("twin".into());
        b.meta.guid = Some("twin".into());
        a.meta.pose = Some(e57spec::model::Pose { rot: [0.5, 0.5, 0.5, 0.5], trans: [10.0, 20.0, 30.0] });
    }
    // the payload of the first image blob starts with what looks like a blob section header of
    // enormous length, so that a descriptor placed 16 bytes into it reads up to the end of the file
    let mut first = image(4, true, 100, 3);
    if let Some(v) = &mut first.visual {
        v.blob.data[..8].fill(0);
        v.blob.data[8..16].copy_from_slice(&u64::MAX.to_le_bytes());
    }
    let p = Program {
        guid: "g".into(),
        ops: vec![Op::Cloud(a), Op::Image(first), Op::Cloud(b), Op::Image(image(1, false, 1500, 4))],
        ..Default::default()
    };
    let dev = Dev::empty();
    let h = dev.handle();
    let _ = run_program(dev, &p, &ExecOpts::default());
    h.snapshot()
}

fn reseal_all(b: &mut [u8]) {
    for pg in 0..b.len() / 1024 {
        page::reseal_page(b, pg);
    }
}

/// 0 intact; 1 payload bit flipped inside cloud 0; 2 inside an image blob; 3 cloud 0 section id
/// destroyed (page resealed); 4 second packet header of cloud 0 destroyed (resealed); 5 checksum
/// byte of a cloud page flipped; 6 illegal invalid-state value inside the second cloud (resealed); 7 intact, both clouds with the same GUID but different prototype and pose
pub fn variant(k: usize) -> Vec<u8> {
    if k == 7 {
        return base_file_with(true);
    }
    let mut b = base_file();
    let rep = e57spec::decode::validate(&b, &Default::default());
    let cv = rep.sections.iter().find(|s| s.kind == "cv").expect("cloud section");
    let blob = rep.sections.iter().filter(|s| s.kind == "blob").nth(1).expect("blob section");
    match k {
        0 => {}
        1 => {
            let ph = page::log_to_phys(cv.log_start + 1500) as usize;
            b[ph] ^= 0x04;
        }
        2 => {
            let ph = page::log_to_phys(blob.log_start + 40) as usize;
            b[ph] ^= 0x80;
        }
        3 => {
            b[cv.phys_start as usize] = 7;
            reseal_all(&mut b);
        }
        4 => {
            let pk = &cv.packets[1];
            let ph = page::log_to_phys(pk.log_off) as usize;
            b[ph] = 9;
            reseal_all(&mut b);
        }
        5 => {
            let pg = (page::log_to_phys(cv.log_start + 2300) / 1024) as usize;
            b[pg * 1024 + 1022] ^= 0x01;
        }
        _ => {
            // intact pages, but point 5 of the second cloud stores the illegal invalid-state value 3:
            // the simple iterator fails in the middle of a batch, the raw iterator does not fail
            let cv2 = rep.sections.iter().filter(|s| s.kind == "cv").nth(1).expect("second cloud section");
            let pk = cv2.packets.iter().find(|p| p.kind == 1).expect("data packet");
            let n = pk.stream_sizes.len();
            let start = pk.log_off as usize + 6 + 2 * n + pk.stream_sizes[..3].iter().sum::<usize>();
            let ph = page::log_to_phys(start as u64 + 1) as usize; // bits 10,11 of the 2-bit state stream
            b[ph] |= 0x0C;
            reseal_all(&mut b);
        }
    }
    b
}

struct FileCtx {
    bytes: Vec<u8>,
    ops: Vec<ROp>,
    fresh: Vec<Outcome>,
    blobs: Vec<e57::Blob>,
}

fn file_ctx(k: usize) -> Result<FileCtx, String> {
    let bytes = variant(k);
    let r = E57Reader::new(Dev::new(bytes.clone())).map_err(|e| crate::harness::err_string(&e))?;
    let blobs = blob_list(&r);
    let ops = alphabet(r.pointclouds().len(), blobs.len());
    let (fresh, _) = fresh_results(&bytes, &ops)?;
    Ok(FileCtx { bytes, ops, fresh, blobs })
}

/// all histories of depth <= 3 (thorough 4) on one reader; every result must equal the fresh-reader result
pub fn histories(ctx: &Ctx) {
    let vk = ctx.pick("file-variant", N_VARIANTS);
    let f = match file_ctx(vk) {
        Ok(f) => f,
        Err(e) => {
            ctx.violation(format!("{P}/precondition/variant-cannot-be-opened"), format!("file variant {vk} cannot be opened by a fresh reader: {e}"));
            return;
        }
    };
    let n = f.ops.len();
    let first = ctx.pick("first-op", n);
    let depth = if ctx.tier_thorough { 4 } else { 3 };
    ctx.describe(|| format!("file variant {vk} ({} ops in the alphabet): all histories of depth {depth} starting with {}", n, f.ops[first].name()));
    let total = n.pow(depth as u32 - 1);
    let mut seq = vec![first; depth];
    let mut errs = 0u64;
    for idx in 0..total {
        let mut x = idx;
        for s in seq.iter_mut().skip(1) {
            *s = x % n;
            x /= n;
        }
        ctx.evals(1);
        let res = guarded(|| {
            let mut r = E57Reader::new(Dev::new(f.bytes.clone())).ok()?;
            for (i, oi) in seq.iter().enumerate() {
                let out = exec(&mut r, &f.ops[*oi], &f.blobs);
                if out != f.fresh[*oi] {
                    return Some((i, out));
                }
            }
            None
        });
        match res {
            Err(pi) => {
                ctx.violation(format!("{P}/panic/{}", pi.class()), format!("panic at {} ({}) in history {:?} (variant {vk})", pi.loc, pi.msg, seq.iter().map(|x| f.ops[*x].name()).collect::<Vec<_>>()));
                return;
            }
            Ok(Some((i, out))) => {
                let hist: Vec<String> = seq[..=i].iter().map(|x| f.ops[*x].name()).collect();
                ctx.violation(
                    format!("{P}/history-dependent/{}", f.ops[seq[i]].name().split('(').next().unwrap_or("")),
                    format!("file variant {vk}: after [{}] the operation {} returns {} but on a freshly opened reader it returns {}", hist[..i].join("; "), hist[i], out.short(), f.fresh[seq[i]].short()),
                );
                return;
            }
            Ok(None) => {
                if seq.iter().any(|x| !f.fresh[*x].is_ok()) {
                    errs += 1;
                }
            }
        }
    }
    ctx.ops(total as u64 * depth as u64);
    ctx.count_n("histories:with-a-failing-op", errs);
    ctx.observe_u64((vk * 1000 + first) as u64);
    ctx.nontrivial();
}

/// one-shot device fault during operation A (every device-operation index), then every operation B
/// on the healthy device must equal the fresh-reader result
pub fn faults(ctx: &Ctx) {
    let vk = ctx.pick("file-variant", 2) * 5; // intact and checksum-damaged
    let f = match file_ctx(vk) {
        Ok(f) => f,
        Err(e) => {
            ctx.violation(format!("{P}/precondition/variant-cannot-be-opened"), format!("file variant {vk} cannot be opened by a fresh reader: {e}"));
            return;
        }
    };
    let n = f.ops.len();
    let pre = ctx.pick("warm-up-op", n + 1); // an operation before A (n = none) to populate the page cache
    let a = ctx.pick("faulted-op", n);
    // short reads make a failing page fetch leave a partly overwritten page buffer behind
    let half = ctx.pick("device-read-size", 2) == 1;
    let mkdev = |bytes: &Vec<u8>| {
        let d = Dev::new(bytes.clone());
        if half {
            d.with(|s| s.chunk = crate::dev::Chunk::AlwaysHalf);
        }
        d
    };
    // count the device operations of A
    let count = {
        let dev = mkdev(&f.bytes);
        let h = dev.handle();
        let Ok(mut r) = E57Reader::new(dev) else { return };
        if pre < n {
            exec(&mut r, &f.ops[pre], &f.blobs);
        }
        let before = h.with(|s| s.ops);
        exec(&mut r, &f.ops[a], &f.blobs);
        (h.with(|s| s.ops) - before) as usize
    };
    ctx.describe(|| format!("file variant {vk}: warm-up {}, then {} with a device error at each of its {count} device operations (device reads {}), then every operation on the healthy device", if half { "half of each request" } else { "in full" }, if pre < n { f.ops[pre].name() } else { "none".into() }, f.ops[a].name()));
    for k in 0..count {
        for b in 0..n {
            ctx.evals(1);
            let res = guarded(|| {
                let dev = mkdev(&f.bytes);
                let h = dev.handle();
                let mut r = E57Reader::new(dev).ok()?;
                if pre < n {
                    exec(&mut r, &f.ops[pre], &f.blobs);
                }
                h.with(|s| s.fault_at = Some(s.ops + k as u64));
                let oa = exec(&mut r, &f.ops[a], &f.blobs);
                let fired = h.with(|s| s.faults_fired);
                h.with(|s| s.fault_at = None);
                if fired > 0 && oa.is_ok() && oa != f.fresh[a] {
                    return Some((format!("{P}/faulted-op-returns-other-data"), format!("{} returned {} while a device error was injected at its device operation {k}; fresh result {}", f.ops[a].name(), oa.short(), f.fresh[a].short())));
                }
                let ob = exec(&mut r, &f.ops[b], &f.blobs);
                if ob != f.fresh[b] {
                    return Some((
                        format!("{P}/after-device-error/{}", f.ops[b].name().split('(').next().unwrap_or("")),
                        format!(
                            "file variant {vk}: {}{} hit a one-shot device error at its device operation {k} (returned {}); afterwards {} returns {} on the healthy device, a fresh reader returns {}",
                            if pre < n { format!("after {}, ", f.ops[pre].name()) } else { String::new() },
                            f.ops[a].name(),
                            oa.short(),
                            f.ops[b].name(),
                            ob.short(),
                            f.fresh[b].short()
                        ),
                    ));
                }
                None
            });
            match res {
                Err(pi) => {
                    ctx.violation(format!("{P}/panic/{}", pi.class()), format!("panic at {} ({}) (fault at device op {k} of {})", pi.loc, pi.msg, f.ops[a].name()));
                    return;
                }
                Ok(Some((sig, d))) => {
                    ctx.violation(sig, d);
                    return;
                }
                Ok(None) => {}
            }
        }
    }
    ctx.ops((count * n * 3) as u64);
    ctx.observe_u64((vk * 10000 + pre * 100 + a) as u64);
    if count > 0 {
        ctx.nontrivial();
    }
}

/// a file of > 300 pages: cloud A (26000 points, ~306 pages), an image blob, cloud B (300 points)
fn far_file() -> Vec<u8> {
    let a = cloud(cat::xyz(cat::F32), 26000, 1);
    let b = cloud(cat::xyz(cat::F32), 300, 2);
    let p = Program { guid: "g".into(), ops: vec![Op::Cloud(a), Op::Image(image(0, false, 3000, 3)), Op::Cloud(b)], ..Default::default() };
    let dev = Dev::empty();
    let h = dev.handle();
    let _ = run_program(dev, &p, &ExecOpts::default());
    h.snapshot()
}

/// Long-distance histories: one page q behind the big cloud (or inside its tail) is damaged; every
/// operation that touches q is run after every operation that read all / some of the ~300 pages in
/// front of it, so any two pages at any distance <= 300 have been visited in this order.
pub fn far(ctx: &Ctx) {
    let base = far_file();
    let pages = base.len() / 1024;
    if pages < 300 {
        ctx.machinery_error(format!("far file has only {pages} pages"));
        return;
    }
    // damaged page: the last 12 pages in front of the XML section, 4 pages in the tail of cloud A, or none
    let rep = e57spec::decode::read_header(&base).ok();
    let xml_page = rep.map(|h| (h.xml_phys_offset / 1024) as usize).unwrap_or(pages - 1);
    let qi = ctx.pick("damaged-page", 17);
    let mut bytes = base.clone();
    let q = if qi < 12 {
        Some(xml_page - 1 - qi)
    } else if qi < 16 {
        Some(xml_page - 14 - (qi - 12) * 60)
    } else {
        None
    };
    if let Some(q) = q {
        bytes[q * 1024 + 300 + qi] ^= 1 << (qi % 8);
    }
    let Ok(r0) = E57Reader::new(Dev::new(bytes.clone())) else {
        ctx.violation(format!("{P}/precondition/far-file-cannot-be-opened"), "the 306-page file cannot be opened".to_string());
        return;
    };
    let blobs = blob_list(&r0);
    drop(r0);
    let ops = alphabet(2, blobs.len());
    let fresh = match fresh_results(&bytes, &ops) {
        Ok((f, _)) => f,
        Err(e) => {
            ctx.violation(format!("{P}/precondition/fresh-results"), format!("fresh results: {e}"));
            return;
        }
    };
    ctx.describe(|| format!("{pages}-page file, page {q:?} damaged: all ordered pairs of the {} read operations on one reader", ops.len()));
    let mut failing = 0;
    for a in 0..ops.len() {
        for b in 0..ops.len() {
            ctx.evals(1);
            let res = guarded(|| {
                let mut r = E57Reader::new(Dev::new(bytes.clone())).ok()?;
                let oa = exec(&mut r, &ops[a], &blobs);
                if oa != fresh[a] {
                    return Some((a, oa, vec![a]));
                }
                let ob = exec(&mut r, &ops[b], &blobs);
                if ob != fresh[b] {
                    return Some((b, ob, vec![a, b]));
                }
                None
            });
            match res {
                Err(pi) => {
                    ctx.violation(format!("{P}/panic/{}", pi.class()), format!("panic at {} ({}) in [{}; {}] on the {pages}-page file", pi.loc, pi.msg, ops[a].name(), ops[b].name()));
                    return;
                }
                Ok(Some((o, out, hist))) => {
                    let hs: Vec<String> = hist.iter().map(|x| ops[*x].name()).collect();
                    ctx.violation(
                        format!("{P}/history-dependent/{}", ops[o].name().split('(').next().unwrap_or("")),
                        format!("{pages}-page file with page {q:?} damaged: history [{}]: the last operation returns {} but on a freshly opened reader it returns {}", hs.join("; "), out.short(), fresh[o].short()),
                    );
                    return;
                }
                Ok(None) => {
                    if !fresh[a].is_ok() || !fresh[b].is_ok() {
                        failing += 1;
                    }
                }
            }
        }
    }
    ctx.count_n("pairs:with-a-failing-op", failing);
    ctx.observe_u64(qi as u64);
    ctx.nontrivial();
}

/// Page-reader level: a 300-page image with one damaged page q; on one reader, for every other
/// page a: read from a, read from q (must fail), read from a again (must deliver the data), i.e.
/// every ordered pair of pages at every distance, with the failure in between.
pub fn pairs(ctx: &Ctx) {
    use e57::verif::PagedReader;
    use std::io::Read;
    const PAGES: usize = 300;
    let logical: Vec<u8> = (0..PAGES * 1020).map(|i| ((i as u32).wrapping_mul(2654435761) >> 13) as u8).collect();
    let mut img = page::seal(&logical);
    let group = ctx.pick("damaged-page-group", PAGES / 10);
    let kind = ctx.pick("damage", 2);
    ctx.describe(|| format!("{PAGES}-page image; damaged page q in {}..{} ({}); for every page a: read a, read q, read a on one reader", group * 10, group * 10 + 10, ["payload bit", "checksum bit"][kind]));
    for q in group * 10..group * 10 + 10 {
        let off = q * 1024 + if kind == 0 { (q * 7) % 1020 } else { 1020 + q % 4 };
        img[off] ^= 0x10;
        let res = guarded(|| {
            let mut r = PagedReader::new(Dev::new(img.clone()), 1024).map_err(|e| format!("PagedReader::new: {e}"))?;
            let mut buf = [0u8; 8];
            for a in 0..PAGES {
                if a == q {
                    continue;
                }
                for round in 0..2 {
                    r.seek_physical((a * 1024 + 100) as u64).map_err(|e| format!("seek to page {a}: {e}"))?;
                    match r.read(&mut buf) {
                        Ok(8) if buf[..] == logical[a * 1020 + 100..a * 1020 + 108] => {}
                        other => return Err(format!("read from intact page {a} (round {round}, damaged page {q}) returned {other:?} / wrong data")),
                    }
                    if round == 0 {
                        r.seek_physical((q * 1024 + 100) as u64).map_err(|e| format!("seek to page {q}: {e}"))?;
                        if let Ok(n) = r.read(&mut buf) {
                            return Err(format!("read from damaged page {q} after reading page {a} returned Ok({n})"));
                        }
                    }
                }
            }
            Ok(())
        });
        img[off] ^= 0x10;
        ctx.evals(PAGES as u64);
        match res {
            Err(pi) => {
                ctx.violation(format!("{P}/panic/{}", pi.class()), format!("panic at {} ({})", pi.loc, pi.msg));
                return;
            }
            Ok(Err(d)) => {
                ctx.violation(format!("{P}/page-reader-history/{}", if d.contains("damaged page") && d.contains("Ok(") { "damaged-page-served" } else { "other" }), d);
                return;
            }
            Ok(Ok(())) => {}
        }
    }
    ctx.observe_u64((group * 2 + kind) as u64);
    ctx.nontrivial();
}

/// fixpoint BFS over the page-cache states of one reader (E2)
pub fn extra(thorough: bool, _seed: u64, deadline: Instant) -> ExtraResult {
    let t0 = Instant::now();
    let threads = std::thread::available_parallelism().map(|n| n.get()).unwrap_or(8);
    let mut states = 0;
    let mut transitions = 0;
    let mut replays = 0;
    let mut violations = Vec::new();
    let mut machinery = Vec::new();
    let mut per_file = Vec::new();
    let mut all_fix = true;
    let mut samples = Vec::new();
    let nvar = N_VARIANTS;
    for vk in 0..nvar {
        let f = match file_ctx(vk) {
            Ok(f) => f,
            Err(e) => {
                machinery.push(format!("variant {vk}: {e}"));
                continue;
            }
        };
        let n = f.ops.len();
        let step = |h: &[u8]| -> StepOut {
            let r = guarded(|| {
                let mut rd = E57Reader::new(Dev::new(f.bytes.clone())).ok()?;
                let mut last = None;
                for (i, o) in h.iter().enumerate() {
                    let out = exec(&mut rd, &f.ops[*o as usize], &f.blobs);
                    if i + 1 == h.len() {
                        last = Some(out);
                    }
                }
                let (_, pn, buf) = rd.verif_cache_state();
                let mut fh = Fnv::default();
                fh.u64(pn.map_or(u64::MAX, |x| x));
                fh.bytes(&buf);
                Some((fh.0, last))
            });
            match r {
                Ok(Some((canon, last))) => {
                    let mut violation = None;
                    if let (Some(out), Some(o)) = (last, h.last()) {
                        if out != f.fresh[*o as usize] {
                            let hist: Vec<String> = h.iter().map(|x| f.ops[*x as usize].name()).collect();
                            violation = Some((
                                format!("{P}/history-dependent/{}", f.ops[*o as usize].name().split('(').next().unwrap_or("")),
                                format!("file variant {vk}: after [{}] the last operation returns {} but a fresh reader returns {}", hist.join("; "), out.short(), f.fresh[*o as usize].short()),
                            ));
                        }
                    }
                    StepOut { canon: Some(canon), violation, artefact: None }
                }
                Ok(None) => StepOut { canon: None, violation: None, artefact: None },
                Err(pi) => StepOut { canon: Some(explore::fnv(h)), violation: Some((format!("{P}/panic/{}", pi.class()), format!("panic at {} ({})", pi.loc, pi.msg))), artefact: None },
            }
        };
        let res = bfs(n, if thorough { 12 } else { 8 }, deadline, threads, 0, &step);
        states += res.states;
        transitions += res.transitions;
        replays += res.replays;
        all_fix &= res.fixpoint;
        violations.extend(res.violations.iter().cloned());
        if let Some(h) = res.sample_histories.first() {
            samples.push(J::obj().with("space", J::s("c17.bfs")).with("variant", J::Int(vk as i64)).with("history", J::s(h.iter().map(|x| f.ops[*x as usize].name()).collect::<Vec<_>>().join("; "))));
        }
        per_file.push(
            J::obj()
                .with("file_variant", J::Int(vk as i64))
                .with("alphabet", J::Int(n as i64))
                .with("cache_states", J::Int(res.states as i64))
                .with("transitions", J::Int(res.transitions as i64))
                .with("depth_reached", J::Int(res.depth_reached as i64))
                .with("fixpoint", J::Bool(res.fixpoint))
                .with("states_per_depth", J::Arr(res.per_depth.iter().map(|x| J::Int(*x as i64)).collect())),
        );
    }
    let json = J::obj()
        .with("space", J::s("c17.bfs"))
        .with("what", J::s("fixpoint BFS over the reader's page-cache states (cached page number + page buffer, read through the verification hook): every operation of the alphabet is executed in every reachable cache state of every file variant and compared with the fresh-reader result"))
        .with("files", J::Arr(per_file))
        .with("all_fixpoints_reached", J::Bool(all_fix))
        .with("wall_s", J::Num((t0.elapsed().as_secs_f64() * 100.0).round() / 100.0));
    ExtraResult {
        states,
        transitions,
        traces: replays,
        exhaustive: all_fix,
        note: format!("{states} cache states, {transitions} transitions, fixpoint on every file: {all_fix}"),
        violations,
        machinery_errors: machinery,
        samples,
        json,
    }
}
