//! Reader operation alphabet shared by C07 (histories on damaged files) and C17 (history independence).
//! Every operation's outcome is reduced to a canonical, comparable `Outcome`.

use crate::dev::Dev;
use crate::harness::{err_class, err_string};
use crate::wprog::drive_raw;
use e57::{Blob, E57Reader};
use explore::Fnv;

#[derive(Clone, Debug, PartialEq)]
pub enum Outcome {
    /// hash of the delivered data (plus count)
    Ok(u64, u64),
    /// error class + message
    Err(String),
}

impl Outcome {
    pub fn is_ok(&self) -> bool {
        matches!(self, Outcome::Ok(..))
    }
    pub fn short(&self) -> String {
        match self {
            Outcome::Ok(h, n) => format!("Ok(n={n},hash={h:08x})"),
            Outcome::Err(e) => format!("Err({})", e.chars().take(90).collect::<String>()),
        }
    }
}

#[derive(Clone, Debug, PartialEq)]
pub enum ROp {
    /// raw iterator on cloud ci, take: 0 = create only, 1 = one point, usize::MAX = all
    Raw(usize, usize),
    Simple(usize, usize),
    Blob(usize),
    BogusBlob,
    /// a descriptor that starts 16 bytes inside the first blob and claims 2^32 bytes: when the
    /// payload there looks like a blob section header the read runs into the end of the file
    EofBlob,
    Xml,
    Pointclouds,
    Images,
}

impl ROp {
    pub fn name(&self) -> String {
        let t = |t: &usize| match *t {
            0 => "create".to_string(),
            usize::MAX => "all".to_string(),
            n => format!("take {n}"),
        };
        match self {
            ROp::Raw(c, k) => format!("raw(cloud {c}, {})", t(k)),
            ROp::Simple(c, k) => format!("simple(cloud {c}, {})", t(k)),
            ROp::Blob(b) => format!("blob({b})"),
            ROp::BogusBlob => "blob(bogus descriptor)".into(),
            ROp::EofBlob => "blob(descriptor running past the end of the file)".into(),
            ROp::Xml => "xml".into(),
            ROp::Pointclouds => "pointclouds".into(),
            ROp::Images => "images".into(),
        }
    }
}

/// all blob descriptors of a file, in a fixed order (image blobs and masks)
pub fn blob_list(r: &E57Reader<Dev>) -> Vec<Blob> {
    let mut v = Vec::new();
    for img in r.images() {
        if let Some(vr) = &img.visual_reference {
            v.push(vr.blob.data.clone());
            if let Some(m) = &vr.mask {
                v.push(m.clone());
            }
        }
        if let Some(p) = &img.projection {
            let (b, m) = match p {
                e57::Projection::Pinhole(x) => (&x.blob, &x.mask),
                e57::Projection::Spherical(x) => (&x.blob, &x.mask),
                e57::Projection::Cylindrical(x) => (&x.blob, &x.mask),
            };
            v.push(b.data.clone());
            if let Some(m) = m {
                v.push(m.clone());
            }
        }
    }
    v
}

/// the standard alphabet for a file with `nclouds` clouds and `nblobs` blobs
pub fn alphabet(nclouds: usize, nblobs: usize) -> Vec<ROp> {
    let mut a = Vec::new();
    for c in 0..nclouds {
        for t in [0usize, 1, usize::MAX] {
            a.push(ROp::Raw(c, t));
        }
        for t in [0usize, 1, usize::MAX] {
            a.push(ROp::Simple(c, t));
        }
    }
    for b in 0..nblobs {
        a.push(ROp::Blob(b));
    }
    a.push(ROp::BogusBlob);
    if nblobs > 0 {
        a.push(ROp::EofBlob);
    }
    a.push(ROp::Xml);
    a.push(ROp::Pointclouds);
    a.push(ROp::Images);
    a
}

fn err_out(e: &e57::Error) -> Outcome {
    Outcome::Err(format!("{}: {}", err_class(e), err_string(e)))
}

/// Execute one read operation on an open reader.
pub fn exec(r: &mut E57Reader<Dev>, op: &ROp, blobs: &[Blob]) -> Outcome {
    match op {
        ROp::Raw(ci, take) => {
            let pcs = r.pointclouds();
            let Some(pc) = pcs.get(*ci) else { return Outcome::Err("no such cloud".into()) };
            match r.pointcloud_raw(pc) {
                Err(e) => err_out(&e),
                Ok(it) => {
                    if *take == 0 {
                        return Outcome::Ok(0, 0);
                    }
                    let mut f = Fnv::default();
                    if *take == usize::MAX {
                        let (pts, err, over) = drive_raw(it, pc.records);
                        if let Some(e) = err {
                            return Outcome::Err(format!("after {} points: {e}", pts.len()));
                        }
                        if over {
                            return Outcome::Err("more points than records".into());
                        }
                        for p in &pts {
                            for v in p {
                                let (a, b) = v.key();
                                f.u64(a as u64);
                                f.u64(b);
                            }
                        }
                        Outcome::Ok(f.0, pts.len() as u64)
                    } else {
                        let mut n = 0u64;
                        for item in it.take(*take) {
                            match item {
                                Ok(p) => {
                                    for v in &p {
                                        let (a, b) = crate::conv::val_from_e57(v).key();
                                        f.u64(a as u64);
                                        f.u64(b);
                                    }
                                    n += 1;
                                }
                                Err(e) => return Outcome::Err(format!("after {n} points: {}", err_string(&e))),
                            }
                        }
                        Outcome::Ok(f.0, n)
                    }
                }
            }
        }
        ROp::Simple(ci, take) => {
            let pcs = r.pointclouds();
            let Some(pc) = pcs.get(*ci) else { return Outcome::Err("no such cloud".into()) };
            match r.pointcloud_simple(pc) {
                Err(e) => err_out(&e),
                Ok(it) => {
                    if *take == 0 {
                        return Outcome::Ok(0, 0);
                    }
                    let lim = if *take == usize::MAX { pc.records as usize + 1 } else { *take };
                    let mut f = Fnv::default();
                    let mut n = 0u64;
                    for item in it.take(lim) {
                        match item {
                            Ok(p) => {
                                f.str(&format!("{p:?}"));
                                n += 1;
                            }
                            Err(e) => return Outcome::Err(format!("after {n} points: {}", err_string(&e))),
                        }
                    }
                    Outcome::Ok(f.0, n)
                }
            }
        }
        ROp::Blob(b) => {
            let Some(bl) = blobs.get(*b) else { return Outcome::Err("no such blob".into()) };
            let mut out = Vec::new();
            match r.blob(bl, &mut out) {
                Ok(n) => Outcome::Ok(explore::fnv(&out), n),
                Err(e) => err_out(&e),
            }
        }
        ROp::BogusBlob => {
            let mut out = Vec::new();
            match r.blob(&Blob::new(52, 7), &mut out) {
                Ok(n) => Outcome::Ok(explore::fnv(&out), n),
                Err(e) => err_out(&e),
            }
        }
        ROp::EofBlob => {
            let Some(b) = blobs.first() else { return Outcome::Err("no blob".into()) };
            struct Count(u64);
            impl std::io::Write for Count {
                fn write(&mut self, b: &[u8]) -> std::io::Result<usize> {
                    self.0 += b.len() as u64;
                    Ok(b.len())
                }
                fn flush(&mut self) -> std::io::Result<()> {
                    Ok(())
                }
            }
            let mut out = Count(0);
            match r.blob(&Blob::new(b.offset + 16, 1 << 32), &mut out) {
                Ok(n) => Outcome::Ok(out.0, n),
                Err(e) => err_out(&e),
            }
        }
        ROp::Xml => Outcome::Ok(explore::fnv(r.xml().as_bytes()), r.xml().len() as u64),
        ROp::Pointclouds => Outcome::Ok(explore::fnv(format!("{:?}", r.pointclouds()).as_bytes()), r.pointclouds().len() as u64),
        ROp::Images => Outcome::Ok(explore::fnv(format!("{:?}", r.images()).as_bytes()), r.images().len() as u64),
    }
}

/// results of every op on a freshly opened reader (the oracle of C17 and the pristine reference of C07)
pub fn fresh_results(bytes: &[u8], ops: &[ROp]) -> Result<(Vec<Outcome>, Vec<Blob>), String> {
    let mut out = Vec::new();
    let mut blobs = Vec::new();
    for op in ops {
        let mut r = E57Reader::new(Dev::new(bytes.to_vec())).map_err(|e| err_string(&e))?;
        if blobs.is_empty() {
            blobs = blob_list(&r);
        }
        out.push(exec(&mut r, op, &blobs));
    }
    if ops.is_empty() {
        let r = E57Reader::new(Dev::new(bytes.to_vec())).map_err(|e| err_string(&e))?;
        blobs = blob_list(&r);
    }
    Ok((out, blobs))
}
