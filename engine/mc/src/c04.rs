//! C04 — all metadata survives write -> read unchanged.

use crate::alpha::*;
use crate::cat;
use crate::oracle::*;
use crate::wprog::*;
use e57spec::model::{self as m, LVal};
use explore::Ctx;

const P: &str = "C04";

/// strings handed to the setters, by field index
struct Vals {
    strings: Vec<String>,
    s0: usize,
    floats: Vec<f64>,
    f0: usize,
    /// 0 generic values, 1 exact identity, 2 identity written with negative zeros
    pose_kind: usize,
}
impl Vals {
    fn s(&self, field: usize) -> String {
        // every field gets a different rotation so that all (field, string) pairs occur
        self.strings[(self.s0 + field * 131) % self.strings.len()].clone()
    }
    fn f(&self, field: usize) -> f64 {
        self.floats[(self.f0 + field * 61) % self.floats.len()]
    }
}

fn float_catalogue(thorough: bool) -> Vec<f64> {
    let mut v: Vec<f64> = vec![0.0, -0.0, 1.0, -1.5, f64::MIN_POSITIVE, f64::from_bits(1), f64::MAX, f64::MIN, f64::INFINITY, f64::NEG_INFINITY, f64::NAN, 0.1, 1e-7, 123456789.123456789, 1e21, 1e-21, 5e-324];
    if thorough {
        v.extend(cat::f64_lattice());
    } else {
        v.extend(cat::f32_lattice().into_iter().map(|x| x as f64));
    }
    v
}

/// Build a program with one cloud and one image whose optional fields are present according to
/// `has(field index)` and whose values come from `vals`.
fn build(has: &dyn Fn(usize) -> bool, vals: &Vals, img_kind: usize, xml_mode: u8) -> Program {
    let mut ops = Vec::new();
    let mut fi = 0usize;
    let mut next = || {
        fi += 1;
        fi - 1
    };
    // root
    let f = next();
    if has(f) {
        ops.push(Op::Creation(Some(m::DateTime { gps: vals.f(f), atomic: f % 2 == 0 })));
    }
    let f = next();
    if has(f) {
        ops.push(Op::CoordMeta(Some(vals.s(f))));
    }
    let f = next();
    if has(f) {
        // an empty URL cannot be registered (a prefix cannot be bound to the empty namespace
        // name): the attempt must be refused and leave no trace
        let url = vals.s(f);
        ops.push(if url.is_empty() { Op::ExtTry("ext".into(), url) } else { Op::Ext("ext".into(), url) });
        ops.push(Op::Ext("e-2_x".into(), "http://example.com/second".into()));
    }
    // cloud
    let mut c = cloud(cat::prototypes()[3].1.clone(), 1, 3);
    let mm = &mut c.meta;
    let f = next();
    mm.guid = Some(if has(f) { vals.s(f) } else { "pc-guid".into() });
    macro_rules! st {
        ($field:expr) => {{
            let f = next();
            if has(f) {
                $field = Some(vals.s(f));
            }
        }};
    }
    macro_rules! fl {
        ($field:expr) => {{
            let f = next();
            if has(f) {
                $field = Some(vals.f(f));
            }
        }};
    }
    st!(mm.name);
    st!(mm.description);
    let f = next();
    if has(f) {
        mm.original_guids = Some(vec![vals.s(f), vals.s(f + 1), String::new()]);
    }
    st!(mm.sensor_vendor);
    st!(mm.sensor_model);
    st!(mm.sensor_serial);
    st!(mm.sensor_hw);
    st!(mm.sensor_sw);
    st!(mm.sensor_fw);
    fl!(mm.temperature);
    fl!(mm.humidity);
    fl!(mm.pressure);
    let f = next();
    if has(f) {
        mm.pose = Some(match vals.pose_kind {
            1 => m::Pose::default(),
            2 => m::Pose { rot: [1.0, -0.0, 0.0, -0.0], trans: [-0.0, 0.0, -0.0] },
            _ => m::Pose { rot: [vals.f(f), vals.f(f + 1), vals.f(f + 2), vals.f(f + 3)], trans: [vals.f(f + 4), vals.f(f + 5), vals.f(f + 6)] },
        });
    }
    let f = next();
    if has(f) {
        mm.acq_start = Some(m::DateTime { gps: vals.f(f), atomic: true });
    }
    let f = next();
    if has(f) {
        mm.acq_end = Some(m::DateTime { gps: vals.f(f), atomic: false });
    }
    let f = next();
    if has(f) {
        let v = vals.f(f);
        let (lo, hi) = match f % 4 {
            0 => (LVal::F64(v), LVal::F64(vals.f(f + 1))),
            1 => (LVal::F32(v as f32), LVal::F32(vals.f(f + 1) as f32)),
            2 => (LVal::Int(v.to_bits() as i64), LVal::Int(i64::MAX)),
            _ => (LVal::Scaled(i64::MIN), LVal::Scaled(v.to_bits() as i64)),
        };
        mm.color_limits = Some([Some(lo), Some(hi), Some(hi), Some(lo), Some(lo), Some(lo)]);
    }
    ops.push(Op::Cloud(c));
    // image
    let f = next();
    let mask = has(f);
    let mut img = image(img_kind % 5, mask, 17, 9);
    let f = next();
    img.guid = Some(if has(f) { vals.s(f) } else { "img-guid".into() });
    st!(img.name);
    st!(img.description);
    st!(img.pc_guid);
    st!(img.sensor_vendor);
    st!(img.sensor_model);
    st!(img.sensor_serial);
    let f = next();
    if has(f) {
        img.pose = Some(match vals.pose_kind {
            1 => m::Pose::default(),
            2 => m::Pose { rot: [1.0, 0.0, -0.0, 0.0], trans: [0.0, -0.0, 0.0] },
            _ => m::Pose { rot: [vals.f(f), 0.0, -0.0, 1.0], trans: [vals.f(f + 1), vals.f(f + 2), vals.f(f + 3)] },
        });
    }
    let f = next();
    if has(f) {
        img.acquisition = Some(m::DateTime { gps: vals.f(f), atomic: f % 2 == 1 });
    }
    let f = next();
    if has(f) {
        // float properties of the projection and integer extremes of the size
        if let Some(r) = &mut img.projection {
            let g = |k: usize| vals.f(f + k);
            r.proj = match &r.proj {
                Some(m::ProjKind::Pinhole { .. }) => Some(m::ProjKind::Pinhole { focal: g(0), pw: g(1), ph: g(2), ppx: g(3), ppy: g(4) }),
                Some(m::ProjKind::Spherical { .. }) => Some(m::ProjKind::Spherical { pw: g(0), ph: g(1) }),
                Some(m::ProjKind::Cylindrical { .. }) => Some(m::ProjKind::Cylindrical { radius: g(0), ppy: g(1), pw: g(2), ph: g(3) }),
                None => None,
            };
            r.width = [0i64, 1, u32::MAX as i64][f % 3];
            r.height = [u32::MAX as i64, 0, 7][f % 3];
        }
        if let Some(r) = &mut img.visual {
            r.width = u32::MAX as i64;
            r.height = 0;
        }
    }
    ops.push(Op::Image(img));
    Program { guid: "file-guid".into(), ops, xml_mode, ..Default::default() }
}

pub const N_FIELDS: usize = 34;

/// all fields present, strings taken from `strings` starting at `s0`
pub fn build_with(strings: &[String], s0: usize, img_kind: usize) -> Program {
    let vals = Vals { strings: strings.to_vec(), s0, floats: vec![1.5, -0.0, f64::NAN, 1e300, f64::NEG_INFINITY], f0: s0, pose_kind: s0 % 3 };
    build(&|_| true, &vals, img_kind, 0)
}

/// a program with one cloud and one image using plain values (used as a base document elsewhere)
pub fn build_public(has: &dyn Fn(usize) -> bool, img_kind: usize) -> Program {
    let vals = Vals { strings: vec!["plain".into(), "a&b".into(), "two words".into()], s0: 0, floats: vec![1.5, -2.25, 1e-3, 1234.5], f0: 0, pose_kind: 0 };
    build(has, &vals, img_kind, 0)
}

fn judge(ctx: &Ctx, p: &Program) -> bool {
    ctx.describe(|| describe(p));
    let Some(w) = write_valid(ctx, p, P) else { return false };
    let Some(rb) = read_and_compare(ctx, p, &w, P, None) else { return false };
    // complete limit overrides come back as given
    for op in &p.ops {
        if let Op::Cloud(c) = op {
            if let Some(exp) = &c.meta.color_limits {
                let got = rb.scene.clouds.first().and_then(|c| c.meta.color_limits);
                let same = got.map_or(false, |g| g.iter().zip(exp.iter()).all(|(a, b)| a.map(|x| x.key()) == b.map(|x| x.key())));
                if !same {
                    ctx.violation(format!("{P}/diff/data3D.colorLimits"), format!("colour limits override {exp:?} read back as {got:?}; program: {}", describe(p)));
                    return false;
                }
            }
        }
    }
    // the XML returned by the reader is exactly what the writer / transformer produced
    if let Some(x) = &w.run.xml_written {
        if *x != rb.xml {
            ctx.violation(format!("{P}/xml-differs-from-transformer-output"), format!("reader.xml() has {} bytes, transformer returned {} bytes", rb.xml.len(), x.len()));
            return false;
        }
    }
    // ... and exactly the bytes stored in the file as located by the independent header decoder
    if let Ok(h) = e57spec::decode::read_header(&w.bytes) {
        if let Ok((log, _)) = e57spec::page::unseal(&w.bytes) {
            if let Some(s) = e57spec::page::phys_to_log(h.xml_phys_offset) {
                let e = (s + h.xml_length) as usize;
                if e <= log.len() && log[s as usize..e] != *rb.xml.as_bytes() {
                    ctx.violation(format!("{P}/xml-differs-from-file"), "reader.xml() differs from the XML bytes stored in the file".to_string());
                    return false;
                }
            }
        }
    }
    ctx.observe(rb.xml.as_bytes());
    true
}

/// presence lattice: all subsets within <= d deviations of all-absent and of all-present,
/// x image kind x finalize mode
pub fn lattice(ctx: &Ctx) {
    let base = ctx.pick("base", 2) == 1;
    let kind = ctx.pick("image-kind", 5);
    let xml_mode = ctx.pick("xml-mode", 3) as u8;
    let toggles: Vec<bool> = (0..N_FIELDS).map(|_| ctx.flag("toggle-field")).collect();
    let pose_kind = ctx.choose("pose-kind", 3);
    let vals = Vals { strings: vec!["plain".into(), "a&b<c>".into(), "x\ny".into()], s0: 0, floats: vec![1.5, -0.0, 1e-300, 12345.678], f0: 0, pose_kind };
    let p = build(&|f| base ^ toggles.get(f).copied().unwrap_or(false), &vals, kind, xml_mode);
    if judge(ctx, &p) {
        ctx.nontrivial();
    }
}

/// every catalogue string in every string field (rotated), all fields present
pub fn strings(ctx: &Ctx) {
    let strings = cat::strings();
    let s0 = ctx.pick("string", strings.len());
    let vals = Vals { strings, s0, floats: vec![0.5], f0: 0, pose_kind: 0 };
    let p = build(&|_| true, &vals, 4, 0);
    if judge(ctx, &p) {
        ctx.nontrivial();
    }
}

/// every float of the catalogue (mini-float lattice + specials) in every float field
pub fn floats(ctx: &Ctx) {
    let floats = float_catalogue(ctx.tier_thorough);
    let f0 = ctx.pick("float", floats.len());
    let kind = 1 + ctx.pick("projection", 3);
    let vals = Vals { strings: vec!["s".into()], s0: 0, floats, f0, pose_kind: 0 };
    let p = build(&|_| true, &vals, kind, 0);
    if judge(ctx, &p) {
        ctx.nontrivial();
    }
}

/// poses: every pose of the catalogue for the cloud, a neighbouring one for the image
pub fn poses(ctx: &Ctx) {
    let poses = crate::cat::poses();
    let k = ctx.pick("pose", poses.len());
    let kind = ctx.pick("projection", 5);
    let mut c = cloud(crate::cat::xyz(crate::cat::F32), 2, 3);
    c.meta.pose = Some(poses[k].clone());
    let mut img = image(kind, false, 9, 4);
    img.pose = Some(poses[(k + 9) % poses.len()].clone());
    // the two representations of an image can be added in either order
    let projection_first = ctx.pick("projection-added-first", 2) == 1;
    let p = Program { guid: "g".into(), ops: vec![Op::Cloud(c), Op::Image(img)], projection_first, ..Default::default() };
    if judge(ctx, &p) {
        ctx.nontrivial();
    }
}

/// prototype data types: every catalogue type (floats with none / both / one-sided limits, integer
/// and scaled-integer ranges of every width class) as coordinate, intensity, colour, time stamp and
/// extension record; the prototype read back must carry the same minimum/maximum/scale/offset
pub fn types(ctx: &Ctx) {
    let types = crate::cat::types();
    let ti = ctx.pick("type", types.len());
    let slot = ctx.pick("slot", 5);
    let ty = types[ti].clone();
    let mut proto = crate::cat::xyz(crate::cat::F32);
    match slot {
        0 => proto = crate::cat::xyz(ty.clone()),
        1 => proto.push(crate::cat::rec("intensity", ty.clone())),
        2 => {
            // three different channel types: the catalogue type, 8 bit, and the catalogue's next type
            proto.push(crate::cat::rec("colorRed", ty.clone()));
            proto.push(crate::cat::rec("colorGreen", m::Ty::Int { min: 0, max: 255 }));
            proto.push(crate::cat::rec("colorBlue", types[(ti + 1) % types.len()].clone()));
        }
        3 => proto.push(crate::cat::rec("timeStamp", ty.clone())),
        _ => proto.push(crate::cat::ext_rec("ext", "attr", ty.clone())),
    }
    // the caller may remove the default limits explicitly: then none are stored
    let cleared = ctx.pick("limits-cleared", 2) == 1;
    let mut cl = cloud(proto.clone(), 2, 3);
    cl.clear_limits = (cleared, cleared);
    let p = Program { guid: "g".into(), ops: vec![Op::Ext("ext".into(), "http://example.com/ext".into()), Op::Cloud(cl)], ..Default::default() };
    if let Some((_, rb)) = roundtrip(ctx, &p, P) {
        // limits nobody set are the declared ranges of the attribute types, per channel
        let got = &rb.scene.clouds[0].meta;
        let tl = |n: &str| proto.iter().find(|r| r.ns.is_none() && r.name == n).map(|r| crate::c14::type_limits(&r.ty));
        let same = |a: &Option<m::LVal>, b: &Option<m::LVal>| a.map(|v| v.key()) == b.map(|v| v.key());
        if let (Some(r), Some(g), Some(b)) = (tl("colorRed"), tl("colorGreen"), tl("colorBlue")) {
            let all = [r.0, r.1, g.0, g.1, b.0, b.1];
            let exp = if all.iter().all(|x| x.is_some()) && !cleared { Some(all) } else { None };
            let ok = match (&exp, &got.color_limits) {
                (None, None) => true,
                (Some(e), Some(x)) => e.iter().zip(x.iter()).all(|(a, b)| same(a, b)),
                _ => false,
            };
            if !ok {
                ctx.violation(format!("{P}/derived-limits/colorLimits"), format!("colour limits read back {:?}, the declared type ranges are {exp:?}; {}", got.color_limits, describe(&p)));
                return;
            }
        }
        if let Some(i) = tl("intensity") {
            let exp = if i.0.is_some() && i.1.is_some() && !cleared { Some([i.0, i.1]) } else { None };
            let ok = match (&exp, &got.intensity_limits) {
                (None, None) => true,
                (Some(e), Some(x)) => same(&e[0], &x[0]) && same(&e[1], &x[1]),
                _ => false,
            };
            if !ok {
                ctx.violation(format!("{P}/derived-limits/intensityLimits"), format!("intensity limits read back {:?}, the declared type range is {exp:?}; {}", got.intensity_limits, describe(&p)));
                return;
            }
        }
        ctx.count(format!("slot:{slot}"));
        ctx.nontrivial();
    }
}

/// scale: strings whose length crosses 65535 bytes / characters (ASCII, 2-byte and 4-byte
/// characters, markup characters) in every string field, and 300 registered extensions
pub fn scale(ctx: &Ctx) {
    let k = ctx.pick("scale-case", 9);
    let p = if k < 8 {
        let unit = ["a", "\u{e4}", "\u{10348}", "<&>"][k % 4];
        let chars = [65535usize, 70001][k / 4];
        let long: String = unit.repeat(chars / unit.chars().count() + 1);
        let vals = Vals { strings: vec![long, "short".into()], s0: 0, floats: vec![0.5], f0: 0, pose_kind: 0 };
        build(&|_| true, &vals, k % 5, 0)
    } else {
        let mut p = build_public(&|_| true, 1);
        for i in 0..300 {
            p.ops.insert(0, Op::Ext(format!("x{i}"), format!("http://example.com/ns/{i}")));
        }
        p
    };
    if judge(ctx, &p) {
        ctx.nontrivial();
    }
}

/// registered extensions: all sequences of <= 3 registration attempts (2 prefixes x 2 URLs and the
/// empty URL); the reader must list exactly the registrations the reference model accepts
pub fn ext(ctx: &Ctx) {
    let p = crate::c02::ext_program(ctx);
    if roundtrip(ctx, &p, P).is_some() {
        ctx.nontrivial();
    }
}
