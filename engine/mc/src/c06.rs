//! C06 — blobs and image payloads round-trip byte-exactly.

use crate::alpha::*;
use crate::dev::Dev;
use crate::harness::{err_string, guarded, pattern};
use crate::oracle::*;
use crate::wprog::*;
use e57spec::page;
use explore::Ctx;

const P: &str = "C06";

fn pad_and_blob(pad4: usize, data: Vec<u8>) -> Program {
    Program { guid: "g".into(), ops: vec![Op::Blob(pattern(1000 + pad4 as u64, 4 * pad4)), Op::Blob(data)], ..Default::default() }
}

/// full product: blob length 0..=1023 x all 255 aligned start residues
pub fn product(ctx: &Ctx) {
    let len = ctx.pick("len", if ctx.tier_thorough { 3072 } else { 1024 });
    let pad4 = ctx.pick("pad4", 255);
    let p = pad_and_blob(pad4, pattern(len as u64, len));
    // the payload source delivers its data in full, in halves or alternating (rotated over the product)
    if let Some((w, _)) = roundtrip_src(ctx, &p, P, SRC_MODES[(len + pad4) % 3]) {
        ctx.count(format!("startres:{}", w.run.blobs[1].0 % 1024));
        ctx.count(format!("lenmod4:{}", len % 4));
        if len > 0 {
            ctx.nontrivial();
        }
    }
}

const SRC_MODES: [crate::dev::Chunk; 3] = [crate::dev::Chunk::Full, crate::dev::Chunk::AlwaysHalf, crate::dev::Chunk::Alternate];
const LONG: [usize; 22] = [65535, 65536, 200000, 4095, 4096, 4097, 8191, 8192, 8193, 16383, 16384, 16385, 32767, 32768, 32769, 65537, 131071, 131072, 131073, 1048575, 1048576, 1048577];

/// multi-page lengths 1020k+d (k=1..3, d=-20..=20) and three long ones x 16 residues; payload
/// patterns: unique, all 0x00, all 0xFF
pub fn long(ctx: &Ctx) {
    let li = ctx.pick("len", 3 * 41 + LONG.len());
    let len = if li < 123 { 1020 * (1 + li / 41) + (li % 41) - 20 } else { LONG[li - 123] };
    let pad4 = 16 * ctx.pick("pad64", 16) + 3;
    let fill = ctx.pick("fill", 3);
    let data = match fill {
        0 => pattern(len as u64, len),
        1 => vec![0u8; len],
        _ => vec![0xFFu8; len],
    };
    let p = pad_and_blob(pad4, data);
    if roundtrip_src(ctx, &p, P, SRC_MODES[ctx.pick("source-reads", 3)]).is_some() {
        ctx.nontrivial();
    }
}

const N_OPS6: usize = 18;
fn op6(k: usize, pos: usize) -> Op {
    let id = (pos as u64 + 1) * 50 + k as u64;
    match k {
        0 => Op::Blob(vec![]),
        1 => Op::Blob(pattern(id, 5)),
        2 => Op::Blob(pattern(id, 1019)),
        3 => Op::Blob(vec![0u8; 37]),
        4 => Op::Blob(vec![0xFFu8; 1021]),
        5..=9 => Op::Image(image(k - 5, true, 30 + 7 * k, id)),
        10..=13 => Op::Image(image(k - 10, false, 1000 + k, id)),
        14 => Op::Image(image(4, true, 0, id)),
        // two representations of one image, only the first / only the second with a mask
        16 | 17 => {
            let mut i = image(4, true, 60 + k, id);
            if k == 16 {
                if let Some(p) = &mut i.projection {
                    p.mask = None;
                }
            } else if let Some(v) = &mut i.visual {
                v.mask = None;
            }
            Op::Image(i)
        }
        _ => Op::Cloud(cloud(crate::cat::xyz(crate::cat::F32), 2, id)),
    }
}

/// neighbours: all programs of depth <= 3 over {blobs, every image kind with/without mask, cloud};
/// every payload has a pattern unique to it, so a descriptor leading to the wrong data is detected
pub fn neighbours(ctx: &Ctx) {
    let depth = ctx.pick("depth", if ctx.tier_thorough { 5 } else { 4 });
    let mut ops = Vec::new();
    for pos in 0..depth {
        ops.push(op6(ctx.pick("op", N_OPS6), pos));
    }
    let p = Program { guid: "g".into(), ops, ..Default::default() };
    if let Some((_, rb)) = roundtrip_src(ctx, &p, P, SRC_MODES[depth % 3]) {
        if !rb.scene.images.is_empty() {
            ctx.nontrivial();
        }
    }
}

/// call orders and finalize flows: all programs of depth <= 2 over the image / blob alphabet with
/// the projection added before the visual reference, an additional finalize() after the first op,
/// a finalize_customized_xml whose transformer fails in front of the real finalize, or all three
pub fn flows(ctx: &Ctx) {
    let depth = 1 + ctx.pick("depth", if ctx.tier_thorough { 3 } else { 2 });
    let mut ops = Vec::new();
    for pos in 0..depth {
        ops.push(op6(ctx.pick("op", N_OPS6), pos));
    }
    let flow = 1 + ctx.pick("flow", 7);
    let cp = if ctx.tier_thorough && depth > 1 { ctx.pick("checkpoint-position", depth) } else { 0 };
    let p = Program { guid: "g".into(), ops, projection_first: flow & 1 != 0, checkpoint_after: if flow & 2 != 0 { Some(cp) } else { None }, failed_finalize_first: flow & 4 != 0, ..Default::default() };
    if let Some((_, rb)) = roundtrip_src(ctx, &p, P, SRC_MODES[depth % 3]) {
        if !rb.scene.images.is_empty() {
            ctx.nontrivial();
        }
    }
}

/// payloads behind a lot of data: a blob and an image (with masks, one of them empty) behind
/// 100 KiB .. 4 MiB of other content, so that physical and logical offsets differ by whole pages
pub fn behind(ctx: &Ctx) {
    let big = [100usize << 10, 244_000, 245_000, 250_000, 1 << 20, 4 << 20][ctx.pick("bytes-in-front", 6)];
    let tail = ctx.pick("tail", 3);
    let mut img = image(4, true, 900, 9);
    if let Some(v) = &mut img.visual {
        if let Some(m) = &mut v.mask {
            m.data.clear();
            m.length = 0;
        }
    }
    let mut ops = vec![Op::Blob(pattern(1, big)), Op::Blob(pattern(2, 1001)), Op::Image(img)];
    match tail {
        0 => {}
        1 => ops.push(Op::Blob(pattern(3, 5))),
        _ => ops.push(Op::Cloud(cloud(crate::cat::xyz(crate::cat::F32), 300, 4))),
    }
    let p = Program { guid: "g".into(), ops, ..Default::default() };
    if roundtrip_src(ctx, &p, P, SRC_MODES[tail]).is_some() {
        ctx.nontrivial();
    }
}

/// many images: 255 / 256 / 257 / 300 images in one file, every payload unique, kinds and masks
/// rotating; each descriptor must lead to its own data
pub fn many(ctx: &Ctx) {
    let n = [255usize, 256, 257, 300][ctx.pick("images", 4)];
    let ops: Vec<Op> = (0..n).map(|i| Op::Image(image(i % 5, i % 3 == 0, 1 + i % 7, 5000 + i as u64))).collect();
    let p = Program { guid: "g".into(), ops, ..Default::default() };
    ctx.describe(|| format!("{n} images (kinds rotating, mask on every third, payload 1..7 bytes)"));
    let Some(w) = write_valid(ctx, &p, P) else { return };
    if read_and_compare(ctx, &p, &w, P, None).is_some() {
        ctx.observe_u64(explore::fnv(&w.bytes));
        ctx.nontrivial();
    }
}

/// foreign elements named like the blob elements inside image representations (in front of, between
/// and behind the standard ones): every descriptor still leads to the image's own data
pub fn foreign(ctx: &Ctx) {
    let bk = [0usize, 1, 2][ctx.pick("document", 3)];
    let d = match crate::c18::doc(bk) {
        Ok(d) => d,
        Err(e) => {
            ctx.violation(format!("{P}/base-document-unusable"), format!("base document {bk} (written by the real writer or encoded independently) cannot be prepared: {e}"));
            return;
        }
    };
    let reps: Vec<(String, usize)> = d.child_positions.iter().filter(|(p, _)| p.ends_with("Representation") || p == "visualReferenceRepresentation").cloned().collect();
    if reps.is_empty() {
        return;
    }
    let pi = ctx.pick("position", reps.len());
    let (parent, at) = reps[pi].clone();
    let Ok(base_report) = crate::c18::report(&d.bytes) else { return };
    ctx.describe(|| format!("document {bk}: foreign jpegImage / pngImage / imageMask elements (blob typed, and inside a foreign wrapper) inserted into <{parent}> at XML byte {at}"));
    for name in ["jpegImage", "pngImage", "imageMask"] {
        for sh in [2usize, 4] {
            ctx.evals(1);
            let ins = crate::c18::shape(name, sh);
            let nx = format!("{}{}{}", &d.xml[..at], ins, &d.xml[at..]);
            let bytes = crate::c18::rebuild(&d, &nx);
            match crate::harness::guarded(|| crate::c18::report(&bytes)) {
                Ok(Ok(r)) if r == base_report => {}
                Ok(Ok(r)) => {
                    let k = r.iter().zip(base_report.iter()).position(|(a, b)| a != b);
                    let (a, b) = k.map(|k| (r[k].clone(), base_report[k].clone())).unwrap_or_default();
                    ctx.violation(format!("{P}/foreign-blob-element/{parent}/{name}"), format!("with {ins} inserted into <{parent}> the image data changes: now {} | before {}", a.chars().take(300).collect::<String>(), b.chars().take(300).collect::<String>()));
                    return;
                }
                Ok(Err(e)) => {
                    ctx.violation(format!("{P}/foreign-blob-element/unreadable"), format!("with {ins} inserted into <{parent}> the file cannot be opened: {e}"));
                    return;
                }
                Err(pi) => {
                    ctx.violation(format!("{P}/read-panic/{}", pi.class()), format!("reader panicked at {} ({})", pi.loc, pi.msg));
                    return;
                }
            }
        }
    }
    ctx.observe_u64((bk * 1000 + pi) as u64);
    ctx.nontrivial();
}

/// descriptor tampering: for any descriptor the reader returns Err or exactly `length` bytes equal
/// to the logical bytes that follow the 16-byte section header at `offset`
pub fn tamper(ctx: &Ctx) {
    let pad4 = 5 * ctx.pick("pad20", 51);
    let len = [0usize, 1, 3, 4, 1000, 1020, 2041][ctx.pick("len", 7)];
    let last = ctx.pick("blob-is-last", 2) == 1;
    let mut p = pad_and_blob(pad4, pattern(len as u64 + 1, len));
    if !last {
        p.ops.push(Op::Blob(pattern(77, 3000)));
    }
    ctx.describe(|| describe(&p));
    let Some(w) = write_valid(ctx, &p, P) else { return };
    let (off, l) = w.run.blobs[1];
    let cands: [u64; 9] = [
        l.wrapping_sub(1),
        l + 1,
        l + 3,
        l + 4,
        l + 16,
        l + 17,
        l + 5000,
        1 << 63,
        u64::MAX,
    ];
    // optionally enlarge the section header's own length field (so that the reader's plausibility
    // check passes) and reseal the page: "section headers claiming more than the file holds"
    let patch_header = ctx.pick("patch-section-length", 3);
    let mut bytes = w.bytes.clone();
    if patch_header > 0 {
        let v: u64 = if patch_header == 1 { 1 << 40 } else { u64::MAX - 15 };
        let log = page::phys_to_log(off).unwrap();
        for (i, b) in v.to_le_bytes().iter().enumerate() {
            let ph = page::log_to_phys(log + 8 + i as u64) as usize;
            bytes[ph] = *b;
        }
        for pg in 0..bytes.len() / 1024 {
            page::reseal_page(&mut bytes, pg);
        }
    }
    for (ci, cand) in cands.iter().enumerate() {
        if ci == 0 && l == 0 {
            continue;
        }
        ctx.evals(1);
        ctx.op();
        let res = guarded(|| {
            let mut r = e57::E57Reader::new(Dev::new(bytes.clone())).map_err(|e| err_string(&e))?;
            let mut out = Vec::new();
            let n = r.blob(&e57::Blob::new(off, *cand), &mut CapSink { inner: &mut out, cap: 1 << 24 }).map_err(|e| err_string(&e))?;
            Ok::<(u64, Vec<u8>), String>((n, out))
        });
        match res {
            Err(pi) => {
                ctx.violation(
                    format!("{P}/tamper-panic/{}", pi.class()),
                    format!("blob(offset={off}, length={cand}) panicked at {} ({}); real blob length {l}, section-length patch {patch_header}; {}", pi.loc, pi.msg, describe(&p)),
                );
                return;
            }
            Ok(Err(_)) => ctx.count("tamper-result:err"),
            Ok(Ok((n, out))) => {
                ctx.count("tamper-result:ok");
                let want = e57spec::decode::blob_bytes(&bytes, off, *cand);
                let good = n == *cand && out.len() as u64 == *cand && want.as_ref().map_or(false, |w| *w == out);
                if !good {
                    ctx.violation(
                        format!("{P}/tamper-short-or-wrong"),
                        format!(
                            "blob(offset={off}, length={cand}) returned Ok({n}) and wrote {} bytes (logical bytes available there: {}); real blob length {l}, section-length patch {patch_header}; {}",
                            out.len(),
                            want.map(|w| w.len().to_string()).unwrap_or_else(|e| format!("none: {e}")),
                            describe(&p)
                        ),
                    );
                    return;
                }
            }
        }
    }
    ctx.nontrivial();
    ctx.observe(&bytes);
}

/// a sink that refuses to grow beyond `cap` bytes (keeps a runaway copy from exhausting memory)
pub struct CapSink<'a> {
    pub inner: &'a mut Vec<u8>,
    pub cap: usize,
}
impl std::io::Write for CapSink<'_> {
    fn write(&mut self, b: &[u8]) -> std::io::Result<usize> {
        if self.inner.len() + b.len() > self.cap {
            return Err(std::io::Error::new(std::io::ErrorKind::Other, "sink full"));
        }
        self.inner.extend_from_slice(b);
        Ok(b.len())
    }
    fn flush(&mut self) -> std::io::Result<()> {
        Ok(())
    }
}
