//! Shared oracles: write a program with the real writer, read it back with the real reader,
//! compare with the harness's record.

use crate::dev::Dev;
use crate::wprog::*;
use e57spec::model as m;
use explore::Ctx;

/// mask digits and truncate: stable class of an error message
pub fn msg_class(s: &str) -> String {
    let mut m = String::new();
    let mut last_hash = false;
    for c in s.chars().take(70) {
        if c.is_ascii_digit() {
            if !last_hash {
                m.push('#');
            }
            last_hash = true;
        } else {
            m.push(if c == ' ' || c == '/' { '_' } else { c });
            last_hash = false;
        }
    }
    m
}

/// first path component of a diff line ("data3D[0].name: expected ..." -> "data3D.name")
pub fn diff_class(d: &str) -> String {
    let head = d.split(':').next().unwrap_or(d);
    let mut s = String::new();
    let mut skip = false;
    for c in head.chars() {
        match c {
            '[' => skip = true,
            ']' => skip = false,
            c if !skip => s.push(c),
            _ => {}
        }
    }
    s.replace(' ', "_")
}

pub struct Written {
    pub bytes: Vec<u8>,
    pub run: RunResult,
}

/// Run a program that is expected to be accepted. Reports violations (panic / unexpected Err).
pub fn write_valid(ctx: &Ctx, p: &Program, prop: &str) -> Option<Written> {
    write_valid_opts(ctx, p, prop, &ExecOpts::default())
}

/// `write_valid` with the payload sources (blob, image and mask data) delivering short reads
pub fn write_valid_opts(ctx: &Ctx, p: &Program, prop: &str, opts: &ExecOpts) -> Option<Written> {
    let dev = Dev::empty();
    let h = dev.handle();
    let run = run_program(dev, p, opts);
    ctx.ops(run.api_calls);
    if let Some((i, pi)) = &run.panic {
        ctx.violation(
            format!("{prop}/write-panic/{}", pi.class()),
            format!("writer panicked at {} ({}) during op #{i} of: {}", pi.loc, pi.msg, describe(p)),
        );
        return None;
    }
    if let Some((i, call, e)) = &run.err {
        ctx.violation(
            format!("{prop}/write-err/{call}/{}", msg_class(e)),
            format!("{call} (op #{i}) returned Err({e}) for a program that follows the documented rules: {}", describe(p)),
        );
        return None;
    }
    Some(Written { bytes: h.snapshot(), run })
}

/// Read back and compare against the expected scene. Returns the read-back on success.
pub fn read_and_compare(ctx: &Ctx, p: &Program, w: &Written, prop: &str, with_bounds_of: Option<&m::Scene>) -> Option<ReadBack> {
    let rb = match crate::harness::guarded(|| read_back(w.bytes.clone())) {
        Err(pi) => {
            ctx.violation(
                format!("{prop}/read-panic/{}", pi.class()),
                format!("reader panicked at {} ({}) on the file written by: {}", pi.loc, pi.msg, describe(p)),
            );
            return None;
        }
        Ok(Err((stage, e))) => {
            let st = diff_class(&stage);
            ctx.violation(
                format!("{prop}/read-err/{st}/{}", msg_class(&e)),
                format!("{stage} failed with Err({e}) on the file written by: {}", describe(p)),
            );
            return None;
        }
        Ok(Ok(rb)) => rb,
    };
    ctx.ops(rb.api_calls);
    let mut exp = expected_scene(p);
    exp.library_version = rb.scene.library_version.clone();
    let with_bounds = with_bounds_of.is_some();
    if let Some(b) = with_bounds_of {
        for (c, bc) in exp.clouds.iter_mut().zip(b.clouds.iter()) {
            c.meta.cartesian_bounds = bc.meta.cartesian_bounds;
            c.meta.spherical_bounds = bc.meta.spherical_bounds;
            c.meta.index_bounds = bc.meta.index_bounds;
            c.meta.color_limits = bc.meta.color_limits;
            c.meta.intensity_limits = bc.meta.intensity_limits;
        }
    }
    let diffs = m::diff_scene(&exp, &rb.scene, with_bounds, false);
    if !diffs.is_empty() {
        ctx.violation(
            format!("{prop}/diff/{}", diff_class(&diffs[0])),
            format!("read-back differs from what was written: {} || program: {}", diffs.join(" || "), describe(p)),
        );
        return None;
    }
    // free-standing blobs
    let payloads = blob_payloads(p);
    if !payloads.is_empty() {
        let dev = Dev::new(w.bytes.clone());
        if let Ok(mut r) = e57::E57Reader::new(dev) {
            for (k, ((off, len), data)) in w.run.blobs.iter().zip(payloads.iter()).enumerate() {
                ctx.op();
                if *len != data.len() as u64 {
                    ctx.violation(format!("{prop}/blob-desc-length"), format!("add_blob returned length {len} for {} bytes", data.len()));
                    return None;
                }
                match read_blob(&mut r, *off, *len) {
                    Ok(b) if &b == data => {}
                    Ok(b) => {
                        let pos = b.iter().zip(data.iter()).position(|(x, y)| x != y);
                        ctx.violation(
                            format!("{prop}/blob-bytes"),
                            format!("blob #{k} ({} bytes at {off}) read back with different bytes (first difference at {pos:?}); program: {}", data.len(), describe(p)),
                        );
                        return None;
                    }
                    Err(e) => {
                        ctx.violation(
                            format!("{prop}/blob-read/{}", msg_class(&e)),
                            format!("blob #{k} ({} bytes at {off}): {e}; program: {}", data.len(), describe(p)),
                        );
                        return None;
                    }
                }
            }
        }
    }
    Some(rb)
}

/// round trip with payload sources that deliver their data in short reads
pub fn roundtrip_src(ctx: &Ctx, p: &Program, prop: &str, chunk: crate::dev::Chunk) -> Option<(Written, ReadBack)> {
    ctx.describe(|| format!("{} [payload sources read with {chunk:?}]", describe(p)));
    let w = write_valid_opts(ctx, p, prop, &ExecOpts { src_chunk: chunk, ctx: None })?;
    let rb = read_and_compare(ctx, p, &w, prop, None)?;
    ctx.observe(&w.bytes);
    Some((w, rb))
}

pub fn roundtrip(ctx: &Ctx, p: &Program, prop: &str) -> Option<(Written, ReadBack)> {
    ctx.describe(|| describe(p));
    let w = write_valid(ctx, p, prop)?;
    let rb = read_and_compare(ctx, p, &w, prop, None)?;
    ctx.observe(&w.bytes);
    Some((w, rb))
}
