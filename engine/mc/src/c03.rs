//! C03 — the reader decodes every well-formed E57 file whatever legal layout was chosen.

use crate::oracle::*;
use crate::scenes::*;
use crate::wprog::read_back;
use e57spec::decode::{validate, Options};
use e57spec::encode::{complete, encode, Choose, Encoded, Knobs};
use e57spec::model as m;
use explore::Ctx;

const P: &str = "C03";

/// deviation-counted choices of the encoder are choice points of the case
pub struct CtxChoose<'a>(pub &'a Ctx);
impl Choose for CtxChoose<'_> {
    fn choose(&mut self, label: &str, arity: usize) -> usize {
        self.0.choose(label, arity)
    }
}

/// Encode with the independent encoder (validated by the independent decoder first: a file the
/// model itself cannot read is a machinery error, not a verdict).
pub fn model_file(ctx: &Ctx, scene: &m::Scene, k: Knobs) -> Option<(Encoded, m::Scene)> {
    let enc = encode(scene, &mut CtxChoose(ctx), k);
    let exp = complete(scene, &enc);
    let rep = validate(&enc.bytes, &Options::default());
    if !rep.ok() {
        ctx.machinery_error(format!("e57spec encoder produced a file its own validator rejects: {} (layout {:?})", rep.summary(), enc.notes));
        return None;
    }
    let d = m::diff_scene(&exp, rep.scene.as_ref().unwrap(), true, true);
    if !d.is_empty() {
        ctx.machinery_error(format!("e57spec encoder/decoder self round trip differs: {:?} (layout {:?})", d, enc.notes));
        return None;
    }
    Some((enc, exp))
}

pub fn judge(ctx: &Ctx, si: usize, enc: &Encoded, exp: &m::Scene) {
    ctx.describe(|| format!("scene {si} encoded by e57spec with layout deviations {:?} ({} bytes)", enc.notes, enc.bytes.len()));
    ctx.observe(&enc.bytes);
    let layout = || format!("scene {si}, layout deviations {:?}", enc.notes);
    match crate::harness::guarded(|| read_back(enc.bytes.clone())) {
        Err(pi) => ctx.violation(format!("{P}/read-panic/{}", pi.class()), format!("reader panicked at {} ({}) on {}", pi.loc, pi.msg, layout())),
        Ok(Err((stage, e))) => ctx.violation(
            format!("{P}/read-err/{}/{}", msg_class(&diff_class(&stage)), msg_class(&e)),
            format!("{stage} failed with Err({e}) on a well-formed file: {}", layout()),
        ),
        Ok(Ok(mut rb)) => {
            ctx.ops(rb.api_calls);
            rb.scene.extensions.retain(|(_, u)| u != m::E57_NS);
            let d = m::diff_scene(exp, &rb.scene, true, false);
            if !d.is_empty() {
                ctx.violation(format!("{P}/diff/{}", diff_class(&d[0])), format!("reader returned other content than encoded: {} || {}", d.join(" || "), layout()));
                return;
            }
            for (c, e) in rb.scene.clouds.iter().zip(exp.clouds.iter()) {
                if c.file_offset != e.file_offset {
                    ctx.violation(format!("{P}/diff/fileOffset"), format!("cloud file offset {} != encoded {}", c.file_offset, e.file_offset));
                    return;
                }
                ctx.count(format!("secres:{}", c.file_offset % 1024));
            }
            if !enc.notes.is_empty() {
                ctx.nontrivial();
            }
        }
    }
}

fn run(ctx: &Ctx, k: Knobs) {
    let si = ctx.pick("scene", N_SCENES);
    let scene = scene(si);
    if let Some((enc, exp)) = model_file(ctx, &scene, k) {
        judge(ctx, si, &enc, &exp);
    }
}

/// all layout families, short gap menu
pub fn layout(ctx: &Ctx) {
    run(ctx, Knobs { full_gaps: false, ..Knobs::ALL });
}
/// every gap 4..1020 before every section (all aligned start residues)
pub fn gaps(ctx: &Ctx) {
    run(ctx, Knobs { gaps: true, full_gaps: true, ..Knobs::NONE });
}
/// two (thorough: three) data packets per cloud, every cut position of every record stream
/// XML first, binary sections last: every gap before every section, so that the last packet of
/// the last section ends anywhere relative to the end of the file (incl. exactly at it)
pub fn tail(ctx: &Ctx) {
    run(ctx, Knobs { gaps: true, full_gaps: true, xml_first: 2, ..Knobs::NONE });
}

pub fn cuts(ctx: &Ctx) {
    let base = if ctx.tier_thorough { 3 } else { 2 };
    run(ctx, Knobs { cuts: true, base_packets: base, non_data_packets: true, max_ignored: true, ..Knobs::NONE });
}
/// XML lexical forms and omitted default attributes
pub fn xml(ctx: &Ctx) {
    run(ctx, Knobs { xml_lexical: true, proto_attrs: true, ..Knobs::NONE });
}

/// wide documents: 120 point clouds and 100 images, i.e. several hundred sibling elements, records
/// and blob descriptors (with the empty-element lexical variant several hundred empty elements in
/// a row), under the XML lexical and omitted-attribute deviations
pub fn wide(ctx: &Ctx) {
    let mut sc = scene(5);
    let c0 = sc.clouds[1].clone();
    let i0 = sc.images[1].clone();
    sc.clouds.clear();
    sc.images.clear();
    for k in 0..120 {
        let mut c = c0.clone();
        c.meta.guid = Some(format!("cloud-{k}"));
        c.points.truncate(1 + k % 2);
        c.records = c.points.len() as u64;
        sc.clouds.push(c);
    }
    for k in 0..100 {
        let mut i = i0.clone();
        i.guid = Some(format!("image-{k}"));
        sc.images.push(i);
    }
    let kn = Knobs { xml_lexical: true, proto_attrs: false, ..Knobs::NONE };
    if let Some((enc, exp)) = model_file(ctx, &sc, kn) {
        judge(ctx, 105, &enc, &exp);
        ctx.nontrivial();
    }
}

/// a record without bits (minimum = maximum) at every position of the prototype, in front of,
/// between and behind records that have bits; Integer and ScaledInteger; one or two of them
pub fn zero_width_positions(ctx: &Ctx) {
    let (sc, _) = zero_width_scene(ctx);
    if let Some((enc, exp)) = model_file(ctx, &sc, Knobs { packets: true, max_packets: 2, ..Knobs::NONE }) {
        judge(ctx, 106, &enc, &exp);
        ctx.nontrivial();
    }
}

pub fn zero_width_scene(ctx: &Ctx) -> (m::Scene, Vec<m::Rec>) {
    let pos = ctx.pick("position-of-the-record-without-bits", 4);
    let second = ctx.pick("second-record-without-bits", 5); // 0 none, 1..4 = at that position as well
    let scaled = ctx.pick("scaled", 2) == 1;
    let n = [0usize, 1, 5, 40][ctx.pick("points", 4)];
    let zero = |k: i64| if scaled { m::Ty::Scaled { min: k, max: k, scale: 0.5, offset: 1.0 } } else { m::Ty::Int { min: k, max: k } };
    let mut proto = vec![crate::cat::rec("cartesianX", crate::cat::F32), crate::cat::rec("cartesianY", m::Ty::Int { min: -3, max: 4 }), crate::cat::rec("cartesianZ", crate::cat::F64)];
    proto.insert(pos.min(proto.len()), crate::cat::rec("intensity", zero(7)));
    if second > 0 {
        proto.insert((second - 1).min(proto.len()), crate::cat::rec("rowIndex", m::Ty::Int { min: -2, max: -2 }));
    }
    let points = crate::cat::points_for(&proto, n, 9);
    let mut sc = scene(0);
    sc.clouds.clear();
    sc.clouds.push(m::Cloud { meta: m::CloudMeta { guid: Some("c".into()), ..Default::default() }, proto: proto.clone(), points, records: n as u64, file_offset: 0 });
    (sc, proto)
}

/// the largest legal data packet: one 8-bit record, first packet of 65524 / 65528 stream bytes
/// (packet length 65532 / 65536 = the maximum the 16-bit length field can express)
pub fn maxpacket(ctx: &Ctx) {
    let first = [65528usize, 65524, 65520][ctx.pick("first-packet-stream-bytes", 3)];
    let extra = [1usize, 300, 5000][ctx.pick("points-after-first-packet", 3)];
    let n = first + extra;
    let proto = vec![crate::cat::rec("intensity", m::Ty::Int { min: 0, max: 255 })];
    let points: Vec<Vec<m::Val>> = (0..n).map(|i| vec![m::Val::Int(((i * 7 + i / 251) % 256) as i64)]).collect();
    let mut scene = scene(0);
    scene.clouds.clear();
    scene.clouds.push(m::Cloud { meta: m::CloudMeta { guid: Some("c".into()), ..Default::default() }, proto, points, records: n as u64, file_offset: 0 });
    let k = Knobs { first_packet_bytes: first, gaps: true, ..Knobs::NONE };
    if let Some((enc, exp)) = model_file(ctx, &scene, k) {
        judge(ctx, 100, &enc, &exp);
        ctx.nontrivial();
    }
}
