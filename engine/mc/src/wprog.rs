//! Writer programs: a plain description of a sequence of writer API calls, its execution on the
//! real `E57Writer`, the expected scene (the harness's own record of what it handed in) and the
//! read-back through the real `E57Reader`.

use crate::conv::*;
use crate::dev::{Chunk, Dev, Src};
use crate::harness::{err_string, guarded, PanicInfo};
use e57::*;
use std::result::Result;
use e57spec::model as m;
use explore::Ctx;

#[derive(Clone, Debug, Default)]
pub struct CloudSpec {
    /// guid must be Some; bounds are ignored on input; color/intensity limits Some(..) = override
    pub meta: m::CloudMeta,
    pub proto: Vec<m::Rec>,
    pub points: Vec<Vec<m::Val>>,
    /// hooked packet capacity
    pub cap: Option<usize>,
    /// drop the point cloud writer without calling finalize
    pub abandon: bool,
    /// value vectors the writer must refuse: (index of the accepted point in front of which the
    /// call is made, values). An accepted call is recorded as an error of the program.
    pub rejects: Vec<(usize, Vec<m::Val>)>,
    /// call set_color_limits(None) / set_intensity_limits(None) explicitly (before an override of
    /// `meta`, if there is one): the file then carries no limits of that kind unless overridden
    pub clear_limits: (bool, bool),
}

#[derive(Clone, Debug)]
pub enum Op {
    Blob(Vec<u8>),
    /// add_blob whose payload source fails after delivering the first k bytes: the call must
    /// report the failure, the blob is not part of the expected content, and the writer stays usable
    BlobFail(Vec<u8>, usize),
    Image(m::Image),
    Cloud(CloudSpec),
    Ext(String, String),
    /// register_extension whose failure is tolerated (the harness models which ones must fail)
    ExtTry(String, String),
    Creation(Option<m::DateTime>),
    CoordMeta(Option<String>),
}

#[derive(Clone, Debug, Default)]
pub struct Program {
    pub guid: String,
    pub ops: Vec<Op>,
    /// 0 = finalize(), 1 = identity transformer, 2 = append a foreign element
    pub xml_mode: u8,
    pub no_finalize: bool,
    /// image ops call the projection first and the visual reference second
    pub projection_first: bool,
    /// a finalize_customized_xml whose transformer fails comes in front of the real finalize call
    pub failed_finalize_first: bool,
    /// an additional plain finalize() after the op with this index ("checkpoint")
    pub checkpoint_after: Option<usize>,
}

#[derive(Debug, Default)]
pub struct RunResult {
    /// (op index | ops.len() for finalize | usize::MAX for E57Writer::new, call name, error)
    pub err: Option<(usize, String, String)>,
    pub panic: Option<(usize, PanicInfo)>,
    /// descriptors returned by add_blob, in op order
    pub blobs: Vec<(u64, u64)>,
    pub xml_written: Option<String>,
    /// measured packet capacity per cloud (hook)
    pub caps: Vec<usize>,
    pub finalized: bool,
    pub api_calls: u64,
    /// outcome of every ExtTry op
    pub ext_try: Vec<bool>,
}

pub fn describe_op(op: &Op) -> String {
    match op {
        Op::Blob(b) => format!("blob({})", b.len()),
        Op::BlobFail(b, k) => format!("blob({}) source fails after {k} bytes", b.len()),
        Op::Image(i) => {
            let rep = |r: &Option<m::Rep>| {
                r.as_ref().map(|r| {
                    format!(
                        "{}:{}B{}",
                        match &r.proj {
                            None => "visual",
                            Some(m::ProjKind::Pinhole { .. }) => "pinhole",
                            Some(m::ProjKind::Spherical { .. }) => "spherical",
                            Some(m::ProjKind::Cylindrical { .. }) => "cylindrical",
                        },
                        r.blob.data.len(),
                        r.mask.as_ref().map(|m| format!("+mask{}B", m.data.len())).unwrap_or_default()
                    )
                })
            };
            format!("image({:?},{:?})", rep(&i.visual), rep(&i.projection))
        }
        Op::Cloud(c) => format!(
            "cloud([{}], n={}{}{})",
            c.proto.iter().map(|r| format!("{}{}:{}", r.ns.as_ref().map(|n| format!("{n}:")).unwrap_or_default(), r.name, r.ty.describe())).collect::<Vec<_>>().join(", "),
            c.points.len(),
            c.cap.map(|c| format!(", cap={c}")).unwrap_or_default(),
            if c.abandon { ", abandoned" } else { "" }
        ),
        Op::Ext(p, u) => format!("register_extension({p:?},{u:?})"),
        Op::ExtTry(p, u) => format!("try register_extension({p:?},{u:?})"),
        Op::Creation(c) => format!("set_creation({c:?})"),
        Op::CoordMeta(c) => format!("set_coordinate_metadata({c:?})"),
    }
}

pub fn describe(p: &Program) -> String {
    let mut s = format!("E57Writer::new(guid={:?})", p.guid);
    for op in &p.ops {
        s.push_str("; ");
        s.push_str(&describe_op(op));
    }
    if p.projection_first {
        s.push_str("; [images: projection call first, visual reference second]");
    }
    if let Some(c) = p.checkpoint_after {
        s.push_str(&format!("; [additional finalize() after op #{c}]"));
    }
    if p.failed_finalize_first {
        s.push_str("; finalize_customized_xml(transformer fails)");
    }
    s.push_str(match (p.no_finalize, p.xml_mode) {
        (true, _) => "; <dropped without finalize>",
        (_, 0) => "; finalize()",
        (_, 1) => "; finalize_customized_xml(identity)",
        _ => "; finalize_customized_xml(append foreign element)",
    });
    s
}

pub const FOREIGN_SNIPPET: &str = "<ext:note xmlns:ext=\"http://example.com/ext\" type=\"String\"><![CDATA[hello]]></ext:note>\n";

fn transform_xml(mode: u8, xml: String) -> String {
    if mode == 2 {
        xml.replacen("</e57Root>", &format!("{FOREIGN_SNIPPET}</e57Root>"), 1)
    } else {
        xml
    }
}

pub struct ExecOpts {
    pub src_chunk: Chunk,
    pub ctx: Option<Ctx>,
}
impl Default for ExecOpts {
    fn default() -> Self {
        ExecOpts { src_chunk: Chunk::Full, ctx: None }
    }
}

fn src(data: &[u8], o: &ExecOpts) -> Src {
    let mut s = Src::new(data.to_vec());
    s.chunk = o.src_chunk;
    s.ctx = o.ctx.clone();
    s
}

/// Execute the program on the real writer over `dev`.
pub fn run_program(dev: Dev, p: &Program, o: &ExecOpts) -> RunResult {
    let mut res = RunResult::default();
    let mut cur = usize::MAX;
    let r = guarded(|| run_inner(dev, p, o, &mut res, &mut cur));
    match r {
        Ok(()) => {}
        Err(pi) => res.panic = Some((cur, pi)),
    }
    res
}

fn run_inner(dev: Dev, p: &Program, o: &ExecOpts, res: &mut RunResult, cur: &mut usize) {
    macro_rules! tr {
        ($i:expr, $name:expr, $e:expr) => {{
            res.api_calls += 1;
            match $e {
                Ok(v) => v,
                Err(e) => {
                    res.err = Some(($i, $name.to_string(), err_string(&e)));
                    return;
                }
            }
        }};
    }
    let mut w = tr!(usize::MAX, "E57Writer::new", E57Writer::new(dev, &p.guid));
    for (i, op) in p.ops.iter().enumerate() {
        *cur = i;
        match op {
            Op::Ext(pf, uri) => tr!(i, "register_extension", w.register_extension(Extension::new(pf, uri))),
            Op::ExtTry(pf, uri) => {
                res.api_calls += 1;
                res.ext_try.push(w.register_extension(Extension::new(pf, uri)).is_ok());
            }
            Op::Creation(c) => {
                res.api_calls += 1;
                w.set_creation(c.as_ref().map(dt_to_e57))
            }
            Op::CoordMeta(c) => {
                res.api_calls += 1;
                w.set_coordinate_metadata(c.clone())
            }
            Op::Blob(b) => {
                let mut s = src(b, o);
                let blob = tr!(i, "add_blob", w.add_blob(&mut s));
                res.blobs.push((blob.offset, blob.length));
            }
            Op::BlobFail(b, k) => {
                res.api_calls += 1;
                let mut s = FailingSrc { data: b.clone(), pos: 0, fail_at: *k };
                if w.add_blob(&mut s).is_ok() {
                    res.err = Some((i, "add_blob".to_string(), "SUCCESS although the payload source failed".into()));
                    return;
                }
            }
            Op::Image(img) => {
                let guid = img.guid.clone().unwrap_or_default();
                let mut iw = tr!(i, "add_image", w.add_image(&guid));
                if let Some(v) = &img.name {
                    iw.set_name(v);
                }
                if let Some(v) = &img.description {
                    iw.set_description(v);
                }
                if let Some(v) = &img.pc_guid {
                    iw.set_pointcloud_guid(v);
                }
                if let Some(v) = &img.pose {
                    iw.set_transform(pose_to_e57(v));
                }
                if let Some(v) = &img.acquisition {
                    iw.set_acquisition(dt_to_e57(v));
                }
                if let Some(v) = &img.sensor_vendor {
                    iw.set_sensor_vendor(v);
                }
                if let Some(v) = &img.sensor_model {
                    iw.set_sensor_model(v);
                }
                if let Some(v) = &img.sensor_serial {
                    iw.set_sensor_serial(v);
                }
                for step in if p.projection_first { [1, 0] } else { [0, 1] } {
                    if step == 0 {
                        if let Some(v) = &img.visual {
                            let mut d = src(&v.blob.data, o);
                            let mut ms = v.mask.as_ref().map(|m| src(&m.data, o));
                            let props = VisualReferenceImageProperties { width: v.width as u32, height: v.height as u32 };
                            tr!(
                                i,
                                "add_visual_reference",
                                iw.add_visual_reference(fmt_to_e57(&v.format), &mut d, props, ms.as_mut().map(|m| m as &mut dyn std::io::Read))
                            );
                        }
                    } else {
                        if let Some(r) = &img.projection {
                            let mut d = src(&r.blob.data, o);
                            let mut ms = r.mask.as_ref().map(|m| src(&m.data, o));
                            let mask = ms.as_mut().map(|m| m as &mut dyn std::io::Read);
                            let (wd, ht) = (r.width as u32, r.height as u32);
                            match &r.proj {
                                Some(m::ProjKind::Pinhole { focal, pw, ph, ppx, ppy }) => tr!(
                                    i,
                                    "add_pinhole",
                                    iw.add_pinhole(
                                        fmt_to_e57(&r.format),
                                        &mut d,
                                        PinholeImageProperties {
                                            width: wd,
                                            height: ht,
                                            focal_length: *focal,
                                            pixel_width: *pw,
                                            pixel_height: *ph,
                                            principal_x: *ppx,
                                            principal_y: *ppy
                                        },
                                        mask
                                    )
                                ),
                                Some(m::ProjKind::Spherical { pw, ph }) => tr!(
                                    i,
                                    "add_spherical",
                                    iw.add_spherical(
                                        fmt_to_e57(&r.format),
                                        &mut d,
                                        SphericalImageProperties { width: wd, height: ht, pixel_width: *pw, pixel_height: *ph },
                                        mask
                                    )
                                ),
                                Some(m::ProjKind::Cylindrical { radius, ppy, pw, ph }) => tr!(
                                    i,
                                    "add_cylindrical",
                                    iw.add_cylindrical(
                                        fmt_to_e57(&r.format),
                                        &mut d,
                                        CylindricalImageProperties {
                                            width: wd,
                                            height: ht,
                                            radius: *radius,
                                            principal_y: *ppy,
                                            pixel_width: *pw,
                                            pixel_height: *ph
                                        },
                                        mask
                                    )
                                ),
                                None => {}
                            }
                        }
                    }
                }
                tr!(i, "ImageWriter::finalize", iw.finalize());
            }
            Op::Cloud(c) => {
                let guid = c.meta.guid.clone().unwrap_or_default();
                let proto: Vec<Record> = c.proto.iter().map(rec_to_e57).collect();
                let mut pw = tr!(i, "add_pointcloud", w.add_pointcloud(&guid, proto));
                let mm = &c.meta;
                pw.set_name(mm.name.clone());
                pw.set_description(mm.description.clone());
                pw.set_original_guids(mm.original_guids.clone());
                pw.set_transform(mm.pose.as_ref().map(pose_to_e57));
                pw.set_acquisition_start(mm.acq_start.as_ref().map(dt_to_e57));
                pw.set_acquisition_end(mm.acq_end.as_ref().map(dt_to_e57));
                pw.set_sensor_vendor(mm.sensor_vendor.clone());
                pw.set_sensor_model(mm.sensor_model.clone());
                pw.set_sensor_serial(mm.sensor_serial.clone());
                pw.set_sensor_hw_version(mm.sensor_hw.clone());
                pw.set_sensor_sw_version(mm.sensor_sw.clone());
                pw.set_sensor_fw_version(mm.sensor_fw.clone());
                pw.set_temperature(mm.temperature);
                pw.set_humidity(mm.humidity);
                pw.set_atmospheric_pressure(mm.pressure);
                if c.clear_limits.0 {
                    pw.set_color_limits(None);
                }
                if c.clear_limits.1 {
                    pw.set_intensity_limits(None);
                }
                if let Some(cl) = &mm.color_limits {
                    pw.set_color_limits(Some(color_limits_to_e57(cl)));
                }
                if let Some(il) = &mm.intensity_limits {
                    pw.set_intensity_limits(Some(intensity_limits_to_e57(il)));
                }
                if let Some(cap) = c.cap {
                    pw.verif_set_max_points_per_packet(cap);
                }
                res.caps.push(pw.verif_max_points_per_packet());
                res.api_calls += 18;
                for (k, pt) in c.points.iter().enumerate().chain(std::iter::once((c.points.len(), &Vec::new()))) {
                    for (_, bad) in c.rejects.iter().filter(|(at, _)| *at == k) {
                        res.api_calls += 1;
                        if pw.add_point(bad.iter().map(val_to_e57).collect()).is_ok() {
                            res.err = Some((i, "add_point".into(), "a value vector that cannot be stored was accepted".into()));
                            return;
                        }
                    }
                    if k < c.points.len() {
                        let vals: RawValues = pt.iter().map(val_to_e57).collect();
                        tr!(i, "add_point", pw.add_point(vals));
                    }
                }
                if !c.abandon {
                    tr!(i, "PointCloudWriter::finalize", pw.finalize());
                }
            }
        }
        if p.checkpoint_after == Some(i) {
            tr!(i, "finalize (checkpoint)", w.finalize());
        }
    }
    *cur = p.ops.len();
    if p.no_finalize {
        return;
    }
    if p.failed_finalize_first {
        res.api_calls += 1;
        if w.finalize_customized_xml(|_| Err(e57::Error::Invalid { desc: "transformer gives up".into(), source: None })).is_ok() {
            res.err = Some((p.ops.len(), "finalize_customized_xml".to_string(), "SUCCESS although the transformer failed".into()));
            return;
        }
    }
    if p.xml_mode == 0 {
        tr!(p.ops.len(), "finalize", w.finalize());
    } else {
        let captured = std::cell::RefCell::new(None);
        let mode = p.xml_mode;
        let r = w.finalize_customized_xml(|xml| {
            let t = transform_xml(mode, xml);
            *captured.borrow_mut() = Some(t.clone());
            Ok(t)
        });
        res.xml_written = captured.into_inner();
        tr!(p.ops.len(), "finalize_customized_xml", r);
    }
    res.finalized = true;
}

/// reference model: namespace names an extension prefix can be bound to (not empty, not the E57
/// namespace itself, not the two names reserved by "Namespaces in XML")
pub fn ext_url_ok(u: &str) -> bool {
    !u.is_empty() && u != m::E57_NS && u != "http://www.w3.org/XML/1998/namespace" && u != "http://www.w3.org/2000/xmlns/"
}

/// The scene the program describes (the harness's own record). Bounds are computed by
/// `expected_bounds` separately (C14); here they are left None.
pub fn expected_scene(p: &Program) -> m::Scene {
    let mut s = m::Scene {
        guid: p.guid.clone(),
        format_name: "ASTM E57 3D Imaging Data File".into(),
        version: (1, 0),
        ..Default::default()
    };
    for op in &p.ops {
        match op {
            Op::Ext(pf, u) => s.extensions.push((pf.clone(), u.clone())),
            Op::ExtTry(pf, u) => {
                // reference model: a namespace prefix can be registered once, and only with a
                // non-empty URL
                if ext_url_ok(u) && !s.extensions.iter().any(|(p, _)| p == pf) {
                    s.extensions.push((pf.clone(), u.clone()));
                }
            }
            Op::Creation(c) => s.creation = c.clone(),
            Op::CoordMeta(c) => s.coordinate_metadata = c.clone(),
            Op::Blob(_) | Op::BlobFail(..) => {}
            Op::Image(i) => s.images.push(i.clone()),
            Op::Cloud(c) => {
                if !c.abandon {
                    s.clouds.push(m::Cloud {
                        meta: c.meta.clone(),
                        proto: c.proto.clone(),
                        points: c.points.clone(),
                        records: c.points.len() as u64,
                        file_offset: 0,
                    })
                }
            }
        }
    }
    s
}

/// Payload source that delivers `fail_at` bytes (one read call) and then fails.
pub struct FailingSrc {
    pub data: Vec<u8>,
    pub pos: usize,
    pub fail_at: usize,
}
impl std::io::Read for FailingSrc {
    fn read(&mut self, buf: &mut [u8]) -> std::io::Result<usize> {
        if self.pos >= self.fail_at.min(self.data.len()) {
            return Err(std::io::Error::other("payload source failed"));
        }
        let n = buf.len().min(self.fail_at.min(self.data.len()) - self.pos);
        buf[..n].copy_from_slice(&self.data[self.pos..self.pos + n]);
        self.pos += n;
        Ok(n)
    }
}

pub fn blob_payloads(p: &Program) -> Vec<Vec<u8>> {
    p.ops.iter().filter_map(|o| if let Op::Blob(b) = o { Some(b.clone()) } else { None }).collect()
}

/// Drive a raw iterator to its end / first error. Never collects blindly: both iterators keep
/// returning Some(Err) forever after a failure.
pub fn drive_raw<T: std::io::Read + std::io::Seek>(
    it: PointCloudReaderRaw<T>,
    records: u64,
) -> (Vec<Vec<m::Val>>, Option<String>, bool) {
    let mut pts = Vec::new();
    let mut over = false;
    for item in it {
        match item {
            Ok(p) => {
                if pts.len() as u64 >= records {
                    over = true;
                    break;
                }
                pts.push(p.iter().map(val_from_e57).collect())
            }
            Err(e) => return (pts, Some(err_string(&e)), false),
        }
    }
    (pts, None, over)
}

#[derive(Default)]
pub struct ReadBack {
    pub scene: m::Scene,
    pub xml: String,
    pub api_calls: u64,
}

/// Read everything back through the real reader. Err = (stage, message).
pub fn read_back(bytes: Vec<u8>) -> Result<ReadBack, (String, String)> {
    let dev = Dev::new(bytes);
    let mut r = E57Reader::new(dev).map_err(|e| ("E57Reader::new".to_string(), err_string(&e)))?;
    let mut rb = ReadBack { xml: r.xml().to_string(), ..Default::default() };
    let s = &mut rb.scene;
    s.guid = r.guid().to_string();
    s.format_name = r.format_name().to_string();
    s.version = (1, 0);
    s.library_version = r.library_version().map(|x| x.to_string());
    s.creation = r.creation().as_ref().map(dt_from_e57);
    s.coordinate_metadata = r.coordinate_metadata().map(|x| x.to_string());
    s.extensions = r.extensions().into_iter().map(|e| (e.namespace, e.url)).collect();
    rb.api_calls += 8;
    for (ci, pc) in r.pointclouds().iter().enumerate() {
        let it = r.pointcloud_raw(pc).map_err(|e| (format!("pointcloud_raw[{ci}]"), err_string(&e)))?;
        let (points, err, over) = drive_raw(it, pc.records);
        rb.api_calls += points.len() as u64 + 1;
        if let Some(e) = err {
            return Err((format!("raw iterator[{ci}] after {} points", points.len()), e));
        }
        if over {
            return Err((format!("raw iterator[{ci}]"), format!("yielded more than the declared {} records", pc.records)));
        }
        s.clouds.push(m::Cloud {
            meta: cloud_meta_from_e57(pc),
            proto: pc.prototype.iter().map(rec_from_e57).collect(),
            points,
            records: pc.records,
            file_offset: pc.file_offset,
        });
    }
    for (ii, img) in r.images().iter().enumerate() {
        let mut mi = image_from_e57(img);
        for (nm, rep) in [("visual", &mut mi.visual), ("projection", &mut mi.projection)] {
            if let Some(rep) = rep {
                rep.blob.data = read_blob(&mut r, rep.blob.offset, rep.blob.length).map_err(|e| (format!("image[{ii}].{nm}.blob"), e))?;
                if let Some(mk) = &mut rep.mask {
                    mk.data = read_blob(&mut r, mk.offset, mk.length).map_err(|e| (format!("image[{ii}].{nm}.mask"), e))?;
                }
                rb.api_calls += 2;
            }
        }
        s.images.push(mi);
    }
    Ok(rb)
}

/// a destination that accepts at most `max` bytes per write call (legal for any `Write`)
pub struct ShortSink {
    pub data: Vec<u8>,
    pub max: usize,
    pub calls: usize,
}
impl std::io::Write for ShortSink {
    fn write(&mut self, b: &[u8]) -> std::io::Result<usize> {
        let n = b.len().min(self.max);
        self.data.extend_from_slice(&b[..n]);
        self.calls += 1;
        Ok(n)
    }
    fn flush(&mut self) -> std::io::Result<()> {
        Ok(())
    }
}

pub fn read_blob<T: std::io::Read + std::io::Seek>(r: &mut E57Reader<T>, offset: u64, length: u64) -> Result<Vec<u8>, String> {
    let mut out = Vec::new();
    let n = r.blob(&Blob::new(offset, length), &mut out).map_err(|e| err_string(&e))?;
    if n != length || out.len() as u64 != length {
        return Err(format!("blob() returned Ok({n}) and wrote {} bytes for a descriptor of length {length}", out.len()));
    }
    // the same extraction into a destination that takes few bytes per write call
    let mut short = ShortSink { data: Vec::new(), max: 13 + (offset % 7) as usize * 73, calls: 0 };
    let n2 = r.blob(&Blob::new(offset, length), &mut short).map_err(|e| format!("into a short-write destination: {}", err_string(&e)))?;
    if n2 != length || short.data != out {
        return Err(format!(
            "blob() into a destination accepting {} bytes per write call returned Ok({n2}) and delivered {} bytes (equal to the data: {}) for a descriptor of length {length}",
            short.max,
            short.data.len(),
            short.data == out
        ));
    }
    Ok(out)
}
