use e57spec::decode::{validate, Options};
use e57spec::encode::*;
use e57spec::model::*;

struct Seq(Vec<usize>, usize);
impl Choose for Seq {
    fn choose(&mut self, _l: &str, a: usize) -> usize {
        let v = self.0.get(self.1).copied().unwrap_or(0);
        self.1 += 1;
        v % a
    }
}

fn scene() -> Scene {
    let proto = vec![
        Rec { ns: None, name: "cartesianX".into(), ty: Ty::F32 { min: None, max: None } },
        Rec { ns: None, name: "cartesianY".into(), ty: Ty::F64 { min: None, max: None } },
        Rec { ns: None, name: "cartesianZ".into(), ty: Ty::Scaled { min: -100, max: 100, scale: 0.01, offset: 0.0 } },
        Rec { ns: None, name: "intensity".into(), ty: Ty::Int { min: i64::MIN, max: i64::MAX } },
        Rec { ns: Some("ext".into()), name: "cls".into(), ty: Ty::Int { min: 3, max: 3 } },
    ];
    let points: Vec<Vec<Val>> = (0..5).map(|i| vec![Val::F32(i as f32), Val::F64(-(i as f64)), Val::Scaled(i * 20 - 50), Val::Int(i64::MAX - i), Val::Int(3)]).collect();
    let blob = |n: usize| BlobRef { offset: 0, length: n as u64, data: (0..n).map(|i| i as u8).collect() };
    Scene {
        guid: "g<&]]>".into(),
        format_name: "ASTM E57 3D Imaging Data File".into(),
        version: (1, 0),
        library_version: Some("e57spec".into()),
        creation: Some(DateTime { gps: 12.5, atomic: true }),
        coordinate_metadata: Some("crs".into()),
        extensions: vec![("ext".into(), "http://x/ext".into())],
        clouds: vec![Cloud { meta: CloudMeta { guid: Some("pc".into()), name: Some("n".into()), pose: Some(Pose::default()), temperature: Some(0.0), ..Default::default() }, proto, points, records: 5, file_offset: 0 }],
        images: vec![Image { guid: Some("i".into()), visual: Some(Rep { format: ImgFormat::Png, blob: blob(7), mask: Some(blob(3)), width: 2, height: 0, proj: None }), ..Default::default() }],
    }
}

#[test]
fn canonical_and_variants() {
    let s = scene();
    let mut n = 0;
    // canonical plus every single deviation at the first 60 choice points
    for dev in 0..61usize {
        for alt in 1..4usize {
            let mut v = vec![0usize; 60];
            if dev < 60 {
                v[dev] = alt;
            } else if alt > 1 {
                continue;
            }
            let e = encode(&s, &mut Seq(v, 0), Knobs::ALL);
            let r = validate(&e.bytes, &Options::default());
            assert!(r.ok(), "dev {dev} alt {alt}: {} notes {:?}\n{}", r.summary(), e.notes, e.xml);
            let d = diff_scene(&complete(&s, &e), r.scene.as_ref().unwrap(), true, false);
            assert!(d.is_empty(), "dev {dev} alt {alt}: {:?} notes {:?}\n{}", d, e.notes, e.xml);
            n += 1;
        }
    }
    println!("{n} layouts self-round-tripped");
}
