use e57spec::decode::{validate, Options};
#[test]
fn bundled_files() {
    let dir = std::path::Path::new("/repo/testdata");
    let mut names: Vec<_> = std::fs::read_dir(dir).unwrap().flatten().map(|e| e.path()).filter(|p| p.extension().map_or(false, |e| e == "e57")).collect();
    names.sort();
    for p in names {
        let bytes = std::fs::read(&p).unwrap();
        let r = validate(&bytes, &Options::default());
        let sc = r.scene.as_ref();
        println!("{:40} size={:8} problems={} clouds={:?} images={} lib={:?}", p.file_name().unwrap().to_string_lossy(), bytes.len(), r.problems.len(),
            sc.map(|s| s.clouds.iter().map(|c| (c.records, c.points.len(), c.proto.len())).collect::<Vec<_>>()), sc.map_or(0, |s| s.images.len()), sc.and_then(|s| s.library_version.clone()));
        for pr in r.problems.iter().take(6) { println!("      {}: {}", pr.rule, pr.msg); }
    }
}
