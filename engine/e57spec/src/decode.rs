//! Independent validator + decoder for E57 files (rules R1..R10 of DESIGN.md §5 C02).

use crate::bits;
use crate::model::*;
use crate::page::{self, PAGE, PAYLOAD};
use crate::xml::{self, Elem};

#[derive(Clone, Debug)]
pub struct Problem {
    pub rule: &'static str,
    pub msg: String,
}

#[derive(Clone, Debug)]
pub struct PacketInfo {
    pub kind: u8,
    pub log_off: u64,
    pub len: u64,
    pub stream_sizes: Vec<usize>,
}

#[derive(Clone, Debug)]
pub struct SectionInfo {
    pub kind: &'static str,
    pub phys_start: u64,
    pub log_start: u64,
    pub log_len: u64,
    pub packets: Vec<PacketInfo>,
    /// concatenated byte stream per prototype record (compressed vector sections only)
    pub streams: Vec<Vec<u8>>,
}

#[derive(Clone, Debug, Default)]
pub struct Header {
    pub major: u32,
    pub minor: u32,
    pub phys_length: u64,
    pub xml_phys_offset: u64,
    pub xml_length: u64,
    pub page_size: u64,
}

#[derive(Default)]
pub struct Report {
    pub problems: Vec<Problem>,
    pub header: Header,
    pub xml: Option<String>,
    pub scene: Option<Scene>,
    pub sections: Vec<SectionInfo>,
    pub xml_log_start: u64,
    pub bad_pages: Vec<usize>,
}

impl Report {
    fn p(&mut self, rule: &'static str, msg: String) {
        if self.problems.len() < 64 {
            self.problems.push(Problem { rule, msg });
        }
    }
    pub fn ok(&self) -> bool {
        self.problems.is_empty()
    }
    pub fn summary(&self) -> String {
        self.problems.iter().map(|p| format!("{}: {}", p.rule, p.msg)).collect::<Vec<_>>().join(" | ")
    }
}

#[derive(Clone, Default)]
pub struct Options {
    /// additional free-standing blobs (offset, length) to validate and to include in the overlap check
    pub extra_blobs: Vec<(u64, u64)>,
    /// enforce writer-side exactness rules (stream byte counts, section length conventions)
    pub strict: bool,
}

fn u16le(b: &[u8], o: usize) -> u16 {
    u16::from_le_bytes([b[o], b[o + 1]])
}
fn u64le(b: &[u8], o: usize) -> u64 {
    let mut a = [0u8; 8];
    a.copy_from_slice(&b[o..o + 8]);
    u64::from_le_bytes(a)
}

pub fn read_header(phys: &[u8]) -> Result<Header, String> {
    if phys.len() < 48 {
        return Err("file shorter than the 48-byte header".into());
    }
    if &phys[0..8] != b"ASTM-E57" {
        return Err("bad signature".into());
    }
    Ok(Header {
        major: u32::from_le_bytes([phys[8], phys[9], phys[10], phys[11]]),
        minor: u32::from_le_bytes([phys[12], phys[13], phys[14], phys[15]]),
        phys_length: u64le(phys, 16),
        xml_phys_offset: u64le(phys, 24),
        xml_length: u64le(phys, 32),
        page_size: u64le(phys, 40),
    })
}

pub fn validate(phys: &[u8], opt: &Options) -> Report {
    let mut r = Report::default();
    // R1
    if phys.is_empty() || phys.len() % PAGE != 0 {
        r.p("R1", format!("file size {} is not a positive multiple of 1024", phys.len()));
        return r;
    }
    // R2
    let (log, bad) = match page::unseal(phys) {
        Ok(x) => x,
        Err(e) => {
            r.p("R1", e);
            return r;
        }
    };
    for b in &bad {
        r.p("R2", format!("page {b} has an invalid checksum"));
    }
    r.bad_pages = bad;
    // R3
    let h = match read_header(phys) {
        Ok(h) => h,
        Err(e) => {
            r.p("R3", e);
            return r;
        }
    };
    r.header = h.clone();
    if h.major != 1 || h.minor != 0 {
        r.p("R3", format!("version {}.{} is not 1.0", h.major, h.minor));
    }
    if h.page_size != 1024 {
        r.p("R3", format!("page size {} is not 1024", h.page_size));
        return r;
    }
    if h.phys_length != phys.len() as u64 {
        r.p("R3", format!("header file length {} != actual size {}", h.phys_length, phys.len()));
    }
    let xml_log = match page::phys_to_log(h.xml_phys_offset) {
        Some(l) if h.xml_phys_offset < phys.len() as u64 && h.xml_phys_offset >= 48 => l,
        _ => {
            r.p("R3", format!("XML offset {} is outside the file, inside the header or inside checksum bytes", h.xml_phys_offset));
            return r;
        }
    };
    r.xml_log_start = xml_log;
    if h.xml_length == 0 || xml_log.checked_add(h.xml_length).map_or(true, |e| e > log.len() as u64) {
        r.p("R3", format!("XML length {} does not fit (logical start {}, logical size {})", h.xml_length, xml_log, log.len()));
        return r;
    }
    let xml_bytes = &log[xml_log as usize..(xml_log + h.xml_length) as usize];
    // R4
    let xml_str = match std::str::from_utf8(xml_bytes) {
        Ok(s) => s,
        Err(e) => {
            r.p("R4", format!("XML is not UTF-8: {e}"));
            return r;
        }
    };
    r.xml = Some(xml_str.to_string());
    let doc = match xml::parse(xml_str) {
        Ok(d) => d,
        Err(e) => {
            r.p("R4", format!("XML is not well-formed: {e}"));
            return r;
        }
    };
    let mut scene = Scene::default();
    let mut used: Vec<(u64, u64, String)> = vec![(0, 48, "file header".into()), (xml_log, xml_log + h.xml_length, "XML".into())];
    scene_from_xml(&doc.root, &mut scene, &mut r);
    // binary sections
    for (ci, c) in scene.clouds.iter_mut().enumerate() {
        decode_cloud(&log, phys.len() as u64, c, ci, opt, &mut r, &mut used);
    }
    for (ii, img) in scene.images.iter_mut().enumerate() {
        for (nm, rep) in [("visualReference", &mut img.visual), ("projection", &mut img.projection)] {
            if let Some(rep) = rep {
                let w = format!("images2D[{ii}].{nm}");
                decode_blob(&log, phys.len() as u64, &mut rep.blob, &format!("{w}.blob"), opt, &mut r, &mut used);
                if let Some(m) = &mut rep.mask {
                    decode_blob(&log, phys.len() as u64, m, &format!("{w}.mask"), opt, &mut r, &mut used);
                }
            }
        }
    }
    for (bi, (off, len)) in opt.extra_blobs.iter().enumerate() {
        let mut b = BlobRef { offset: *off, length: *len, data: Vec::new() };
        decode_blob(&log, phys.len() as u64, &mut b, &format!("blob[{bi}]"), opt, &mut r, &mut used);
    }
    // R3 (strict): the announced XML length is the true length of the document. When the XML is
    // the last thing in the file, nothing but zero padding may follow its announced end.
    if opt.strict {
        let xml_end = xml_log + h.xml_length;
        if !used.iter().any(|(s, _, what)| *s >= xml_end && what != "XML") {
            if let Some(k) = log[xml_end as usize..].iter().position(|b| *b != 0) {
                r.p("R3", format!("non-zero byte {:#04x} found {k} bytes behind the announced end of the XML section: the header's XML length {} is not the true length of the document", log[xml_end as usize + k], h.xml_length));
            }
        }
    }
    // R9 overlap
    let mut u = used.clone();
    u.sort();
    for w in u.windows(2) {
        if w[1].0 < w[0].1 {
            r.p("R9", format!("{} [{}..{}) overlaps {} [{}..{}) (logical offsets)", w[0].2, w[0].0, w[0].1, w[1].2, w[1].0, w[1].1));
        }
    }
    r.scene = Some(scene);
    r
}

// ------------------------------------------------------------------------------------------
// XML -> scene

const TYPES: [&str; 8] = ["Structure", "Vector", "CompressedVector", "Blob", "Integer", "ScaledInteger", "Float", "String"];

/// (name, type, required)
type Tab = &'static [(&'static str, &'static str, bool)];

const T_ROOT: Tab = &[
    ("formatName", "String", true),
    ("guid", "String", true),
    ("versionMajor", "Integer", true),
    ("versionMinor", "Integer", true),
    ("e57LibraryVersion", "String", false),
    ("creationDateTime", "Structure", false),
    ("coordinateMetadata", "String", false),
    ("data3D", "Vector", false),
    ("images2D", "Vector", false),
];
const T_DATA3D: Tab = &[
    ("guid", "String", true),
    ("name", "String", false),
    ("description", "String", false),
    ("originalGuids", "Vector", false),
    ("sensorVendor", "String", false),
    ("sensorModel", "String", false),
    ("sensorSerialNumber", "String", false),
    ("sensorHardwareVersion", "String", false),
    ("sensorSoftwareVersion", "String", false),
    ("sensorFirmwareVersion", "String", false),
    ("temperature", "Float", false),
    ("relativeHumidity", "Float", false),
    ("atmosphericPressure", "Float", false),
    ("acquisitionStart", "Structure", false),
    ("acquisitionEnd", "Structure", false),
    ("pose", "Structure", false),
    ("indexBounds", "Structure", false),
    ("cartesianBounds", "Structure", false),
    ("sphericalBounds", "Structure", false),
    ("intensityLimits", "Structure", false),
    ("colorLimits", "Structure", false),
    ("pointGroupingSchemes", "Structure", false),
    ("points", "CompressedVector", true),
];
const T_IMAGE: Tab = &[
    ("guid", "String", true),
    ("name", "String", false),
    ("description", "String", false),
    ("acquisitionDateTime", "Structure", false),
    ("associatedData3DGuid", "String", false),
    ("sensorVendor", "String", false),
    ("sensorModel", "String", false),
    ("sensorSerialNumber", "String", false),
    ("pose", "Structure", false),
    ("visualReferenceRepresentation", "Structure", false),
    ("pinholeRepresentation", "Structure", false),
    ("sphericalRepresentation", "Structure", false),
    ("cylindricalRepresentation", "Structure", false),
];
const T_DATETIME: Tab = &[("dateTimeValue", "Float", true), ("isAtomicClockReferenced", "Integer", false)];
const T_POSE: Tab = &[("rotation", "Structure", false), ("translation", "Structure", false)];
const T_ROT: Tab = &[("w", "Float", true), ("x", "Float", true), ("y", "Float", true), ("z", "Float", true)];
const T_TRANS: Tab = &[("x", "Float", true), ("y", "Float", true), ("z", "Float", true)];
const T_CART: Tab = &[
    ("xMinimum", "Float", false),
    ("xMaximum", "Float", false),
    ("yMinimum", "Float", false),
    ("yMaximum", "Float", false),
    ("zMinimum", "Float", false),
    ("zMaximum", "Float", false),
];
const T_SPH: Tab = &[
    ("rangeMinimum", "Float", false),
    ("rangeMaximum", "Float", false),
    ("elevationMinimum", "Float", false),
    ("elevationMaximum", "Float", false),
    ("azimuthStart", "Float", false),
    ("azimuthEnd", "Float", false),
];
const T_IDX: Tab = &[
    ("rowMinimum", "Integer", false),
    ("rowMaximum", "Integer", false),
    ("columnMinimum", "Integer", false),
    ("columnMaximum", "Integer", false),
    ("returnMinimum", "Integer", false),
    ("returnMaximum", "Integer", false),
];
const T_ILIM: Tab = &[("intensityMinimum", "*", false), ("intensityMaximum", "*", false)];
const T_CLIM: Tab = &[
    ("colorRedMinimum", "*", false),
    ("colorRedMaximum", "*", false),
    ("colorGreenMinimum", "*", false),
    ("colorGreenMaximum", "*", false),
    ("colorBlueMinimum", "*", false),
    ("colorBlueMaximum", "*", false),
];
const T_VISUAL: Tab = &[
    ("jpegImage", "Blob", false),
    ("pngImage", "Blob", false),
    ("imageMask", "Blob", false),
    ("imageWidth", "Integer", true),
    ("imageHeight", "Integer", true),
];
const T_PINHOLE: Tab = &[
    ("jpegImage", "Blob", false),
    ("pngImage", "Blob", false),
    ("imageMask", "Blob", false),
    ("imageWidth", "Integer", true),
    ("imageHeight", "Integer", true),
    ("focalLength", "Float", true),
    ("pixelWidth", "Float", true),
    ("pixelHeight", "Float", true),
    ("principalPointX", "Float", true),
    ("principalPointY", "Float", true),
];
const T_SPHERICAL: Tab = &[
    ("jpegImage", "Blob", false),
    ("pngImage", "Blob", false),
    ("imageMask", "Blob", false),
    ("imageWidth", "Integer", true),
    ("imageHeight", "Integer", true),
    ("pixelWidth", "Float", true),
    ("pixelHeight", "Float", true),
];
const T_CYL: Tab = &[
    ("jpegImage", "Blob", false),
    ("pngImage", "Blob", false),
    ("imageMask", "Blob", false),
    ("imageWidth", "Integer", true),
    ("imageHeight", "Integer", true),
    ("radius", "Float", true),
    ("principalPointY", "Float", true),
    ("pixelWidth", "Float", true),
    ("pixelHeight", "Float", true),
];
const T_POINTS: Tab = &[("prototype", "Structure", true), ("codecs", "Vector", false)];

/// Check the E57-namespace children of `e` against a table and that every child has a legal type.
fn check_children(e: &Elem, tab: Tab, w: &str, r: &mut Report) {
    for c in e.child_elems() {
        if c.ns != E57_NS {
            continue; // foreign content is none of our business
        }
        match c.attr("type") {
            None => r.p("R4", format!("{w}/{} has no type attribute", c.local)),
            Some(t) if !TYPES.contains(&t) => r.p("R4", format!("{w}/{} has illegal type '{t}'", c.local)),
            _ => {}
        }
        match tab.iter().find(|(n, _, _)| *n == c.local) {
            None => r.p("R4", format!("{w}/{}: not an E57 element name at this position", c.local)),
            Some((_, ty, _)) => {
                if *ty != "*" {
                    if let Some(t) = c.attr("type") {
                        if t != *ty {
                            r.p("R4", format!("{w}/{} has type '{t}', expected '{ty}'", c.local));
                        }
                    }
                }
            }
        }
        if e.children_named(E57_NS, &c.local).count() > 1 && e.attr("type") != Some("Vector") {
            r.p("R4", format!("{w}/{} occurs more than once", c.local));
        }
    }
    for (n, _, req) in tab {
        if *req && e.child(E57_NS, n).is_none() {
            r.p("R4", format!("{w}: required child '{n}' is missing"));
        }
    }
}

fn s_opt(e: &Elem, n: &str) -> Option<String> {
    e.child(E57_NS, n).map(|c| c.text())
}
fn parse_f(t: &str, w: &str, r: &mut Report) -> f64 {
    if t.is_empty() {
        return 0.0;
    }
    match t.parse::<f64>() {
        Ok(v) => v,
        Err(_) => {
            r.p("R4", format!("{w}: '{t}' is not a float"));
            0.0
        }
    }
}
fn parse_i(t: &str, w: &str, r: &mut Report) -> i64 {
    if t.is_empty() {
        return 0;
    }
    match t.parse::<i64>() {
        Ok(v) => v,
        Err(_) => {
            r.p("R4", format!("{w}: '{t}' is not an integer"));
            0
        }
    }
}
fn f_opt(e: &Elem, n: &str, w: &str, r: &mut Report) -> Option<f64> {
    e.child(E57_NS, n).map(|c| parse_f(&c.text(), &format!("{w}/{n}"), r))
}
fn i_opt(e: &Elem, n: &str, w: &str, r: &mut Report) -> Option<i64> {
    e.child(E57_NS, n).map(|c| parse_i(&c.text(), &format!("{w}/{n}"), r))
}
fn dt_opt(e: &Elem, n: &str, w: &str, r: &mut Report) -> Option<DateTime> {
    let c = e.child(E57_NS, n)?;
    let w2 = format!("{w}/{n}");
    check_children(c, T_DATETIME, &w2, r);
    Some(DateTime {
        gps: f_opt(c, "dateTimeValue", &w2, r).unwrap_or(0.0),
        atomic: i_opt(c, "isAtomicClockReferenced", &w2, r).unwrap_or(0) == 1,
    })
}
fn pose_opt(e: &Elem, n: &str, w: &str, r: &mut Report) -> Option<Pose> {
    let c = e.child(E57_NS, n)?;
    let w2 = format!("{w}/{n}");
    check_children(c, T_POSE, &w2, r);
    let mut p = Pose::default();
    if let Some(q) = c.child(E57_NS, "rotation") {
        let w3 = format!("{w2}/rotation");
        check_children(q, T_ROT, &w3, r);
        for (i, k) in ["w", "x", "y", "z"].iter().enumerate() {
            p.rot[i] = f_opt(q, k, &w3, r).unwrap_or(0.0);
        }
    }
    if let Some(t) = c.child(E57_NS, "translation") {
        let w3 = format!("{w2}/translation");
        check_children(t, T_TRANS, &w3, r);
        for (i, k) in ["x", "y", "z"].iter().enumerate() {
            p.trans[i] = f_opt(t, k, &w3, r).unwrap_or(0.0);
        }
    }
    Some(p)
}
fn lval(c: &Elem, w: &str, r: &mut Report) -> Option<LVal> {
    let t = c.text();
    match c.attr("type") {
        Some("Integer") => Some(LVal::Int(parse_i(&t, w, r))),
        Some("ScaledInteger") => Some(LVal::Scaled(parse_i(&t, w, r))),
        Some("Float") => {
            if c.attr("precision") == Some("single") {
                if t.is_empty() {
                    Some(LVal::F32(0.0))
                } else {
                    match t.parse::<f32>() {
                        Ok(v) => Some(LVal::F32(v)),
                        Err(_) => {
                            r.p("R4", format!("{w}: '{t}' is not a float"));
                            None
                        }
                    }
                }
            } else {
                Some(LVal::F64(parse_f(&t, w, r)))
            }
        }
        other => {
            r.p("R4", format!("{w}: limit with type {other:?}"));
            None
        }
    }
}

fn blob_ref(c: &Elem, w: &str, r: &mut Report) -> BlobRef {
    let g = |a: &str, r: &mut Report| -> u64 {
        match c.attr(a).map(|v| v.parse::<u64>()) {
            Some(Ok(v)) => v,
            _ => {
                r.p("R4", format!("{w}: missing or non-numeric '{a}' attribute"));
                0
            }
        }
    };
    BlobRef { offset: g("fileOffset", r), length: g("length", r), data: Vec::new() }
}

fn rep_opt(e: &Elem, n: &str, tab: Tab, w: &str, r: &mut Report) -> Option<Rep> {
    let c = e.child(E57_NS, n)?;
    let w2 = format!("{w}/{n}");
    check_children(c, tab, &w2, r);
    let (format, blob) = if let Some(j) = c.child(E57_NS, "jpegImage") {
        (ImgFormat::Jpeg, blob_ref(j, &format!("{w2}/jpegImage"), r))
    } else if let Some(p) = c.child(E57_NS, "pngImage") {
        (ImgFormat::Png, blob_ref(p, &format!("{w2}/pngImage"), r))
    } else {
        r.p("R4", format!("{w2}: neither jpegImage nor pngImage present"));
        (ImgFormat::Png, BlobRef { offset: 0, length: 0, data: Vec::new() })
    };
    if c.child(E57_NS, "jpegImage").is_some() && c.child(E57_NS, "pngImage").is_some() {
        r.p("R4", format!("{w2}: both jpegImage and pngImage present"));
    }
    let mask = c.child(E57_NS, "imageMask").map(|m| blob_ref(m, &format!("{w2}/imageMask"), r));
    let f = |k: &str, r: &mut Report| f_opt(c, k, &w2, r).unwrap_or(0.0);
    let proj = match n {
        "pinholeRepresentation" => Some(ProjKind::Pinhole {
            focal: f("focalLength", r),
            pw: f("pixelWidth", r),
            ph: f("pixelHeight", r),
            ppx: f("principalPointX", r),
            ppy: f("principalPointY", r),
        }),
        "sphericalRepresentation" => Some(ProjKind::Spherical { pw: f("pixelWidth", r), ph: f("pixelHeight", r) }),
        "cylindricalRepresentation" => Some(ProjKind::Cylindrical {
            radius: f("radius", r),
            ppy: f("principalPointY", r),
            pw: f("pixelWidth", r),
            ph: f("pixelHeight", r),
        }),
        _ => None,
    };
    Some(Rep {
        format,
        blob,
        mask,
        width: i_opt(c, "imageWidth", &w2, r).unwrap_or(0),
        height: i_opt(c, "imageHeight", &w2, r).unwrap_or(0),
        proj,
    })
}

fn ty_from_elem(c: &Elem, w: &str, r: &mut Report) -> Option<Ty> {
    let pa = |a: &str, r: &mut Report| -> Option<i64> {
        c.attr(a).map(|v| match v.parse::<i64>() {
            Ok(x) => x,
            Err(_) => {
                r.p("R4", format!("{w}: attribute {a}='{v}' is not an integer"));
                0
            }
        })
    };
    let pf = |a: &str, r: &mut Report| -> Option<f64> {
        c.attr(a).map(|v| match v.parse::<f64>() {
            Ok(x) => x,
            Err(_) => {
                r.p("R4", format!("{w}: attribute {a}='{v}' is not a float"));
                0.0
            }
        })
    };
    match c.attr("type") {
        Some("Float") => match c.attr("precision").unwrap_or("double") {
            "single" => {
                let g = |a: &str, r: &mut Report| -> Option<f32> {
                    c.attr(a).map(|v| match v.parse::<f32>() {
                        Ok(x) => x,
                        Err(_) => {
                            r.p("R4", format!("{w}: attribute {a}='{v}' is not a float"));
                            0.0
                        }
                    })
                };
                Some(Ty::F32 { min: g("minimum", r), max: g("maximum", r) })
            }
            "double" => Some(Ty::F64 { min: pf("minimum", r), max: pf("maximum", r) }),
            o => {
                r.p("R4", format!("{w}: unknown precision '{o}'"));
                None
            }
        },
        Some("Integer") => {
            let (min, max) = (pa("minimum", r).unwrap_or(i64::MIN), pa("maximum", r).unwrap_or(i64::MAX));
            if max < min {
                r.p("R4", format!("{w}: maximum {max} < minimum {min}"));
                return None;
            }
            Some(Ty::Int { min, max })
        }
        Some("ScaledInteger") => {
            let (min, max) = (pa("minimum", r).unwrap_or(i64::MIN), pa("maximum", r).unwrap_or(i64::MAX));
            if max < min {
                r.p("R4", format!("{w}: maximum {max} < minimum {min}"));
                return None;
            }
            Some(Ty::Scaled { min, max, scale: pf("scale", r).unwrap_or(1.0), offset: pf("offset", r).unwrap_or(0.0) })
        }
        o => {
            r.p("R4", format!("{w}: prototype record with unsupported type {o:?}"));
            None
        }
    }
}

fn scene_from_xml(root: &Elem, s: &mut Scene, r: &mut Report) {
    if root.local != "e57Root" || root.ns != E57_NS {
        r.p("R4", format!("root element is {{{}}}{} instead of {{{}}}e57Root", root.ns, root.local, E57_NS));
        return;
    }
    if root.attr("type") != Some("Structure") {
        r.p("R4", "e57Root has no type=\"Structure\"".into());
    }
    check_children(root, T_ROOT, "e57Root", r);
    s.format_name = s_opt(root, "formatName").unwrap_or_default();
    s.guid = s_opt(root, "guid").unwrap_or_default();
    s.version = (i_opt(root, "versionMajor", "e57Root", r).unwrap_or(0), i_opt(root, "versionMinor", "e57Root", r).unwrap_or(0));
    // the constants of the format: a version 1.0 file says so in the XML as it does in the header
    if s.version != (1, 0) {
        r.p("R4", format!("e57Root: versionMajor/versionMinor are {}.{}, this format is 1.0", s.version.0, s.version.1));
    }
    if s.format_name != "ASTM E57 3D Imaging Data File" {
        r.p("R4", format!("e57Root: formatName is {:?}", s.format_name));
    }
    s.library_version = s_opt(root, "e57LibraryVersion");
    s.coordinate_metadata = s_opt(root, "coordinateMetadata");
    s.creation = dt_opt(root, "creationDateTime", "e57Root", r);
    s.extensions = root.nsdecls.iter().filter(|(p, u)| !p.is_empty() && u != E57_NS).cloned().collect();
    if let Some(d3) = root.child(E57_NS, "data3D") {
        for (ci, vc) in d3.child_elems().filter(|c| c.ns == E57_NS).enumerate() {
            let w = format!("data3D[{ci}]");
            if vc.local != "vectorChild" || vc.attr("type") != Some("Structure") {
                r.p("R4", format!("{w}: child of data3D is <{}> type {:?}", vc.local, vc.attr("type")));
                continue;
            }
            check_children(vc, T_DATA3D, &w, r);
            let mut c = Cloud::default();
            let m = &mut c.meta;
            m.guid = s_opt(vc, "guid");
            m.name = s_opt(vc, "name");
            m.description = s_opt(vc, "description");
            m.sensor_vendor = s_opt(vc, "sensorVendor");
            m.sensor_model = s_opt(vc, "sensorModel");
            m.sensor_serial = s_opt(vc, "sensorSerialNumber");
            m.sensor_hw = s_opt(vc, "sensorHardwareVersion");
            m.sensor_sw = s_opt(vc, "sensorSoftwareVersion");
            m.sensor_fw = s_opt(vc, "sensorFirmwareVersion");
            m.temperature = f_opt(vc, "temperature", &w, r);
            m.humidity = f_opt(vc, "relativeHumidity", &w, r);
            m.pressure = f_opt(vc, "atmosphericPressure", &w, r);
            m.pose = pose_opt(vc, "pose", &w, r);
            m.acq_start = dt_opt(vc, "acquisitionStart", &w, r);
            m.acq_end = dt_opt(vc, "acquisitionEnd", &w, r);
            if let Some(og) = vc.child(E57_NS, "originalGuids") {
                m.original_guids = Some(og.child_elems().filter(|c| c.ns == E57_NS).map(|c| c.text()).collect());
            }
            if let Some(b) = vc.child(E57_NS, "cartesianBounds") {
                let w2 = format!("{w}/cartesianBounds");
                check_children(b, T_CART, &w2, r);
                let mut a = [None; 6];
                for (i, (n, _, _)) in T_CART.iter().enumerate() {
                    a[i] = f_opt(b, n, &w2, r);
                }
                m.cartesian_bounds = Some(a);
            }
            if let Some(b) = vc.child(E57_NS, "sphericalBounds") {
                let w2 = format!("{w}/sphericalBounds");
                check_children(b, T_SPH, &w2, r);
                let mut a = [None; 6];
                for (i, (n, _, _)) in T_SPH.iter().enumerate() {
                    a[i] = f_opt(b, n, &w2, r);
                }
                m.spherical_bounds = Some(a);
            }
            if let Some(b) = vc.child(E57_NS, "indexBounds") {
                let w2 = format!("{w}/indexBounds");
                check_children(b, T_IDX, &w2, r);
                let mut a = [None; 6];
                for (i, (n, _, _)) in T_IDX.iter().enumerate() {
                    a[i] = i_opt(b, n, &w2, r);
                }
                m.index_bounds = Some(a);
            }
            if let Some(b) = vc.child(E57_NS, "colorLimits") {
                let w2 = format!("{w}/colorLimits");
                check_children(b, T_CLIM, &w2, r);
                let mut a = [None; 6];
                for (i, (n, _, _)) in T_CLIM.iter().enumerate() {
                    a[i] = b.child(E57_NS, n).and_then(|c| lval(c, &format!("{w2}/{n}"), r));
                }
                m.color_limits = Some(a);
            }
            if let Some(b) = vc.child(E57_NS, "intensityLimits") {
                let w2 = format!("{w}/intensityLimits");
                check_children(b, T_ILIM, &w2, r);
                let mut a = [None; 2];
                for (i, (n, _, _)) in T_ILIM.iter().enumerate() {
                    a[i] = b.child(E57_NS, n).and_then(|c| lval(c, &format!("{w2}/{n}"), r));
                }
                m.intensity_limits = Some(a);
            }
            if let Some(p) = vc.child(E57_NS, "points") {
                let w2 = format!("{w}/points");
                check_children(p, T_POINTS, &w2, r);
                c.file_offset = match p.attr("fileOffset").map(|v| v.parse::<u64>()) {
                    Some(Ok(v)) => v,
                    _ => {
                        r.p("R4", format!("{w2}: missing/bad fileOffset"));
                        0
                    }
                };
                c.records = match p.attr("recordCount").map(|v| v.parse::<u64>()) {
                    Some(Ok(v)) => v,
                    _ => {
                        r.p("R4", format!("{w2}: missing/bad recordCount"));
                        0
                    }
                };
                if let Some(pr) = p.child(E57_NS, "prototype") {
                    let recs: Vec<_> = pr.child_elems().collect();
                    for (k, rc) in recs.iter().enumerate() {
                        // the children of a Structure are identified by their names: no name twice
                        if recs[..k].iter().any(|o| o.ns == rc.ns && o.local == rc.local) {
                            r.p("R4", format!("{w2}/prototype/{} occurs more than once", rc.local));
                        }
                    }
                    for rc in pr.child_elems() {
                        let w3 = format!("{w2}/prototype/{}", rc.local);
                        let Some(ty) = ty_from_elem(rc, &w3, r) else { continue };
                        let ns = if rc.ns == E57_NS {
                            None
                        } else {
                            Some(rc.prefix.clone())
                        };
                        c.proto.push(Rec { ns, name: rc.local.clone(), ty });
                    }
                }
            }
            s.clouds.push(c);
        }
    }
    if let Some(i2) = root.child(E57_NS, "images2D") {
        for (ii, vc) in i2.child_elems().filter(|c| c.ns == E57_NS).enumerate() {
            let w = format!("images2D[{ii}]");
            if vc.local != "vectorChild" || vc.attr("type") != Some("Structure") {
                r.p("R4", format!("{w}: child of images2D is <{}> type {:?}", vc.local, vc.attr("type")));
                continue;
            }
            check_children(vc, T_IMAGE, &w, r);
            let mut img = Image {
                guid: s_opt(vc, "guid"),
                name: s_opt(vc, "name"),
                description: s_opt(vc, "description"),
                pc_guid: s_opt(vc, "associatedData3DGuid"),
                sensor_vendor: s_opt(vc, "sensorVendor"),
                sensor_model: s_opt(vc, "sensorModel"),
                sensor_serial: s_opt(vc, "sensorSerialNumber"),
                pose: pose_opt(vc, "pose", &w, r),
                acquisition: dt_opt(vc, "acquisitionDateTime", &w, r),
                ..Default::default()
            };
            img.visual = rep_opt(vc, "visualReferenceRepresentation", T_VISUAL, &w, r);
            let reps = [
                ("pinholeRepresentation", T_PINHOLE),
                ("sphericalRepresentation", T_SPHERICAL),
                ("cylindricalRepresentation", T_CYL),
            ];
            let mut n = 0;
            for (nm, tab) in reps {
                if let Some(rp) = rep_opt(vc, nm, tab, &w, r) {
                    n += 1;
                    if img.projection.is_none() {
                        img.projection = Some(rp);
                    }
                }
            }
            if n > 1 {
                r.p("R4", format!("{w}: more than one projection representation"));
            }
            if n == 0 && img.visual.is_none() {
                r.p("R4", format!("{w}: image without any representation"));
            }
            s.images.push(img);
        }
    }
}

// ------------------------------------------------------------------------------------------
// binary sections

fn decode_blob(log: &[u8], phys_len: u64, b: &mut BlobRef, w: &str, _opt: &Options, r: &mut Report, used: &mut Vec<(u64, u64, String)>) {
    if b.offset % 4 != 0 {
        r.p("R5", format!("{w}: fileOffset {} is not 4-byte aligned", b.offset));
    }
    let Some(ls) = page::phys_to_log(b.offset).filter(|_| b.offset < phys_len) else {
        r.p("R5", format!("{w}: fileOffset {} is outside the file or inside checksum bytes", b.offset));
        return;
    };
    let ls_us = ls as usize;
    if ls_us + 16 > log.len() {
        r.p("R8", format!("{w}: blob section header does not fit in the file"));
        return;
    }
    if log[ls_us] != 0 {
        r.p("R5", format!("{w}: section id at fileOffset is {} (expected 0 = Blob)", log[ls_us]));
        return;
    }
    let sec_len = u64le(log, ls_us + 8);
    let expect = (16 + b.length + 3) / 4 * 4;
    if sec_len != expect {
        r.p("R8", format!("{w}: blob section length field is {sec_len}, expected roundup4(16 + {}) = {expect}", b.length));
    }
    let end = ls + 16 + b.length;
    if end > log.len() as u64 {
        r.p("R8", format!("{w}: blob of length {} does not fit in the file", b.length));
        return;
    }
    b.data = log[ls_us + 16..end as usize].to_vec();
    used.push((ls, ls + expect, w.to_string()));
    r.sections.push(SectionInfo { kind: "blob", phys_start: b.offset, log_start: ls, log_len: expect, packets: vec![], streams: vec![] });
}

fn decode_cloud(log: &[u8], phys_len: u64, c: &mut Cloud, ci: usize, opt: &Options, r: &mut Report, used: &mut Vec<(u64, u64, String)>) {
    let w = format!("data3D[{ci}]");
    if c.file_offset % 4 != 0 {
        r.p("R5", format!("{w}: fileOffset {} is not 4-byte aligned", c.file_offset));
    }
    let Some(ls) = page::phys_to_log(c.file_offset).filter(|_| c.file_offset < phys_len) else {
        r.p("R5", format!("{w}: fileOffset {} is outside the file or inside checksum bytes", c.file_offset));
        return;
    };
    let lsu = ls as usize;
    if lsu + 32 > log.len() {
        r.p("R6", format!("{w}: section header does not fit"));
        return;
    }
    if log[lsu] != 1 {
        r.p("R5", format!("{w}: section id at fileOffset is {} (expected 1 = CompressedVector)", log[lsu]));
        return;
    }
    if log[lsu + 1..lsu + 8].iter().any(|b| *b != 0) {
        r.p("R6", format!("{w}: reserved bytes of the section header are not zero"));
    }
    let sec_len = u64le(log, lsu + 8);
    let data_off = u64le(log, lsu + 16);
    let index_off = u64le(log, lsu + 24);
    if sec_len % 4 != 0 || sec_len < 32 {
        r.p("R6", format!("{w}: section length {sec_len} is not a multiple of 4 >= 32"));
        return;
    }
    let sec_end = ls + sec_len;
    if sec_end > log.len() as u64 {
        r.p("R6", format!("{w}: section [{}..{}) exceeds the logical file size {}", ls, sec_end, log.len()));
        return;
    }
    used.push((ls, sec_end, w.clone()));
    let mut si = SectionInfo { kind: "cv", phys_start: c.file_offset, log_start: ls, log_len: sec_len, packets: vec![], streams: vec![Vec::new(); c.proto.len()] };
    let total_bits: u64 = c.proto.iter().map(|p| p.ty.bits() as u64).sum();
    // an empty section (no packets) is legal when there is nothing to store
    if data_off == 0 && sec_len == 32 && (c.records == 0 || total_bits == 0) {
        r.sections.push(si);
        finish_points(c, &[], &w, opt, r);
        return;
    }
    let dl = match page::phys_to_log(data_off).filter(|_| data_off <= phys_len) {
        Some(d) => d,
        None => {
            r.p("R6", format!("{w}: data offset {data_off} is outside the file or inside checksum bytes"));
            r.sections.push(si);
            return;
        }
    };
    if data_off % 4 != 0 {
        r.p("R5", format!("{w}: data offset {data_off} is not 4-byte aligned"));
    }
    if dl < ls + 32 || dl > sec_end {
        r.p("R6", format!("{w}: data offset (logical {dl}) lies outside the section [{}..{})", ls + 32, sec_end));
        r.sections.push(si);
        return;
    }
    // walk packets
    let mut pos = dl;
    let mut index_ok = index_off == 0;
    let n = c.proto.len();
    while pos < sec_end {
        let p = pos as usize;
        if p + 4 > log.len() {
            r.p("R6", format!("{w}: packet header at logical {pos} does not fit"));
            break;
        }
        let kind = log[p];
        let len = u16le(log, p + 2) as u64 + 1;
        if len % 4 != 0 {
            r.p("R7", format!("{w}: packet at logical {pos} has length {len}, not a multiple of 4"));
            break;
        }
        if pos + len > sec_end {
            r.p("R6", format!("{w}: packet at logical {pos} (length {len}) runs past the section end {sec_end}"));
            break;
        }
        let mut pi = PacketInfo { kind, log_off: pos, len, stream_sizes: vec![] };
        match kind {
            1 => {
                if len < 6 {
                    r.p("R7", format!("{w}: data packet at {pos} shorter than its header"));
                    break;
                }
                let cnt = u16le(log, p + 4) as usize;
                if cnt != n {
                    r.p("R7", format!("{w}: data packet at {pos} has {cnt} byte streams, prototype has {n}"));
                    break;
                }
                if 6 + 2 * n as u64 > len {
                    r.p("R7", format!("{w}: data packet at {pos} too short for its stream size table"));
                    break;
                }
                let mut sum = 0u64;
                for k in 0..n {
                    let s = u16le(log, p + 6 + 2 * k) as usize;
                    pi.stream_sizes.push(s);
                    sum += s as u64;
                }
                let need = 6 + 2 * n as u64 + sum;
                if need > len || len > need + 3 {
                    r.p("R7", format!("{w}: data packet at {pos}: header+sizes+streams = {need} bytes but packet length is {len}"));
                    break;
                }
                let mut q = p + 6 + 2 * n;
                for k in 0..n {
                    let s = pi.stream_sizes[k];
                    si.streams[k].extend_from_slice(&log[q..q + s]);
                    q += s;
                }
            }
            0 => {
                if len < 16 {
                    r.p("R7", format!("{w}: index packet at {pos} shorter than its header"));
                    break;
                }
                if page::log_to_phys(pos) == index_off {
                    index_ok = true;
                }
            }
            2 => {}
            k => {
                r.p("R6", format!("{w}: unknown packet type {k} at logical {pos}"));
                break;
            }
        }
        si.packets.push(pi);
        pos += len;
    }
    if pos != sec_end && !r.problems.iter().any(|p| p.msg.starts_with(&w)) {
        r.p("R6", format!("{w}: packets end at logical {pos}, section ends at {sec_end}"));
    }
    if !index_ok {
        // the index packet may also lie between the section header and the data offset
        let lands = page::phys_to_log(index_off).filter(|l| *l >= ls + 32 && *l + 16 <= sec_end).map_or(false, |l| {
            let p = l as usize;
            log[p] == 0 && (u16le(log, p + 2) as u64 + 1) % 4 == 0 && l + u16le(log, p + 2) as u64 + 1 <= sec_end
        });
        if !lands {
            r.p("R6", format!("{w}: index offset {index_off} does not land on an index packet of this section"));
        }
    }
    if si.packets.first().map_or(false, |p| p.log_off != dl) {
        r.p("R6", format!("{w}: data offset does not land on a packet"));
    }
    let streams = si.streams.clone();
    r.sections.push(si);
    finish_points(c, &streams, &w, opt, r);
}

fn finish_points(c: &mut Cloud, streams: &[Vec<u8>], w: &str, opt: &Options, r: &mut Report) {
    let n = c.records as usize;
    if c.records > (1 << 32) {
        r.p("R10", format!("{w}: record count {} too large for this decoder", c.records));
        return;
    }
    let mut cols: Vec<Vec<Val>> = Vec::new();
    for (k, rec) in c.proto.iter().enumerate() {
        let empty = Vec::new();
        let s = streams.get(k).unwrap_or(&empty);
        let wbits = rec.ty.bits() as usize;
        let need = (n * wbits + 7) / 8;
        if s.len() < need {
            r.p("R10", format!("{w}: stream of record {k} ({}) has {} bytes, {} needed for {} records of {} bits", rec.name, s.len(), need, n, wbits));
            return;
        }
        if opt.strict && s.len() != need {
            r.p("R7", format!("{w}: stream of record {k} ({}) has {} bytes in total, exactly {} expected for {} records of {} bits", rec.name, s.len(), need, n, wbits));
        }
        let col: Vec<Val> = match &rec.ty {
            Ty::F32 { .. } => (0..n).map(|i| Val::F32(f32::from_le_bytes([s[4 * i], s[4 * i + 1], s[4 * i + 2], s[4 * i + 3]]))).collect(),
            Ty::F64 { .. } => (0..n)
                .map(|i| {
                    let mut a = [0u8; 8];
                    a.copy_from_slice(&s[8 * i..8 * i + 8]);
                    Val::F64(f64::from_le_bytes(a))
                })
                .collect(),
            Ty::Int { min, max } => bits::decode_ints(s, *min, *max, n).into_iter().map(Val::Int).collect(),
            Ty::Scaled { min, max, .. } => bits::decode_ints(s, *min, *max, n).into_iter().map(Val::Scaled).collect(),
        };
        if col.len() != n {
            r.p("R10", format!("{w}: record {k} decoded {} of {} values", col.len(), n));
            return;
        }
        // decoded integers must lie within the declared range
        if let Ty::Int { min, max } | Ty::Scaled { min, max, .. } = &rec.ty {
            for (i, v) in col.iter().enumerate() {
                let x = match v {
                    Val::Int(x) | Val::Scaled(x) => *x,
                    _ => 0,
                };
                if x < *min || x > *max {
                    r.p("R10", format!("{w}: record {k} ({}) value {x} of point {i} outside [{min},{max}]", rec.name));
                    break;
                }
            }
        }
        cols.push(col);
    }
    c.points = (0..n).map(|i| cols.iter().map(|col| col[i]).collect()).collect();
}

/// Read a blob given a descriptor, following the statement of C06: the bytes that follow the
/// 16-byte section header at `offset`.
pub fn blob_bytes(phys: &[u8], offset: u64, length: u64) -> Result<Vec<u8>, String> {
    let (log, _bad) = page::unseal(phys)?;
    let ls = page::phys_to_log(offset).filter(|_| offset < phys.len() as u64).ok_or("offset outside file or in checksum")?;
    let s = ls.checked_add(16).ok_or("overflow")?;
    let e = s.checked_add(length).ok_or("overflow")?;
    if e > log.len() as u64 {
        return Err("blob runs past the end of the file".into());
    }
    Ok(log[s as usize..e as usize].to_vec())
}

pub const _PAYLOAD: usize = PAYLOAD;
