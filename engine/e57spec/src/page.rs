//! Page layer: 1024-byte physical pages = 1020 payload bytes + big-endian CRC-32C.

use crate::crc::crc32c;

pub const PAGE: usize = 1024;
pub const PAYLOAD: usize = 1020;

/// physical offset -> logical offset (None when inside checksum bytes)
pub fn phys_to_log(p: u64) -> Option<u64> {
    let page = p / PAGE as u64;
    let off = p % PAGE as u64;
    if off >= PAYLOAD as u64 {
        None
    } else {
        Some(page * PAYLOAD as u64 + off)
    }
}

pub fn log_to_phys(l: u64) -> u64 {
    let page = l / PAYLOAD as u64;
    let off = l % PAYLOAD as u64;
    page * PAGE as u64 + off
}

/// Build the physical file from a logical byte stream (zero-filled to a whole page).
pub fn seal(logical: &[u8]) -> Vec<u8> {
    let pages = (logical.len() + PAYLOAD - 1) / PAYLOAD;
    let mut out = Vec::with_capacity(pages * PAGE);
    for p in 0..pages {
        let s = p * PAYLOAD;
        let e = (s + PAYLOAD).min(logical.len());
        let mut payload = [0u8; PAYLOAD];
        payload[..e - s].copy_from_slice(&logical[s..e]);
        out.extend_from_slice(&payload);
        out.extend_from_slice(&crc32c(&payload).to_be_bytes());
    }
    out
}

/// Result of checking every page; returns the logical stream and the list of bad pages.
pub fn unseal(phys: &[u8]) -> Result<(Vec<u8>, Vec<usize>), String> {
    if phys.is_empty() {
        return Err("empty file".into());
    }
    if phys.len() % PAGE != 0 {
        return Err(format!("file size {} is not a multiple of {}", phys.len(), PAGE));
    }
    let pages = phys.len() / PAGE;
    let mut log = Vec::with_capacity(pages * PAYLOAD);
    let mut bad = Vec::new();
    for p in 0..pages {
        let pg = &phys[p * PAGE..(p + 1) * PAGE];
        let c = crc32c(&pg[..PAYLOAD]).to_be_bytes();
        if c != pg[PAYLOAD..] {
            bad.push(p);
        }
        log.extend_from_slice(&pg[..PAYLOAD]);
    }
    Ok((log, bad))
}

/// Re-compute the checksum of one page in place.
pub fn reseal_page(phys: &mut [u8], page: usize) {
    let s = page * PAGE;
    let c = crc32c(&phys[s..s + PAYLOAD]).to_be_bytes();
    phys[s + PAYLOAD..s + PAGE].copy_from_slice(&c);
}

#[cfg(test)]
mod tests {
    use super::*;
    #[test]
    fn maps() {
        assert_eq!(phys_to_log(0), Some(0));
        assert_eq!(phys_to_log(1019), Some(1019));
        assert_eq!(phys_to_log(1020), None);
        assert_eq!(phys_to_log(1024), Some(1020));
        assert_eq!(log_to_phys(1020), 1024);
        assert_eq!(log_to_phys(1019), 1019);
        let l: Vec<u8> = (0..2500).map(|i| i as u8).collect();
        let p = seal(&l);
        assert_eq!(p.len(), 3 * PAGE);
        let (l2, bad) = unseal(&p).unwrap();
        assert!(bad.is_empty());
        assert_eq!(&l2[..2500], &l[..]);
    }
}
