//! Bitwise CRC-32C (Castagnoli), reflected, init/xorout 0xFFFFFFFF. No table.
//! Check value: crc32c(b"123456789") == 0xE3069283.

pub fn crc32c(data: &[u8]) -> u32 {
    let mut crc: u32 = 0xFFFF_FFFF;
    for &b in data {
        crc ^= b as u32;
        for _ in 0..8 {
            let lsb = crc & 1;
            crc >>= 1;
            if lsb != 0 {
                crc ^= 0x82F6_3B78;
            }
        }
    }
    !crc
}

/// Table-driven variant (table derived from the bitwise definition above at first use);
/// used where millions of pages are checked. Cross-checked against `crc32c` in the tests.
pub fn crc32c_fast(data: &[u8]) -> u32 {
    static TABLE: std::sync::OnceLock<[u32; 256]> = std::sync::OnceLock::new();
    let t = TABLE.get_or_init(|| {
        let mut t = [0u32; 256];
        for (i, e) in t.iter_mut().enumerate() {
            // CRC register after feeding the single byte i into an all-zero register, no init/xorout
            let mut crc = i as u32;
            for _ in 0..8 {
                crc = if crc & 1 != 0 { (crc >> 1) ^ 0x82F6_3B78 } else { crc >> 1 };
            }
            *e = crc;
        }
        t
    });
    let mut crc: u32 = 0xFFFF_FFFF;
    for &b in data {
        crc = t[((crc ^ b as u32) & 0xFF) as usize] ^ (crc >> 8);
    }
    !crc
}

#[cfg(test)]
mod tests {
    #[test]
    fn fast_equals_bitwise() {
        let mut data = Vec::new();
        let mut x = 12345u32;
        for n in 0..3000 {
            x = x.wrapping_mul(1664525).wrapping_add(1013904223);
            data.push((x >> 24) as u8);
            if n % 97 == 0 {
                assert_eq!(super::crc32c(&data), super::crc32c_fast(&data));
            }
        }
    }
    #[test]
    fn check_value() {
        assert_eq!(super::crc32c(b"123456789"), 0xE306_9283);
        assert_eq!(super::crc32c(b""), 0);
        // 32 bytes of zeros / ones: RFC 3720 B.4 test vectors
        assert_eq!(super::crc32c(&[0u8; 32]), 0x8A91_36AA);
        assert_eq!(super::crc32c(&[0xFFu8; 32]), 0x62A8_AB43);
    }
}
