//! Bitwise CRC-32C (Castagnoli), reflected, init/xorout 0xFFFFFFFF. No table.
//! Check value: crc32c(b"123456789") == 0xE3069283.

pub fn crc32c(data: &[u8]) -> u32 {
    let mut crc: u32 = 0xFFFF_FFFF;
    for &b in data {
        crc ^= b as u32;
        for _ in 0..8 {
            let lsb = crc & 1;
            crc >>= 1;
            if lsb != 0 {
                crc ^= 0x82F6_3B78;
            }
        }
    }
    !crc
}

#[cfg(test)]
mod tests {
    #[test]
    fn check_value() {
        assert_eq!(super::crc32c(b"123456789"), 0xE306_9283);
        assert_eq!(super::crc32c(b""), 0);
        // 32 bytes of zeros / ones: RFC 3720 B.4 test vectors
        assert_eq!(super::crc32c(&[0u8; 32]), 0x8A91_36AA);
        assert_eq!(super::crc32c(&[0xFFu8; 32]), 0x62A8_AB43);
    }
}
