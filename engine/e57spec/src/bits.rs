//! Independent bit codec: value k of a w-bit stream occupies stream bits [k*w, (k+1)*w),
//! stored as (value - min), least significant bit first. Bit b of the stream is bit (b % 8)
//! of byte (b / 8).

/// number of bits needed for the range max - min (0 when equal, 64 for the full i64 range)
pub fn width(min: i64, max: i64) -> u32 {
    let range = (max as i128) - (min as i128);
    if range <= 0 {
        0
    } else {
        128 - (range as u128).leading_zeros()
    }
}

pub struct BitWriter {
    pub bytes: Vec<u8>,
    pub nbits: usize,
}

impl Default for BitWriter {
    fn default() -> Self {
        Self::new()
    }
}

impl BitWriter {
    pub fn new() -> Self {
        BitWriter { bytes: Vec::new(), nbits: 0 }
    }
    pub fn put(&mut self, v: u128, w: u32) {
        for b in 0..w {
            let bit = ((v >> b) & 1) as u8;
            if self.nbits % 8 == 0 {
                self.bytes.push(0);
            }
            let last = self.bytes.len() - 1;
            self.bytes[last] |= bit << (self.nbits % 8);
            self.nbits += 1;
        }
    }
}

pub fn encode_ints(values: &[i64], min: i64, max: i64) -> Vec<u8> {
    let w = width(min, max);
    let mut bw = BitWriter::new();
    for &v in values {
        let u = ((v as i128) - (min as i128)) as u128;
        bw.put(u, w);
    }
    bw.bytes
}

/// Decode as many complete w-bit values as `limit` allows from `bytes`.
pub fn decode_ints(bytes: &[u8], min: i64, max: i64, limit: usize) -> Vec<i64> {
    let w = width(min, max) as usize;
    let mut out = Vec::new();
    if w == 0 {
        for _ in 0..limit {
            out.push(min);
        }
        return out;
    }
    let total = bytes.len() * 8;
    let mut pos = 0usize;
    while pos + w <= total && out.len() < limit {
        let mut u: u128 = 0;
        for b in 0..w {
            let bit = (bytes[(pos + b) / 8] >> ((pos + b) % 8)) & 1;
            u |= (bit as u128) << b;
        }
        out.push(((min as i128) + (u as i128)) as i64);
        pos += w;
    }
    out
}

#[cfg(test)]
mod tests {
    use super::*;
    #[test]
    fn widths() {
        assert_eq!(width(0, 0), 0);
        assert_eq!(width(7, 7), 0);
        assert_eq!(width(0, 1), 1);
        assert_eq!(width(0, 2), 2);
        assert_eq!(width(0, 255), 8);
        assert_eq!(width(0, 256), 9);
        assert_eq!(width(-5, 5), 4);
        assert_eq!(width(i64::MIN, i64::MAX), 64);
        assert_eq!(width(i64::MIN, -1), 63);
        assert_eq!(width(0, i64::MAX), 63);
        assert_eq!(width(-1, i64::MAX), 64);
    }
    #[test]
    fn roundtrip() {
        let v = [i64::MIN, -1, 0, 1, i64::MAX];
        let e = encode_ints(&v, i64::MIN, i64::MAX);
        assert_eq!(e.len(), 40);
        assert_eq!(decode_ints(&e, i64::MIN, i64::MAX, 5), v);
        let v = [0, 1, 2, 3, 4, 5, 6, 7, 7, 0];
        let e = encode_ints(&v, 0, 7);
        assert_eq!(e.len(), 4);
        assert_eq!(decode_ints(&e, 0, 7, 10), v);
        // 0b...: 0 | 1<<3 | 2<<6 ...
        assert_eq!(e[0], 0x88);
    }
}
