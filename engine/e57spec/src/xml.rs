//! Strict XML 1.0 subset parser with namespace resolution (no DTD support).
//! Written independently of roxmltree; used as oracle and as document editor
//! (every element records its byte spans in the source so that foreign content
//! can be spliced into the original text without re-serialising it).

#[derive(Clone, Debug, PartialEq)]
pub struct Attr {
    pub prefix: String,
    pub local: String,
    /// resolved namespace URI ("" = no namespace; unprefixed attributes have none)
    pub ns: String,
    pub value: String,
}

#[derive(Clone, Debug, PartialEq)]
pub enum Node {
    Elem(Elem),
    /// character data (text, CDATA and references already merged/decoded)
    Text(String),
    Comment(String),
    Pi(String),
}

#[derive(Clone, Debug, PartialEq, Default)]
pub struct Elem {
    pub prefix: String,
    pub local: String,
    pub ns: String,
    pub attrs: Vec<Attr>,
    pub nsdecls: Vec<(String, String)>,
    pub children: Vec<Node>,
    /// byte offset of '<' of the start tag
    pub start: usize,
    /// byte offset of the '>' (or of "/>") that ends the start tag
    pub open_end: usize,
    /// byte offset just after the end of the element
    pub end: usize,
    pub self_closing: bool,
}

#[derive(Clone, Debug)]
pub struct Doc {
    pub has_decl: bool,
    pub root: Elem,
}

impl Elem {
    pub fn child_elems(&self) -> impl Iterator<Item = &Elem> {
        self.children.iter().filter_map(|n| if let Node::Elem(e) = n { Some(e) } else { None })
    }
    /// first child element with this local name in namespace `ns`
    pub fn child(&self, ns: &str, local: &str) -> Option<&Elem> {
        self.child_elems().find(|e| e.local == local && e.ns == ns)
    }
    pub fn children_named<'a>(&'a self, ns: &'a str, local: &'a str) -> impl Iterator<Item = &'a Elem> + 'a {
        self.child_elems().filter(move |e| e.local == local && e.ns == ns)
    }
    /// attribute without namespace
    pub fn attr(&self, local: &str) -> Option<&str> {
        self.attrs.iter().find(|a| a.local == local && a.ns.is_empty()).map(|a| a.value.as_str())
    }
    /// concatenated character data of direct children
    pub fn text(&self) -> String {
        let mut s = String::new();
        for c in &self.children {
            if let Node::Text(t) = c {
                s.push_str(t);
            }
        }
        s
    }
    pub fn walk<'a>(&'a self, f: &mut dyn FnMut(&'a Elem, usize), depth: usize) {
        f(self, depth);
        for c in self.child_elems() {
            c.walk(f, depth + 1);
        }
    }
}

struct P<'a> {
    s: &'a str,
    b: &'a [u8],
    i: usize,
}

type R<T> = Result<T, String>;

fn is_name_start(c: char) -> bool {
    c == '_' || c == ':' || c.is_ascii_alphabetic() || (c as u32) >= 0x80
}
fn is_name_char(c: char) -> bool {
    is_name_start(c) || c == '-' || c == '.' || c.is_ascii_digit()
}
pub fn is_xml_char(c: char) -> bool {
    matches!(c as u32, 0x9 | 0xA | 0xD | 0x20..=0xD7FF | 0xE000..=0xFFFD | 0x10000..=0x10FFFF)
}

impl<'a> P<'a> {
    fn err<T>(&self, m: &str) -> R<T> {
        Err(format!("XML error at byte {}: {}", self.i, m))
    }
    fn starts(&self, t: &str) -> bool {
        self.b[self.i..].starts_with(t.as_bytes())
    }
    fn peek(&self) -> Option<char> {
        self.s[self.i..].chars().next()
    }
    fn ws(&mut self) -> bool {
        let st = self.i;
        while self.i < self.b.len() && matches!(self.b[self.i], b' ' | b'\t' | b'\n' | b'\r') {
            self.i += 1;
        }
        self.i > st
    }
    fn name(&mut self) -> R<&'a str> {
        let st = self.i;
        match self.peek() {
            Some(c) if is_name_start(c) => self.i += c.len_utf8(),
            _ => return self.err("expected name"),
        }
        while let Some(c) = self.peek() {
            if is_name_char(c) {
                self.i += c.len_utf8();
            } else {
                break;
            }
        }
        Ok(&self.s[st..self.i])
    }
    fn expect(&mut self, t: &str) -> R<()> {
        if self.starts(t) {
            self.i += t.len();
            Ok(())
        } else {
            self.err(&format!("expected '{t}'"))
        }
    }
    fn reference(&mut self, out: &mut String) -> R<()> {
        // at '&'
        self.i += 1;
        if self.starts("#x") {
            self.i += 2;
            let st = self.i;
            while self.i < self.b.len() && self.b[self.i].is_ascii_hexdigit() {
                self.i += 1;
            }
            let cp = u32::from_str_radix(&self.s[st..self.i], 16).map_err(|_| "bad char ref".to_string())?;
            self.expect(";")?;
            let c = char::from_u32(cp).filter(|c| is_xml_char(*c)).ok_or("char ref to non-XML char")?;
            out.push(c);
        } else if self.starts("#") {
            self.i += 1;
            let st = self.i;
            while self.i < self.b.len() && self.b[self.i].is_ascii_digit() {
                self.i += 1;
            }
            let cp: u32 = self.s[st..self.i].parse().map_err(|_| "bad char ref".to_string())?;
            self.expect(";")?;
            let c = char::from_u32(cp).filter(|c| is_xml_char(*c)).ok_or("char ref to non-XML char")?;
            out.push(c);
        } else {
            let n = self.name()?;
            self.expect(";")?;
            out.push(match n {
                "lt" => '<',
                "gt" => '>',
                "amp" => '&',
                "quot" => '"',
                "apos" => '\'',
                _ => return self.err("unknown entity"),
            });
        }
        Ok(())
    }
    fn comment(&mut self) -> R<String> {
        self.expect("<!--")?;
        let st = self.i;
        loop {
            if self.i >= self.b.len() {
                return self.err("unterminated comment");
            }
            if self.starts("--") {
                if self.starts("-->") {
                    let c = self.s[st..self.i].to_string();
                    self.i += 3;
                    return Ok(c);
                }
                return self.err("'--' inside comment");
            }
            self.i += 1;
        }
    }
    fn pi(&mut self) -> R<String> {
        self.expect("<?")?;
        let st = self.i;
        let n = self.name()?;
        if n.eq_ignore_ascii_case("xml") {
            return self.err("XML declaration not at start");
        }
        match self.s[self.i..].find("?>") {
            Some(p) => {
                self.i += p + 2;
                Ok(self.s[st..self.i - 2].to_string())
            }
            None => self.err("unterminated PI"),
        }
    }
    fn attr_value(&mut self) -> R<String> {
        let q = match self.b.get(self.i) {
            Some(b'"') => b'"',
            Some(b'\'') => b'\'',
            _ => return self.err("expected quoted attribute value"),
        };
        self.i += 1;
        let mut out = String::new();
        loop {
            let Some(c) = self.peek() else { return self.err("unterminated attribute value") };
            if c as u32 == q as u32 {
                self.i += 1;
                return Ok(out);
            }
            match c {
                '<' => return self.err("'<' in attribute value"),
                '&' => self.reference(&mut out)?,
                '\t' | '\n' => {
                    out.push(' ');
                    self.i += 1;
                }
                '\r' => {
                    out.push(' ');
                    self.i += 1;
                    if self.b.get(self.i) == Some(&b'\n') {
                        self.i += 1;
                    }
                }
                c => {
                    if !is_xml_char(c) {
                        return self.err("non-XML character");
                    }
                    out.push(c);
                    self.i += c.len_utf8();
                }
            }
        }
    }
    fn element(&mut self, scope: &mut Vec<(String, String)>) -> R<Elem> {
        let start = self.i;
        self.expect("<")?;
        let qname = self.name()?;
        let mut raw_attrs: Vec<(String, String)> = Vec::new();
        let self_closing;
        let open_end;
        loop {
            let had_ws = self.ws();
            if self.starts("/>") {
                open_end = self.i;
                self.i += 2;
                self_closing = true;
                break;
            }
            if self.starts(">") {
                open_end = self.i;
                self.i += 1;
                self_closing = false;
                break;
            }
            if !had_ws {
                return self.err("expected whitespace before attribute");
            }
            let an = self.name()?.to_string();
            self.ws();
            self.expect("=")?;
            self.ws();
            let av = self.attr_value()?;
            if raw_attrs.iter().any(|(n, _)| *n == an) {
                return self.err("duplicate attribute");
            }
            raw_attrs.push((an, av));
        }
        // namespace declarations
        let scope_mark = scope.len();
        let mut nsdecls = Vec::new();
        for (n, v) in &raw_attrs {
            if n == "xmlns" {
                scope.push((String::new(), v.clone()));
                nsdecls.push((String::new(), v.clone()));
            } else if let Some(p) = n.strip_prefix("xmlns:") {
                if p.is_empty() || p.contains(':') {
                    return self.err("bad namespace prefix");
                }
                if v.is_empty() {
                    return self.err("prefix bound to empty namespace");
                }
                if p == "xmlns" || (p == "xml" && v != "http://www.w3.org/XML/1998/namespace") {
                    return self.err("reserved prefix");
                }
                scope.push((p.to_string(), v.clone()));
                nsdecls.push((p.to_string(), v.clone()));
            }
        }
        let lookup = |scope: &Vec<(String, String)>, p: &str| -> Option<String> {
            if p == "xml" {
                return Some("http://www.w3.org/XML/1998/namespace".to_string());
            }
            scope.iter().rev().find(|(pp, _)| pp == p).map(|(_, u)| u.clone())
        };
        let split = |q: &str| -> R<(String, String)> {
            match q.split_once(':') {
                Some((p, l)) => {
                    if p.is_empty() || l.is_empty() || l.contains(':') {
                        Err(format!("bad qualified name '{q}'"))
                    } else {
                        Ok((p.to_string(), l.to_string()))
                    }
                }
                None => Ok((String::new(), q.to_string())),
            }
        };
        let (prefix, local) = split(qname)?;
        let ns = if prefix.is_empty() {
            lookup(scope, "").unwrap_or_default()
        } else {
            match lookup(scope, &prefix) {
                Some(u) => u,
                None => return self.err(&format!("undeclared prefix '{prefix}'")),
            }
        };
        let mut attrs = Vec::new();
        for (n, v) in raw_attrs {
            if n == "xmlns" || n.starts_with("xmlns:") {
                continue;
            }
            let (p, l) = split(&n)?;
            let ans = if p.is_empty() {
                String::new()
            } else {
                match lookup(scope, &p) {
                    Some(u) => u,
                    None => return self.err(&format!("undeclared attribute prefix '{p}'")),
                }
            };
            if attrs.iter().any(|a: &Attr| a.local == l && a.ns == ans) {
                return self.err("duplicate expanded attribute name");
            }
            attrs.push(Attr { prefix: p, local: l, ns: ans, value: v });
        }
        let mut children: Vec<Node> = Vec::new();
        if !self_closing {
            let mut text = String::new();
            loop {
                if self.i >= self.b.len() {
                    return self.err("unexpected end of document inside element");
                }
                if self.starts("</") {
                    break;
                }
                if self.starts("<![CDATA[") {
                    self.i += 9;
                    match self.s[self.i..].find("]]>") {
                        Some(p) => {
                            let t = &self.s[self.i..self.i + p];
                            if !t.chars().all(is_xml_char) {
                                return self.err("non-XML character in CDATA");
                            }
                            push_normalised(&mut text, t);
                            self.i += p + 3;
                        }
                        None => return self.err("unterminated CDATA"),
                    }
                    continue;
                }
                if self.starts("<!--") {
                    flush_text(&mut text, &mut children);
                    let c = self.comment()?;
                    children.push(Node::Comment(c));
                    continue;
                }
                if self.starts("<?") {
                    flush_text(&mut text, &mut children);
                    let p = self.pi()?;
                    children.push(Node::Pi(p));
                    continue;
                }
                if self.starts("<!") {
                    return self.err("markup declaration inside element");
                }
                if self.starts("<") {
                    flush_text(&mut text, &mut children);
                    let e = self.element(scope)?;
                    children.push(Node::Elem(e));
                    continue;
                }
                if self.starts("&") {
                    self.reference(&mut text)?;
                    continue;
                }
                if self.starts("]]>") {
                    return self.err("']]>' in character data");
                }
                let c = self.peek().unwrap();
                if !is_xml_char(c) {
                    return self.err("non-XML character");
                }
                if c == '\r' {
                    text.push('\n');
                    self.i += 1;
                    if self.b.get(self.i) == Some(&b'\n') {
                        self.i += 1;
                    }
                } else {
                    text.push(c);
                    self.i += c.len_utf8();
                }
            }
            flush_text(&mut text, &mut children);
            self.expect("</")?;
            let en = self.name()?;
            if en != qname {
                return self.err(&format!("end tag '{en}' does not match '{qname}'"));
            }
            self.ws();
            self.expect(">")?;
        }
        scope.truncate(scope_mark);
        Ok(Elem { prefix, local, ns, attrs, nsdecls, children, start, open_end, end: self.i, self_closing })
    }
}

fn push_normalised(out: &mut String, t: &str) {
    let mut it = t.chars().peekable();
    while let Some(c) = it.next() {
        if c == '\r' {
            out.push('\n');
            if it.peek() == Some(&'\n') {
                it.next();
            }
        } else {
            out.push(c);
        }
    }
}

fn flush_text(text: &mut String, children: &mut Vec<Node>) {
    if !text.is_empty() {
        children.push(Node::Text(std::mem::take(text)));
    }
}

pub fn parse(s: &str) -> R<Doc> {
    let mut p = P { s, b: s.as_bytes(), i: 0 };
    if p.starts("\u{feff}") {
        p.i += 3;
    }
    let mut has_decl = false;
    if p.starts("<?xml") && p.b.get(p.i + 5).map_or(false, |c| matches!(c, b' ' | b'\t' | b'\n' | b'\r')) {
        has_decl = true;
        match p.s[p.i..].find("?>") {
            Some(e) => {
                let d = &p.s[p.i + 5..p.i + e];
                if !d.contains("version") {
                    return p.err("XML declaration without version");
                }
                if let Some(pos) = d.find("encoding") {
                    let rest = d[pos + 8..].trim_start().trim_start_matches('=').trim_start();
                    let enc: String = rest.chars().skip(1).take_while(|c| *c != '"' && *c != '\'').collect();
                    if !enc.eq_ignore_ascii_case("utf-8") {
                        return p.err("unsupported encoding");
                    }
                }
                p.i += e + 2;
            }
            None => return p.err("unterminated XML declaration"),
        }
    }
    loop {
        p.ws();
        if p.starts("<!--") {
            p.comment()?;
        } else if p.starts("<?") {
            p.pi()?;
        } else if p.starts("<!") {
            return p.err("DOCTYPE / markup declarations are not supported");
        } else {
            break;
        }
    }
    let mut scope = Vec::new();
    let root = p.element(&mut scope)?;
    loop {
        p.ws();
        if p.starts("<!--") {
            p.comment()?;
        } else if p.starts("<?") {
            p.pi()?;
        } else {
            break;
        }
    }
    if p.i != p.b.len() {
        return p.err("content after root element");
    }
    Ok(Doc { has_decl, root })
}

/// Canonical dump of the infoset (expanded names, sorted attributes, concatenated character data of
/// every element, child element order) for cross-checking this parser against another one.
pub fn infoset(doc: &Doc) -> String {
    fn esc(s: &str) -> String {
        let mut o = String::new();
        for c in s.chars() {
            match c {
                '\\' => o.push_str("\\\\"),
                '\n' => o.push_str("\\n"),
                '\t' => o.push_str("\\t"),
                '\r' => o.push_str("\\r"),
                c => o.push(c),
            }
        }
        o
    }
    fn dump(e: &Elem, depth: usize, out: &mut String) {
        let ind = " ".repeat(depth);
        out.push_str(&format!("{ind}E {{{}}}{}\n", e.ns, e.local));
        let mut attrs: Vec<(String, String, String)> = e.attrs.iter().map(|a| (a.ns.clone(), a.local.clone(), a.value.clone())).collect();
        attrs.sort();
        for (ns, l, v) in attrs {
            out.push_str(&format!("{ind} A {{{ns}}}{l}={}\n", esc(&v)));
        }
        out.push_str(&format!("{ind} T {}\n", esc(&e.text())));
        for c in e.child_elems() {
            dump(c, depth + 1, out);
        }
    }
    let mut out = String::new();
    dump(&doc.root, 0, &mut out);
    out
}

/// escape for use as text content
pub fn esc_text(s: &str) -> String {
    let mut o = String::new();
    for c in s.chars() {
        match c {
            '<' => o.push_str("&lt;"),
            '>' => o.push_str("&gt;"),
            '&' => o.push_str("&amp;"),
            '\r' => o.push_str("&#13;"),
            c => o.push(c),
        }
    }
    o
}
pub fn esc_attr(s: &str) -> String {
    let mut o = String::new();
    for c in s.chars() {
        match c {
            '<' => o.push_str("&lt;"),
            '&' => o.push_str("&amp;"),
            '"' => o.push_str("&quot;"),
            '\n' => o.push_str("&#10;"),
            '\t' => o.push_str("&#9;"),
            '\r' => o.push_str("&#13;"),
            c => o.push(c),
        }
    }
    o
}
/// CDATA with "]]>" split across sections
pub fn cdata(s: &str) -> String {
    // a carriage return survives only as a character reference, i.e. outside of CDATA
    format!("<![CDATA[{}]]>", s.replace("]]>", "]]]]><![CDATA[>").replace('\r', "]]>&#13;<![CDATA["))
}

#[cfg(test)]
mod tests {
    use super::*;
    #[test]
    fn basic() {
        let d = parse("<?xml version=\"1.0\" encoding=\"UTF-8\"?>\n<a xmlns=\"u\" xmlns:p=\"v\" k=\"1&amp;2\"><p:b p:z='q'/>t<![CDATA[<x>]]>&#65;<!--c--><c/></a>\n").unwrap();
        assert!(d.has_decl);
        assert_eq!(d.root.ns, "u");
        assert_eq!(d.root.attr("k"), Some("1&2"));
        let b = d.root.child("v", "b").unwrap();
        assert_eq!(b.attrs[0].ns, "v");
        assert!(b.self_closing);
        assert_eq!(d.root.text(), "t<x>A");
        assert!(d.root.child("u", "c").is_some());
        assert!(parse("<a><b></a>").is_err());
        assert!(parse("<a>]]></a>").is_err());
        assert!(parse("<p:a/>").is_err());
        assert!(parse("<a b='1' b='2'/>").is_err());
        assert!(parse("<!DOCTYPE a><a/>").is_err());
        assert_eq!(cdata("x]]>y"), "<![CDATA[x]]]]><![CDATA[>y]]>");
        assert_eq!(parse(&format!("<a>{}</a>", cdata("x]]>y"))).unwrap().root.text(), "x]]>y");
    }
}
