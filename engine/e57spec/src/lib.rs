//! Independent implementation of the ASTM E57 (E2807) file layout.
//! Zero dependencies; shares no code with the `e57` crate under test.
pub mod bits;
pub mod crc;
pub mod decode;
pub mod encode;
pub mod model;
pub mod page;
pub mod xml;
