//! Plain data model of an E57 scene (what a file *means*), shared by the
//! independent decoder/encoder and by the harness's record of what it handed to
//! the real writer.  Comparison is exact: floats by bit pattern (any NaN == any NaN
//! for metadata, exact bits for point values).

pub const E57_NS: &str = "http://www.astm.org/COMMIT/E57/2010-e57-v1.0";

#[derive(Clone, Debug)]
pub enum Ty {
    F32 { min: Option<f32>, max: Option<f32> },
    F64 { min: Option<f64>, max: Option<f64> },
    Int { min: i64, max: i64 },
    Scaled { min: i64, max: i64, scale: f64, offset: f64 },
}

impl Ty {
    pub fn bits(&self) -> u32 {
        match self {
            Ty::F32 { .. } => 32,
            Ty::F64 { .. } => 64,
            Ty::Int { min, max } | Ty::Scaled { min, max, .. } => crate::bits::width(*min, *max),
        }
    }
    pub fn kind(&self) -> &'static str {
        match self {
            Ty::F32 { .. } => "f32",
            Ty::F64 { .. } => "f64",
            Ty::Int { .. } => "int",
            Ty::Scaled { .. } => "scaled",
        }
    }
    pub fn describe(&self) -> String {
        match self {
            Ty::F32 { min, max } => format!("F32[{min:?},{max:?}]"),
            Ty::F64 { min, max } => format!("F64[{min:?},{max:?}]"),
            Ty::Int { min, max } => format!("Int[{min},{max}]"),
            Ty::Scaled { min, max, scale, offset } => format!("Scaled[{min},{max}]*{scale}+{offset}"),
        }
    }
}

#[derive(Clone, Copy, Debug)]
pub enum Val {
    F32(f32),
    F64(f64),
    Int(i64),
    Scaled(i64),
}

impl Val {
    pub fn key(&self) -> (u8, u64) {
        match self {
            Val::F32(v) => (0, v.to_bits() as u64),
            Val::F64(v) => (1, v.to_bits()),
            Val::Int(v) => (2, *v as u64),
            Val::Scaled(v) => (3, *v as u64),
        }
    }
    pub fn describe(&self) -> String {
        match self {
            Val::F32(v) => format!("f32:{v:?}/{:#x}", v.to_bits()),
            Val::F64(v) => format!("f64:{v:?}/{:#x}", v.to_bits()),
            Val::Int(v) => format!("int:{v}"),
            Val::Scaled(v) => format!("sint:{v}"),
        }
    }
}
impl PartialEq for Val {
    fn eq(&self, o: &Self) -> bool {
        self.key() == o.key()
    }
}

#[derive(Clone, Debug)]
pub struct Rec {
    /// namespace *prefix* for extension attributes, None for standard ones
    pub ns: Option<String>,
    pub name: String,
    pub ty: Ty,
}

#[derive(Clone, Debug, Default)]
pub struct DateTime {
    pub gps: f64,
    pub atomic: bool,
}

#[derive(Clone, Debug)]
pub struct Pose {
    pub rot: [f64; 4],
    pub trans: [f64; 3],
}
impl Default for Pose {
    fn default() -> Self {
        Pose { rot: [1.0, 0.0, 0.0, 0.0], trans: [0.0; 3] }
    }
}

#[derive(Clone, Copy, Debug)]
pub enum LVal {
    Int(i64),
    Scaled(i64),
    F32(f32),
    F64(f64),
}
impl LVal {
    pub fn key(&self) -> (u8, u64) {
        match self {
            LVal::Int(v) => (0, *v as u64),
            LVal::Scaled(v) => (1, *v as u64),
            LVal::F32(v) => (2, if v.is_nan() { u64::MAX } else { v.to_bits() as u64 }),
            LVal::F64(v) => (3, if v.is_nan() { u64::MAX } else { v.to_bits() }),
        }
    }
    pub fn as_f64(&self) -> f64 {
        match self {
            LVal::Int(v) | LVal::Scaled(v) => *v as f64,
            LVal::F32(v) => *v as f64,
            LVal::F64(v) => *v,
        }
    }
}

#[derive(Clone, Debug, Default)]
pub struct CloudMeta {
    pub guid: Option<String>,
    pub name: Option<String>,
    pub description: Option<String>,
    pub original_guids: Option<Vec<String>>,
    pub sensor_vendor: Option<String>,
    pub sensor_model: Option<String>,
    pub sensor_serial: Option<String>,
    pub sensor_hw: Option<String>,
    pub sensor_sw: Option<String>,
    pub sensor_fw: Option<String>,
    pub temperature: Option<f64>,
    pub humidity: Option<f64>,
    pub pressure: Option<f64>,
    pub pose: Option<Pose>,
    pub acq_start: Option<DateTime>,
    pub acq_end: Option<DateTime>,
    /// xmin xmax ymin ymax zmin zmax
    pub cartesian_bounds: Option<[Option<f64>; 6]>,
    /// rmin rmax elmin elmax azstart azend
    pub spherical_bounds: Option<[Option<f64>; 6]>,
    /// rowmin rowmax colmin colmax retmin retmax
    pub index_bounds: Option<[Option<i64>; 6]>,
    /// rmin rmax gmin gmax bmin bmax
    pub color_limits: Option<[Option<LVal>; 6]>,
    pub intensity_limits: Option<[Option<LVal>; 2]>,
}

#[derive(Clone, Debug, Default)]
pub struct Cloud {
    pub meta: CloudMeta,
    pub proto: Vec<Rec>,
    pub points: Vec<Vec<Val>>,
    /// stated record count (== points.len() in a consistent scene)
    pub records: u64,
    pub file_offset: u64,
}

#[derive(Clone, Debug, PartialEq, Eq)]
pub enum ImgFormat {
    Png,
    Jpeg,
}

#[derive(Clone, Debug)]
pub struct BlobRef {
    pub offset: u64,
    pub length: u64,
    /// payload (filled by the decoder / by the harness)
    pub data: Vec<u8>,
}

#[derive(Clone, Debug)]
pub enum ProjKind {
    Pinhole { focal: f64, pw: f64, ph: f64, ppx: f64, ppy: f64 },
    Spherical { pw: f64, ph: f64 },
    Cylindrical { radius: f64, ppy: f64, pw: f64, ph: f64 },
}

#[derive(Clone, Debug)]
pub struct Rep {
    pub format: ImgFormat,
    pub blob: BlobRef,
    pub mask: Option<BlobRef>,
    pub width: i64,
    pub height: i64,
    /// None for the visual reference representation
    pub proj: Option<ProjKind>,
}

#[derive(Clone, Debug, Default)]
pub struct Image {
    pub guid: Option<String>,
    pub visual: Option<Rep>,
    pub projection: Option<Rep>,
    pub pose: Option<Pose>,
    pub pc_guid: Option<String>,
    pub name: Option<String>,
    pub description: Option<String>,
    pub acquisition: Option<DateTime>,
    pub sensor_vendor: Option<String>,
    pub sensor_model: Option<String>,
    pub sensor_serial: Option<String>,
}

#[derive(Clone, Debug, Default)]
pub struct Scene {
    pub guid: String,
    pub format_name: String,
    pub version: (i64, i64),
    pub library_version: Option<String>,
    pub creation: Option<DateTime>,
    pub coordinate_metadata: Option<String>,
    /// (prefix, uri) declared on the root element
    pub extensions: Vec<(String, String)>,
    pub clouds: Vec<Cloud>,
    pub images: Vec<Image>,
}

// ------------------------------------------------------------------------------------------
// comparison

pub fn feq(a: f64, b: f64) -> bool {
    a.to_bits() == b.to_bits() || (a.is_nan() && b.is_nan())
}
fn feq32(a: f32, b: f32) -> bool {
    a.to_bits() == b.to_bits() || (a.is_nan() && b.is_nan())
}
fn ofeq(a: Option<f64>, b: Option<f64>) -> bool {
    match (a, b) {
        (None, None) => true,
        (Some(a), Some(b)) => feq(a, b),
        _ => false,
    }
}

pub fn ty_eq(a: &Ty, b: &Ty) -> bool {
    match (a, b) {
        (Ty::F32 { min: a0, max: a1 }, Ty::F32 { min: b0, max: b1 }) => {
            let e = |x: &Option<f32>, y: &Option<f32>| match (x, y) {
                (None, None) => true,
                (Some(x), Some(y)) => feq32(*x, *y),
                _ => false,
            };
            e(a0, b0) && e(a1, b1)
        }
        (Ty::F64 { min: a0, max: a1 }, Ty::F64 { min: b0, max: b1 }) => ofeq(*a0, *b0) && ofeq(*a1, *b1),
        (Ty::Int { min: a0, max: a1 }, Ty::Int { min: b0, max: b1 }) => a0 == b0 && a1 == b1,
        (
            Ty::Scaled { min: a0, max: a1, scale: s0, offset: o0 },
            Ty::Scaled { min: b0, max: b1, scale: s1, offset: o1 },
        ) => a0 == b0 && a1 == b1 && feq(*s0, *s1) && feq(*o0, *o1),
        _ => false,
    }
}

pub struct Diff {
    pub out: Vec<String>,
    pub cap: usize,
}
impl Diff {
    pub fn new() -> Self {
        Diff { out: Vec::new(), cap: 8 }
    }
    pub fn add(&mut self, s: String) {
        if self.out.len() < self.cap {
            self.out.push(s);
        }
    }
    fn os(&mut self, what: &str, a: &Option<String>, b: &Option<String>) {
        if a != b {
            self.add(format!("{what}: expected {a:?}, got {b:?}"));
        }
    }
    fn of(&mut self, what: &str, a: Option<f64>, b: Option<f64>) {
        if !ofeq(a, b) {
            self.add(format!("{what}: expected {a:?}, got {b:?}"));
        }
    }
    fn dt(&mut self, what: &str, a: &Option<DateTime>, b: &Option<DateTime>) {
        let ok = match (a, b) {
            (None, None) => true,
            (Some(a), Some(b)) => feq(a.gps, b.gps) && a.atomic == b.atomic,
            _ => false,
        };
        if !ok {
            self.add(format!("{what}: expected {a:?}, got {b:?}"));
        }
    }
    fn pose(&mut self, what: &str, a: &Option<Pose>, b: &Option<Pose>) {
        let ok = match (a, b) {
            (None, None) => true,
            (Some(a), Some(b)) => {
                a.rot.iter().zip(b.rot.iter()).all(|(x, y)| feq(*x, *y))
                    && a.trans.iter().zip(b.trans.iter()).all(|(x, y)| feq(*x, *y))
            }
            _ => false,
        };
        if !ok {
            self.add(format!("{what}: expected {a:?}, got {b:?}"));
        }
    }
}
impl Default for Diff {
    fn default() -> Self {
        Self::new()
    }
}

pub fn diff_proto(d: &mut Diff, what: &str, a: &[Rec], b: &[Rec]) {
    if a.len() != b.len() {
        d.add(format!("{what}: prototype length expected {}, got {}", a.len(), b.len()));
        return;
    }
    for (i, (x, y)) in a.iter().zip(b.iter()).enumerate() {
        if x.ns != y.ns || x.name != y.name {
            d.add(format!("{what}: record {i} name expected {:?}:{}, got {:?}:{}", x.ns, x.name, y.ns, y.name));
        }
        if !ty_eq(&x.ty, &y.ty) {
            d.add(format!("{what}: record {i} ({}) type expected {}, got {}", x.name, x.ty.describe(), y.ty.describe()));
        }
    }
}

pub fn diff_points(d: &mut Diff, what: &str, a: &[Vec<Val>], b: &[Vec<Val>]) {
    if a.len() != b.len() {
        d.add(format!("{what}: point count expected {}, got {}", a.len(), b.len()));
    }
    for (i, (x, y)) in a.iter().zip(b.iter()).enumerate() {
        if x != y {
            let xs: Vec<String> = x.iter().map(|v| v.describe()).collect();
            let ys: Vec<String> = y.iter().map(|v| v.describe()).collect();
            d.add(format!("{what}: point {i} expected [{}], got [{}]", xs.join(" "), ys.join(" ")));
            return;
        }
    }
}

fn lim_eq(a: &Option<LVal>, b: &Option<LVal>) -> bool {
    match (a, b) {
        (None, None) => true,
        (Some(a), Some(b)) => a.key() == b.key(),
        _ => false,
    }
}

pub fn diff_cloud_meta(d: &mut Diff, w: &str, a: &CloudMeta, b: &CloudMeta, with_bounds: bool) {
    d.os(&format!("{w}.guid"), &a.guid, &b.guid);
    d.os(&format!("{w}.name"), &a.name, &b.name);
    d.os(&format!("{w}.description"), &a.description, &b.description);
    if a.original_guids != b.original_guids {
        d.add(format!("{w}.originalGuids: expected {:?}, got {:?}", a.original_guids, b.original_guids));
    }
    d.os(&format!("{w}.sensorVendor"), &a.sensor_vendor, &b.sensor_vendor);
    d.os(&format!("{w}.sensorModel"), &a.sensor_model, &b.sensor_model);
    d.os(&format!("{w}.sensorSerialNumber"), &a.sensor_serial, &b.sensor_serial);
    d.os(&format!("{w}.sensorHardwareVersion"), &a.sensor_hw, &b.sensor_hw);
    d.os(&format!("{w}.sensorSoftwareVersion"), &a.sensor_sw, &b.sensor_sw);
    d.os(&format!("{w}.sensorFirmwareVersion"), &a.sensor_fw, &b.sensor_fw);
    d.of(&format!("{w}.temperature"), a.temperature, b.temperature);
    d.of(&format!("{w}.relativeHumidity"), a.humidity, b.humidity);
    d.of(&format!("{w}.atmosphericPressure"), a.pressure, b.pressure);
    d.pose(&format!("{w}.pose"), &a.pose, &b.pose);
    d.dt(&format!("{w}.acquisitionStart"), &a.acq_start, &b.acq_start);
    d.dt(&format!("{w}.acquisitionEnd"), &a.acq_end, &b.acq_end);
    if with_bounds {
        let fb = |d: &mut Diff, n: &str, x: &Option<[Option<f64>; 6]>, y: &Option<[Option<f64>; 6]>| {
            let ok = match (x, y) {
                (None, None) => true,
                (Some(x), Some(y)) => x.iter().zip(y.iter()).all(|(p, q)| ofeq(*p, *q)),
                _ => false,
            };
            if !ok {
                d.add(format!("{w}.{n}: expected {x:?}, got {y:?}"));
            }
        };
        fb(d, "cartesianBounds", &a.cartesian_bounds, &b.cartesian_bounds);
        fb(d, "sphericalBounds", &a.spherical_bounds, &b.spherical_bounds);
        if a.index_bounds != b.index_bounds {
            d.add(format!("{w}.indexBounds: expected {:?}, got {:?}", a.index_bounds, b.index_bounds));
        }
        let cl = match (&a.color_limits, &b.color_limits) {
            (None, None) => true,
            (Some(x), Some(y)) => x.iter().zip(y.iter()).all(|(p, q)| lim_eq(p, q)),
            _ => false,
        };
        if !cl {
            d.add(format!("{w}.colorLimits: expected {:?}, got {:?}", a.color_limits, b.color_limits));
        }
        let il = match (&a.intensity_limits, &b.intensity_limits) {
            (None, None) => true,
            (Some(x), Some(y)) => x.iter().zip(y.iter()).all(|(p, q)| lim_eq(p, q)),
            _ => false,
        };
        if !il {
            d.add(format!("{w}.intensityLimits: expected {:?}, got {:?}", a.intensity_limits, b.intensity_limits));
        }
    }
}

fn diff_rep(d: &mut Diff, w: &str, a: &Option<Rep>, b: &Option<Rep>, with_offsets: bool) {
    match (a, b) {
        (None, None) => {}
        (Some(a), Some(b)) => {
            if a.format != b.format {
                d.add(format!("{w}.format: expected {:?}, got {:?}", a.format, b.format));
            }
            if a.width != b.width || a.height != b.height {
                d.add(format!("{w}.size: expected {}x{}, got {}x{}", a.width, a.height, b.width, b.height));
            }
            if a.blob.data != b.blob.data {
                d.add(format!("{w}.blob: payload differs (expected {} bytes, got {} bytes)", a.blob.data.len(), b.blob.data.len()));
            }
            if a.blob.length != b.blob.length || (with_offsets && a.blob.offset != b.blob.offset) {
                d.add(format!("{w}.blob: descriptor expected {}@{}, got {}@{}", a.blob.length, a.blob.offset, b.blob.length, b.blob.offset));
            }
            match (&a.mask, &b.mask) {
                (None, None) => {}
                (Some(x), Some(y)) => {
                    if x.data != y.data || x.length != y.length || (with_offsets && x.offset != y.offset) {
                        d.add(format!("{w}.mask: differs (expected {}@{}, got {}@{})", x.length, x.offset, y.length, y.offset));
                    }
                }
                _ => d.add(format!("{w}.mask: presence expected {}, got {}", a.mask.is_some(), b.mask.is_some())),
            }
            let pk = |p: &Option<ProjKind>| -> (u8, Vec<f64>) {
                match p {
                    None => (0, vec![]),
                    Some(ProjKind::Pinhole { focal, pw, ph, ppx, ppy }) => (1, vec![*focal, *pw, *ph, *ppx, *ppy]),
                    Some(ProjKind::Spherical { pw, ph }) => (2, vec![*pw, *ph]),
                    Some(ProjKind::Cylindrical { radius, ppy, pw, ph }) => (3, vec![*radius, *ppy, *pw, *ph]),
                }
            };
            let (ka, va) = pk(&a.proj);
            let (kb, vb) = pk(&b.proj);
            if ka != kb || va.len() != vb.len() || !va.iter().zip(vb.iter()).all(|(x, y)| feq(*x, *y)) {
                d.add(format!("{w}.projection: expected {:?}, got {:?}", a.proj, b.proj));
            }
        }
        _ => d.add(format!("{w}: presence expected {}, got {}", a.is_some(), b.is_some())),
    }
}

pub fn diff_image(d: &mut Diff, w: &str, a: &Image, b: &Image, with_offsets: bool) {
    d.os(&format!("{w}.guid"), &a.guid, &b.guid);
    d.os(&format!("{w}.name"), &a.name, &b.name);
    d.os(&format!("{w}.description"), &a.description, &b.description);
    d.os(&format!("{w}.associatedData3DGuid"), &a.pc_guid, &b.pc_guid);
    d.os(&format!("{w}.sensorVendor"), &a.sensor_vendor, &b.sensor_vendor);
    d.os(&format!("{w}.sensorModel"), &a.sensor_model, &b.sensor_model);
    d.os(&format!("{w}.sensorSerialNumber"), &a.sensor_serial, &b.sensor_serial);
    d.pose(&format!("{w}.pose"), &a.pose, &b.pose);
    d.dt(&format!("{w}.acquisitionDateTime"), &a.acquisition, &b.acquisition);
    diff_rep(d, &format!("{w}.visualReference"), &a.visual, &b.visual, with_offsets);
    diff_rep(d, &format!("{w}.projection"), &a.projection, &b.projection, with_offsets);
}

/// Compare two scenes. `with_bounds`: also compare bounds/limits; `with_offsets`: also compare file offsets.
pub fn diff_scene(a: &Scene, b: &Scene, with_bounds: bool, with_offsets: bool) -> Vec<String> {
    let mut d = Diff::new();
    if a.guid != b.guid {
        d.add(format!("root.guid: expected {:?}, got {:?}", a.guid, b.guid));
    }
    if a.format_name != b.format_name {
        d.add(format!("root.formatName: expected {:?}, got {:?}", a.format_name, b.format_name));
    }
    if a.version != b.version {
        d.add(format!("root.version: expected {:?}, got {:?}", a.version, b.version));
    }
    d.os("root.e57LibraryVersion", &a.library_version, &b.library_version);
    d.os("root.coordinateMetadata", &a.coordinate_metadata, &b.coordinate_metadata);
    d.dt("root.creationDateTime", &a.creation, &b.creation);
    if a.extensions != b.extensions {
        d.add(format!("root.extensions: expected {:?}, got {:?}", a.extensions, b.extensions));
    }
    if a.clouds.len() != b.clouds.len() {
        d.add(format!("data3D: expected {} clouds, got {}", a.clouds.len(), b.clouds.len()));
    }
    for (i, (x, y)) in a.clouds.iter().zip(b.clouds.iter()).enumerate() {
        let w = format!("data3D[{i}]");
        diff_cloud_meta(&mut d, &w, &x.meta, &y.meta, with_bounds);
        diff_proto(&mut d, &w, &x.proto, &y.proto);
        if x.records != y.records {
            d.add(format!("{w}.recordCount: expected {}, got {}", x.records, y.records));
        }
        if with_offsets && x.file_offset != y.file_offset {
            d.add(format!("{w}.fileOffset: expected {}, got {}", x.file_offset, y.file_offset));
        }
        diff_points(&mut d, &w, &x.points, &y.points);
    }
    if a.images.len() != b.images.len() {
        d.add(format!("images2D: expected {} images, got {}", a.images.len(), b.images.len()));
    }
    for (i, (x, y)) in a.images.iter().zip(b.images.iter()).enumerate() {
        diff_image(&mut d, &format!("images2D[{i}]"), x, y, with_offsets);
    }
    d.out
}
