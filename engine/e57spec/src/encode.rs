//! Independent encoder: scene -> E57 file, with every layout decision taken through a chooser.
//! Choice 0 is always the canonical layout (one data packet per cloud, sections back to back,
//! explicit attributes, plain XML).  Only layouts that are legal E57 are offered.

use crate::bits::BitWriter;
use crate::model::*;
use crate::page;
use crate::xml::{cdata, esc_attr, esc_text};

pub trait Choose {
    /// deviation-counted choice; 0 = canonical
    fn choose(&mut self, label: &str, arity: usize) -> usize;
}

/// always canonical
pub struct Canonical;
impl Choose for Canonical {
    fn choose(&mut self, _l: &str, _a: usize) -> usize {
        0
    }
}

/// Which families of layout choices are offered (so that a space can bound its branching).
#[derive(Clone, Copy, Debug)]
pub struct Knobs {
    pub packets: bool,
    pub cuts: bool,
    pub non_data_packets: bool,
    pub gaps: bool,
    pub order: bool,
    pub proto_attrs: bool,
    pub xml_lexical: bool,
    /// maximum number of additional data packets per cloud that can be chosen
    pub max_packets: usize,
    /// number of data packets of the canonical layout (1 = one packet per cloud)
    pub base_packets: usize,
    /// offer every gap 4..1020 (256 choices) instead of the short menu {0, 4, 1000, 1016}
    pub full_gaps: bool,
    /// for single-record clouds: the first data packet carries exactly this many stream bytes (0 = off)
    pub first_packet_bytes: usize,
    /// XML section directly behind the file header, binary sections behind it (the last section
    /// then ends the file): 0 = never, 1 = offered as a choice, 2 = always
    pub xml_first: u8,
    /// among the non-data packets also offer an ignored packet of the maximum length (65536 bytes)
    pub max_ignored: bool,
}
impl Knobs {
    pub const NONE: Knobs = Knobs { packets: false, cuts: false, non_data_packets: false, gaps: false, order: false, proto_attrs: false, xml_lexical: false, max_packets: 1, base_packets: 1, full_gaps: false, first_packet_bytes: 0, xml_first: 0, max_ignored: false };
    pub const ALL: Knobs = Knobs { packets: true, cuts: true, non_data_packets: true, gaps: true, order: true, proto_attrs: true, xml_lexical: true, max_packets: 3, base_packets: 1, full_gaps: true, first_packet_bytes: 0, xml_first: 1, max_ignored: true };
}

#[derive(Clone, Debug, Default)]
pub struct Encoded {
    pub bytes: Vec<u8>,
    pub xml: String,
    /// physical offsets of the cloud sections, in scene order
    pub cloud_offsets: Vec<u64>,
    /// human readable list of the non-canonical decisions taken
    pub notes: Vec<String>,
    /// the scene with all offsets and descriptor lengths filled in
    pub scene: Scene,
}

pub fn record_stream(rec: &Rec, col: &[Val]) -> Vec<u8> {
    match &rec.ty {
        Ty::F32 { .. } => col
            .iter()
            .flat_map(|v| match v {
                Val::F32(x) => x.to_le_bytes().to_vec(),
                _ => vec![0; 4],
            })
            .collect(),
        Ty::F64 { .. } => col
            .iter()
            .flat_map(|v| match v {
                Val::F64(x) => x.to_le_bytes().to_vec(),
                _ => vec![0; 8],
            })
            .collect(),
        Ty::Int { min, .. } | Ty::Scaled { min, .. } => {
            let w = rec.ty.bits();
            let mut bw = BitWriter::new();
            for v in col {
                let x = match v {
                    Val::Int(x) | Val::Scaled(x) => *x,
                    _ => *min,
                };
                // stored as value - min in w bits (values outside the range are truncated: the
                // caller decides whether it wants to express such files)
                bw.put(((x as i128) - (*min as i128)) as u128, w);
            }
            bw.bytes
        }
    }
}

fn le16(v: usize) -> [u8; 2] {
    (v as u16).to_le_bytes()
}

struct Enc<'a> {
    ch: &'a mut dyn Choose,
    k: Knobs,
    log: Vec<u8>,
    notes: Vec<String>,
    /// the section written last is a compressed vector without any packet
    tail_without_packets: bool,
    /// number of byte streams of the cloud being written
    cur_streams: usize,
}

impl Enc<'_> {
    fn pad4(&mut self) {
        while self.log.len() % 4 != 0 {
            self.log.push(0);
        }
    }
    fn phys(&self) -> u64 {
        page::log_to_phys(self.log.len() as u64)
    }
    fn gap(&mut self, what: &str) {
        if !self.k.gaps {
            return;
        }
        let g = if self.k.full_gaps {
            self.ch.choose(&format!("gap-before-{what}"), 256)
        } else {
            [0, 1, 250, 254][self.ch.choose(&format!("gap-before-{what}"), 4)]
        };
        if g > 0 {
            self.notes.push(format!("gap of {} bytes before {what}", 4 * g));
            for i in 0..4 * g {
                self.log.push(0xA0 | (i as u8 & 0x0F));
            }
        }
    }
    fn blob(&mut self, b: &mut BlobRef, what: &str) {
        self.tail_without_packets = false;
        self.gap(what);
        b.offset = self.phys();
        b.length = b.data.len() as u64;
        let sec_len = (16 + b.data.len() as u64 + 3) / 4 * 4;
        self.log.push(0);
        self.log.extend_from_slice(&[0u8; 7]);
        self.log.extend_from_slice(&sec_len.to_le_bytes());
        self.log.extend_from_slice(&b.data);
        self.pad4();
    }
    fn non_data_packet(&mut self, pos: &str) -> (bool, usize) {
        // returns (is_index, length) and appends the packet; kind 0 = none
        if !self.k.non_data_packets {
            return (false, 0);
        }
        match self.ch.choose(&format!("extra-packet-{pos}"), if self.k.max_ignored { 10 } else { 9 }) {
            0 => (false, 0),
            8 => {
                // a run of packets that complete no point: index, ignored, empty data, ... (10 packets)
                self.notes.push(format!("run of 10 packets without point data {pos}"));
                let start = self.log.len();
                let n = self.cur_streams;
                for k in 0..10 {
                    match k % 3 {
                        0 => {
                            self.log.extend_from_slice(&[0, 0]);
                            self.log.extend_from_slice(&le16(32 - 1));
                            self.log.extend_from_slice(&le16(1));
                            self.log.push(0);
                            self.log.extend_from_slice(&[0u8; 9]);
                            self.log.extend_from_slice(&0u64.to_le_bytes());
                            self.log.extend_from_slice(&0u64.to_le_bytes());
                        }
                        1 => {
                            let len = [4usize, 12, 8][(k / 3) % 3];
                            self.log.extend_from_slice(&[2, 0]);
                            self.log.extend_from_slice(&le16(len - 1));
                            for _ in 4..len {
                                self.log.push(0xEE);
                            }
                        }
                        _ => {
                            let len = (6 + 2 * n + 3) / 4 * 4;
                            self.log.extend_from_slice(&[1, 0]);
                            self.log.extend_from_slice(&le16(len - 1));
                            self.log.extend_from_slice(&le16(n));
                            for _ in 6..len {
                                self.log.push(0);
                            }
                        }
                    }
                }
                (true, self.log.len() - start)
            }
            7 => {
                // a data packet in which every byte stream is empty (legal: it completes no point)
                let n = self.cur_streams;
                self.notes.push(format!("data packet with {n} empty byte streams {pos}"));
                let len = (6 + 2 * n + 3) / 4 * 4;
                self.log.push(1);
                self.log.push(0);
                self.log.extend_from_slice(&le16(len - 1));
                self.log.extend_from_slice(&le16(n));
                for _ in 6..len {
                    self.log.push(0);
                }
                (false, len)
            }
            k @ (1 | 5) => {
                // index packet: 16-byte header + entries of 16 bytes; k = 5: index level 1, two entries
                let (level, entries) = if k == 1 { (0u8, 1usize) } else { (1u8, 2usize) };
                self.notes.push(format!("index packet (level {level}, {entries} entries) {pos}"));
                let len = 16 + 16 * entries;
                self.log.push(0);
                self.log.push(0);
                self.log.extend_from_slice(&le16(len - 1));
                self.log.extend_from_slice(&le16(entries)); // entry count
                self.log.push(level); // index level
                self.log.extend_from_slice(&[0u8; 9]);
                for e in 0..entries {
                    self.log.extend_from_slice(&(e as u64).to_le_bytes());
                    self.log.extend_from_slice(&0u64.to_le_bytes());
                }
                (true, len)
            }
            k => {
                // k = 9: the longest packet the 16-bit length field can describe (stored as 0xFFFF)
                let len = [0, 0, 4, 8, 64, 0, 1000, 0, 0, 65536][k];
                self.notes.push(format!("ignored packet of {len} bytes {pos}"));
                self.log.push(2);
                self.log.push(0);
                self.log.extend_from_slice(&le16(len - 1));
                for _ in 4..len {
                    self.log.push(0xEE);
                }
                (false, len)
            }
        }
    }
    fn cloud(&mut self, c: &mut Cloud, ci: usize) {
        self.gap(&format!("cloud{ci}"));
        let n = c.points.len();
        let mut streams: Vec<Vec<u8>> = c
            .proto
            .iter()
            .enumerate()
            .map(|(k, r)| {
                let col: Vec<Val> = c.points.iter().map(|p| p[k]).collect();
                record_stream(r, &col)
            })
            .collect();
        // the unused bits of the last byte of a bit-packed stream carry no data: a producer may
        // leave anything there
        if self.k.packets && n > 0 && self.ch.choose(&format!("cloud{ci}-padding-bits-set"), 2) == 1 {
            let mut any = false;
            for (r, st) in c.proto.iter().zip(streams.iter_mut()) {
                if let Ty::Int { .. } | Ty::Scaled { .. } = r.ty {
                    let used = (n * r.ty.bits() as usize) % 8;
                    if used != 0 {
                        if let Some(last) = st.last_mut() {
                            *last |= 0xFFu8 << used;
                            any = true;
                        }
                    }
                }
            }
            if any {
                self.notes.push(format!("cloud {ci}: unused bits of the last stream bytes set to 1"));
            }
        }
        let total: usize = streams.iter().map(|s| s.len()).sum();
        self.tail_without_packets = total == 0;
        self.cur_streams = streams.len();
        let sec_start_log = self.log.len();
        c.file_offset = self.phys();
        // header placeholder
        self.log.extend_from_slice(&[0u8; 32]);
        let mut first_index: Option<u64> = None;
        let mut data_offset_candidates: Vec<u64> = vec![self.phys()];
        // number of data packets
        // canonical packet count: the configured base, or as many as needed to keep every packet
        // well below the 64 KiB packet limit
        let needed = (total + 6 + 2 * c.proto.len()) / 48_000 + 1;
        let forced_first = if self.k.first_packet_bytes > 0 && c.proto.len() == 1 && total > self.k.first_packet_bytes { self.k.first_packet_bytes } else { 0 };
        let mut npk = if total == 0 {
            0
        } else if forced_first > 0 {
            1 + (total - forced_first + 47_999) / 48_000
        } else {
            self.k.base_packets.max(1).max(needed)
        };
        if self.k.packets && total > 0 {
            let extra = self.ch.choose(&format!("cloud{ci}-extra-packets"), self.k.max_packets);
            if extra > 0 {
                self.notes.push(format!("cloud {ci} spread over {} data packets", extra + 1));
            }
            npk += extra;
        }
        // cut positions per record: cuts[r][j] = end offset of packet j's share
        let mut cuts: Vec<Vec<usize>> = Vec::new();
        for (r, s) in streams.iter().enumerate() {
            let l = s.len();
            let w = c.proto[r].ty.bits() as usize;
            let mut cs = Vec::new();
            let mut prev = 0usize;
            for j in 0..npk {
                let end = if j + 1 == npk {
                    l
                } else {
                    // canonical: whole bytes of the first ceil(n*(j+1)/npk) points
                    let pts = (n * (j + 1) + npk - 1) / npk;
                    let natural = if forced_first > 0 {
                        // first packet of the forced size, the rest split evenly
                        (forced_first + (l - forced_first) * j / (npk - 1)).min(l).max(prev)
                    } else {
                        (pts * w / 8).min(l).max(prev)
                    };
                    if self.k.cuts && l > 0 {
                        // any byte position >= prev is legal; alternative a>0 means position (natural + a) mod (l+1), forced >= prev
                        let a = self.ch.choose(&format!("cloud{ci}-rec{r}-cut{j}"), l + 1);
                        if a == 0 {
                            natural
                        } else {
                            let p = (natural + a) % (l + 1);
                            let p = p.max(prev);
                            self.notes.push(format!("cloud {ci} record {r}: packet {j} ends at stream byte {p} of {l} (natural {natural})"));
                            p
                        }
                    } else {
                        natural
                    }
                };
                cs.push(end);
                prev = end;
            }
            cuts.push(cs);
        }
        // leading non-data packet
        let (is_idx, len) = self.non_data_packet(&format!("cloud{ci}-before-first"));
        if len > 0 {
            if is_idx {
                first_index.get_or_insert(page::log_to_phys((self.log.len() - len) as u64));
            }
            data_offset_candidates.push(self.phys());
        }
        // the one defined bit of the flags byte of a data packet: "compressor restart". Every packet of
        // this format starts afresh (there is no state carried between packets), a producer may say so.
        let restart = if self.k.packets { self.ch.choose(&format!("cloud{ci}-restart-flag"), 3) } else { 0 };
        if restart > 0 {
            self.notes.push(format!("cloud {ci}: compressor restart flag set on {} data packet", if restart == 1 { "every" } else { "every second" }));
        }
        for j in 0..npk {
            let nrec = c.proto.len();
            let mut sizes = Vec::new();
            let mut payload = Vec::new();
            for r in 0..nrec {
                let st = if j == 0 { 0 } else { cuts[r][j - 1] };
                let en = cuts[r][j];
                sizes.push(en - st);
                payload.extend_from_slice(&streams[r][st..en]);
            }
            let raw = 6 + 2 * nrec + payload.len();
            let len = (raw + 3) / 4 * 4;
            assert!(len <= 65536, "packet too large for this encoder");
            self.log.push(1);
            self.log.push(if restart == 1 || (restart == 2 && j % 2 == 0) { 1 } else { 0 });
            self.log.extend_from_slice(&le16(len - 1));
            self.log.extend_from_slice(&le16(nrec));
            for s in &sizes {
                self.log.extend_from_slice(&le16(*s));
            }
            self.log.extend_from_slice(&payload);
            for _ in raw..len {
                self.log.push(0);
            }
            let pos = if j + 1 == npk { format!("cloud{ci}-after-last") } else { format!("cloud{ci}-after-packet{j}") };
            let before = self.log.len();
            let (is_idx, l2) = self.non_data_packet(&pos);
            if l2 > 0 && is_idx {
                first_index.get_or_insert(page::log_to_phys(before as u64));
            }
        }
        let sec_len = (self.log.len() - sec_start_log) as u64;
        let mut data_off = data_offset_candidates[0];
        if data_offset_candidates.len() > 1 && self.ch.choose(&format!("cloud{ci}-data-offset-skips-leading"), 2) == 1 {
            data_off = data_offset_candidates[1];
            self.notes.push(format!("cloud {ci}: data offset points past the leading non-data packet"));
        }
        let mut index_off = 0u64;
        if let Some(fi) = first_index {
            if self.ch.choose(&format!("cloud{ci}-index-offset-set"), 2) == 1 {
                index_off = fi;
                self.notes.push(format!("cloud {ci}: index offset set"));
            }
        }
        let h = &mut self.log[sec_start_log..sec_start_log + 32];
        h[0] = 1;
        h[8..16].copy_from_slice(&sec_len.to_le_bytes());
        h[16..24].copy_from_slice(&data_off.to_le_bytes());
        h[24..32].copy_from_slice(&index_off.to_le_bytes());
    }
}

// ------------------------------------------------------------------------------------------
// XML

struct X<'a> {
    ch: &'a mut dyn Choose,
    lex: bool,
    proto_attrs: bool,
    out: String,
    pfx: String,
    notes: Vec<String>,
    quote: char,
    ws: &'static str,
    str_mode: usize,
    float_mode: usize,
    empty_zero: bool,
    rev_attrs: bool,
    /// the optional isAtomicClockReferenced element is left out when it would be 0
    omit_clock_flag: bool,
    /// white space around the text of Float / Integer elements (legal: xsd numbers collapse it)
    num_pad: &'static str,
}

impl X<'_> {
    fn open(&mut self, name: &str, attrs: &[(&str, String)]) {
        self.start(name, attrs, false);
    }
    fn start(&mut self, name: &str, attrs: &[(&str, String)], empty: bool) {
        self.out.push('<');
        self.out.push_str(&self.pfx);
        self.out.push_str(name);
        let mut a: Vec<&(&str, String)> = attrs.iter().filter(|(k, _)| !k.starts_with("xmlns")).collect();
        if self.rev_attrs {
            a.reverse();
        }
        // namespace declarations keep their order (it defines the order of the extension list)
        a.extend(attrs.iter().filter(|(k, _)| k.starts_with("xmlns")));
        for (k, v) in a {
            self.out.push(' ');
            self.out.push_str(k);
            self.out.push('=');
            self.out.push(self.quote);
            let mut e = esc_attr(v);
            if self.quote == '\'' {
                e = e.replace('\'', "&apos;").replace("&quot;", "\"");
            }
            self.out.push_str(&e);
            self.out.push(self.quote);
        }
        if empty {
            self.out.push_str("/>");
        } else {
            self.out.push('>');
        }
    }
    fn close(&mut self, name: &str) {
        self.out.push_str("</");
        self.out.push_str(&self.pfx);
        self.out.push_str(name);
        self.out.push('>');
        self.sep();
    }
    fn sep(&mut self) {
        self.out.push_str(self.ws);
    }
    fn string(&mut self, name: &str, v: &str) {
        self.open(name, &[("type", "String".into())]);
        match self.str_mode {
            0 => self.out.push_str(&cdata(v)),
            1 => self.out.push_str(&esc_text(v)),
            2 => {
                // character references for everything outside [A-Za-z0-9]
                for c in v.chars() {
                    if c.is_ascii_alphanumeric() {
                        self.out.push(c);
                    } else {
                        self.out.push_str(&format!("&#x{:X};", c as u32));
                    }
                }
            }
            _ => {
                // mixture: first half escaped text, second half CDATA
                let cs: Vec<char> = v.chars().collect();
                let (a, b) = cs.split_at(cs.len() / 2);
                self.out.push_str(&esc_text(&a.iter().collect::<String>()));
                self.out.push_str(&cdata(&b.iter().collect::<String>()));
            }
        }
        self.close(name);
    }
    fn fmt_f(&self, v: f64) -> String {
        match self.float_mode {
            1 if v.is_finite() => format!("{v:e}"),
            2 if v.is_finite() => format!("{v:E}"),
            _ => format!("{v}"),
        }
    }
    fn float(&mut self, name: &str, v: f64) {
        if self.empty_zero && v == 0.0 && v.is_sign_positive() {
            self.start(name, &[("type", "Float".into())], true);
            self.sep();
            return;
        }
        self.open(name, &[("type", "Float".into())]);
        let s = self.fmt_f(v);
        self.out.push_str(self.num_pad);
        self.out.push_str(&s);
        self.out.push_str(self.num_pad);
        self.close(name);
    }
    fn int(&mut self, name: &str, v: i64) {
        if self.empty_zero && v == 0 {
            self.start(name, &[("type", "Integer".into())], true);
            self.sep();
            return;
        }
        self.open(name, &[("type", "Integer".into())]);
        self.out.push_str(self.num_pad);
        self.out.push_str(&v.to_string());
        self.out.push_str(self.num_pad);
        self.close(name);
    }
    fn structure(&mut self, name: &str) {
        self.open(name, &[("type", "Structure".into())]);
        self.sep();
    }
    fn dt(&mut self, name: &str, d: &DateTime) {
        self.structure(name);
        self.float("dateTimeValue", d.gps);
        if d.atomic || !self.omit_clock_flag {
            self.int("isAtomicClockReferenced", d.atomic as i64);
        }
        self.close(name);
    }
    fn pose(&mut self, p: &Pose) {
        self.structure("pose");
        self.structure("rotation");
        for (k, v) in ["w", "x", "y", "z"].iter().zip(p.rot.iter()) {
            self.float(k, *v);
        }
        self.close("rotation");
        self.structure("translation");
        for (k, v) in ["x", "y", "z"].iter().zip(p.trans.iter()) {
            self.float(k, *v);
        }
        self.close("translation");
        self.close("pose");
    }
    fn lval(&mut self, name: &str, v: &LVal) {
        match v {
            LVal::Int(x) => {
                self.open(name, &[("type", "Integer".into())]);
                self.out.push_str(&x.to_string());
            }
            LVal::Scaled(x) => {
                self.open(name, &[("type", "ScaledInteger".into())]);
                self.out.push_str(&x.to_string());
            }
            LVal::F32(x) => {
                self.open(name, &[("type", "Float".into()), ("precision", "single".into())]);
                self.out.push_str(&format!("{x}"));
            }
            LVal::F64(x) => {
                self.open(name, &[("type", "Float".into())]);
                self.out.push_str(&format!("{x}"));
            }
        }
        self.close(name);
    }
    fn blobref(&mut self, name: &str, b: &BlobRef) {
        self.start(name, &[("type", "Blob".into()), ("fileOffset", b.offset.to_string()), ("length", b.length.to_string())], true);
        self.sep();
    }
    fn rep(&mut self, name: &str, r: &Rep) {
        self.structure(name);
        self.blobref(if r.format == ImgFormat::Jpeg { "jpegImage" } else { "pngImage" }, &r.blob);
        if let Some(m) = &r.mask {
            self.blobref("imageMask", m);
        }
        self.int("imageWidth", r.width);
        self.int("imageHeight", r.height);
        match &r.proj {
            None => {}
            Some(ProjKind::Pinhole { focal, pw, ph, ppx, ppy }) => {
                self.float("focalLength", *focal);
                self.float("pixelWidth", *pw);
                self.float("pixelHeight", *ph);
                self.float("principalPointX", *ppx);
                self.float("principalPointY", *ppy);
            }
            Some(ProjKind::Spherical { pw, ph }) => {
                self.float("pixelWidth", *pw);
                self.float("pixelHeight", *ph);
            }
            Some(ProjKind::Cylindrical { radius, ppy, pw, ph }) => {
                self.float("radius", *radius);
                self.float("principalPointY", *ppy);
                self.float("pixelWidth", *pw);
                self.float("pixelHeight", *ph);
            }
        }
        self.close(name);
    }
    fn record(&mut self, r: &Rec, ci: usize, ri: usize) {
        let mut attrs: Vec<(&str, String)> = Vec::new();
        let omit = |x: &mut Self, what: &str| -> bool {
            if !x.proto_attrs {
                return false;
            }
            let o = x.ch.choose(&format!("cloud{ci}-rec{ri}-omit-{what}"), 2) == 1;
            if o {
                x.notes.push(format!("cloud {ci} record {ri}: default {what} omitted"));
            }
            o
        };
        match &r.ty {
            Ty::F32 { min, max } => {
                attrs.push(("type", "Float".into()));
                attrs.push(("precision", "single".into()));
                // a long decimal just inside the rounding interval of the value: it still denotes
                // this f32, but parsing it as f64 first and narrowing afterwards rounds twice
                let long = self.proto_attrs && (min.is_some() || max.is_some()) && self.ch.choose(&format!("cloud{ci}-rec{ri}-long-decimal-limits"), 2) == 1;
                if long {
                    self.notes.push(format!("cloud {ci} record {ri}: single precision limits spelt as long decimals beside the rounding midpoint"));
                }
                let spell = |m: f32| if long { near_midpoint_decimal(m) } else { format!("{m}") };
                if let Some(m) = min {
                    attrs.push(("minimum", spell(*m)));
                }
                if let Some(m) = max {
                    attrs.push(("maximum", spell(*m)));
                }
            }
            Ty::F64 { min, max } => {
                attrs.push(("type", "Float".into()));
                if !omit(self, "precision") {
                    attrs.push(("precision", "double".into()));
                }
                if let Some(m) = min {
                    attrs.push(("minimum", format!("{m}")));
                }
                if let Some(m) = max {
                    attrs.push(("maximum", format!("{m}")));
                }
            }
            Ty::Int { min, max } => {
                attrs.push(("type", "Integer".into()));
                if !(*min == i64::MIN && omit(self, "minimum")) {
                    attrs.push(("minimum", min.to_string()));
                }
                if !(*max == i64::MAX && omit(self, "maximum")) {
                    attrs.push(("maximum", max.to_string()));
                }
            }
            Ty::Scaled { min, max, scale, offset } => {
                attrs.push(("type", "ScaledInteger".into()));
                if !(*min == i64::MIN && omit(self, "minimum")) {
                    attrs.push(("minimum", min.to_string()));
                }
                if !(*max == i64::MAX && omit(self, "maximum")) {
                    attrs.push(("maximum", max.to_string()));
                }
                if !(*scale == 1.0 && omit(self, "scale")) {
                    attrs.push(("scale", format!("{scale}")));
                }
                if !(*offset == 0.0 && offset.is_sign_positive() && omit(self, "offset")) {
                    attrs.push(("offset", format!("{offset}")));
                }
            }
        }
        // an unused namespace declaration on the record element itself whose name contains the
        // characters that end a tag name elsewhere (legal inside a quoted attribute value)
        if self.proto_attrs && self.ch.choose(&format!("cloud{ci}-rec{ri}-unused-namespace-declaration"), 2) == 1 {
            attrs.push(("xmlns:unused", "urn:a:b/c>d e".into()));
            self.notes.push(format!("cloud {ci} record {ri}: unused namespace declaration with ':', '/', '>' and a space in its name"));
        }
        let name = r.name.clone();
        let saved = self.pfx.clone();
        if let Some(ns) = &r.ns {
            self.pfx = if ns.is_empty() { String::new() } else { format!("{ns}:") };
        }
        let empty = self.lex && self.empty_zero;
        if empty {
            self.start(&name, &attrs, true);
            self.sep();
        } else {
            self.open(&name, &attrs);
            self.close(&name);
        }
        self.pfx = saved;
    }
}

/// A decimal string that lies a hair inside the rounding interval of `v` (towards the neighbour of
/// smaller magnitude): the exact midpoint of `v` and that neighbour, which is exactly representable
/// as f64, with one more non-zero digit appended. Correctly rounded to f32 it is `v`.
pub fn near_midpoint_decimal(v: f32) -> String {
    if !v.is_finite() || v == 0.0 || v.abs() <= f32::MIN_POSITIVE {
        return format!("{v}");
    }
    let a = v.abs();
    let below = f32::from_bits(a.to_bits() - 1);
    let mid = (a as f64 + below as f64) / 2.0; // exact in f64
    let mut digits = format!("{mid:.200}");
    while digits.ends_with('0') {
        digits.pop();
    }
    if !digits.contains('.') {
        digits.push('.');
    }
    digits.push_str("0000001");
    if v < 0.0 {
        format!("-{digits}")
    } else {
        digits
    }
}

fn scene_xml(s: &Scene, ch: &mut dyn Choose, k: Knobs, notes: &mut Vec<String>) -> String {
    let lex = k.xml_lexical;
    let mut c = |l: &str, a: usize| if lex { ch.choose(l, a) } else { 0 };
    let decl = c("xml-declaration", 3);
    let prefixed = c("xml-e57-prefix", 2) == 1;
    let quote = if c("xml-quote", 2) == 1 { '\'' } else { '"' };
    let ws = ["\n", "", "\n  \t", "\n<!-- comment -->\n", "<?pi data?>"][c("xml-whitespace", 5)];
    let str_mode = c("xml-string-form", 4);
    let float_mode = c("xml-float-form", 3);
    let empty_zero = c("xml-empty-zero", 2) == 1;
    let rev_attrs = c("xml-attr-order", 2) == 1;
    let omit_empty = c("xml-omit-empty-containers", 2) == 1;
    let codecs = c("xml-codecs-element", 2) == 1;
    let omit_clock_flag = c("xml-omit-clock-flag", 2) == 1;
    let reversed_children = c("xml-structure-children-reversed", 2) == 1;
    // white space around numeric text is left out of the menu: whether E57 readers have to accept it
    // is not settled by anything this model is bound to (the validator refuses it, too)
    let num_pad = "";
    if omit_clock_flag {
        notes.push("optional isAtomicClockReferenced omitted when 0".into());
    }
    if !num_pad.is_empty() {
        notes.push(format!("white space {num_pad:?} around numeric element text"));
    }
    for (name, on) in [
        ("E57 namespace bound to prefix e57:", prefixed),
        ("single-quoted attributes", quote == '\''),
        ("empty elements for zero values", empty_zero),
        ("reversed attribute order", rev_attrs),
        ("empty containers omitted", omit_empty),
        ("codecs element present", codecs),
    ] {
        if on {
            notes.push(name.into());
        }
    }
    if decl > 0 {
        notes.push(format!("xml declaration variant {decl}"));
    }
    if !ws.is_empty() && ws != "\n" {
        notes.push(format!("inter-element filler {ws:?}"));
    }
    if str_mode > 0 {
        notes.push(format!("string form {str_mode}"));
    }
    if float_mode > 0 {
        notes.push(format!("float form {float_mode}"));
    }
    let mut x = X {
        ch,
        lex,
        proto_attrs: k.proto_attrs,
        out: String::new(),
        pfx: if prefixed { "e57:".into() } else { String::new() },
        notes: Vec::new(),
        quote,
        ws,
        str_mode,
        float_mode,
        empty_zero,
        rev_attrs,
        omit_clock_flag,
        num_pad,
    };
    match decl {
        0 => x.out.push_str("<?xml version=\"1.0\" encoding=\"UTF-8\"?>\n"),
        1 => {}
        _ => x.out.push_str("<?xml version='1.0'?>\n<!-- produced by e57spec -->\n"),
    }
    let mut root_attrs: Vec<(&str, String)> = vec![("type", "Structure".into())];
    let exts: Vec<(String, String)> = s.extensions.iter().map(|(p, u)| (format!("xmlns:{p}"), u.clone())).collect();
    for (p, u) in &exts {
        root_attrs.push((p.as_str(), u.clone()));
    }
    root_attrs.push((if prefixed { "xmlns:e57" } else { "xmlns" }, E57_NS.into()));
    x.open("e57Root", &root_attrs);
    x.sep();
    x.string("formatName", &s.format_name);
    x.string("guid", &s.guid);
    x.int("versionMajor", s.version.0);
    x.int("versionMinor", s.version.1);
    if let Some(v) = &s.coordinate_metadata {
        x.string("coordinateMetadata", v);
    }
    if let Some(v) = &s.library_version {
        x.string("e57LibraryVersion", v);
    }
    if let Some(d) = &s.creation {
        x.dt("creationDateTime", d);
    }
    if !(s.clouds.is_empty() && omit_empty) {
        x.open("data3D", &[("type", "Vector".into()), ("allowHeterogeneousChildren", "1".into())]);
        x.sep();
        for (ci, c) in s.clouds.iter().enumerate() {
            x.structure("vectorChild");
            let m = &c.meta;
            if let Some(v) = &m.guid {
                x.string("guid", v);
            }
            if let Some(v) = &m.name {
                x.string("name", v);
            }
            if let Some(g) = &m.original_guids {
                x.open("originalGuids", &[("type", "Vector".into()), ("allowHeterogeneousChildren", "0".into())]);
                x.sep();
                for v in g {
                    x.string("vectorChild", v);
                }
                x.close("originalGuids");
            }
            if let Some(v) = &m.description {
                x.string("description", v);
            }
            if let Some(b) = &m.cartesian_bounds {
                x.structure("cartesianBounds");
                for (n, v) in ["xMinimum", "xMaximum", "yMinimum", "yMaximum", "zMinimum", "zMaximum"].iter().zip(b.iter()) {
                    if let Some(v) = v {
                        x.float(n, *v);
                    }
                }
                x.close("cartesianBounds");
            }
            if let Some(b) = &m.spherical_bounds {
                x.structure("sphericalBounds");
                for (n, v) in ["rangeMinimum", "rangeMaximum", "elevationMinimum", "elevationMaximum", "azimuthStart", "azimuthEnd"].iter().zip(b.iter()) {
                    if let Some(v) = v {
                        x.float(n, *v);
                    }
                }
                x.close("sphericalBounds");
            }
            if let Some(b) = &m.index_bounds {
                x.structure("indexBounds");
                for (n, v) in ["rowMinimum", "rowMaximum", "columnMinimum", "columnMaximum", "returnMinimum", "returnMaximum"].iter().zip(b.iter()) {
                    if let Some(v) = v {
                        x.int(n, *v);
                    }
                }
                x.close("indexBounds");
            }
            if let Some(l) = &m.intensity_limits {
                x.structure("intensityLimits");
                for (n, v) in ["intensityMinimum", "intensityMaximum"].iter().zip(l.iter()) {
                    if let Some(v) = v {
                        x.lval(n, v);
                    }
                }
                x.close("intensityLimits");
            }
            if let Some(l) = &m.color_limits {
                x.structure("colorLimits");
                for (n, v) in ["colorRedMinimum", "colorRedMaximum", "colorGreenMinimum", "colorGreenMaximum", "colorBlueMinimum", "colorBlueMaximum"].iter().zip(l.iter()) {
                    if let Some(v) = v {
                        x.lval(n, v);
                    }
                }
                x.close("colorLimits");
            }
            for (n, v) in [
                ("sensorVendor", &m.sensor_vendor),
                ("sensorModel", &m.sensor_model),
                ("sensorSerialNumber", &m.sensor_serial),
                ("sensorHardwareVersion", &m.sensor_hw),
                ("sensorSoftwareVersion", &m.sensor_sw),
                ("sensorFirmwareVersion", &m.sensor_fw),
            ] {
                if let Some(v) = v {
                    x.string(n, v);
                }
            }
            if let Some(v) = m.temperature {
                x.float("temperature", v);
            }
            if let Some(v) = m.humidity {
                x.float("relativeHumidity", v);
            }
            if let Some(v) = m.pressure {
                x.float("atmosphericPressure", v);
            }
            if let Some(d) = &m.acq_start {
                x.dt("acquisitionStart", d);
            }
            if let Some(d) = &m.acq_end {
                x.dt("acquisitionEnd", d);
            }
            if let Some(p) = &m.pose {
                x.pose(p);
            }
            x.open("points", &[("type", "CompressedVector".into()), ("fileOffset", c.file_offset.to_string()), ("recordCount", c.records.to_string())]);
            x.sep();
            x.structure("prototype");
            for (ri, r) in c.proto.iter().enumerate() {
                x.record(r, ci, ri);
            }
            x.close("prototype");
            if codecs {
                x.start("codecs", &[("type", "Vector".into()), ("allowHeterogeneousChildren", "1".into())], true);
                x.sep();
            }
            x.close("points");
            x.close("vectorChild");
        }
        x.close("data3D");
    }
    if !(s.images.is_empty() && omit_empty) {
        x.open("images2D", &[("type", "Vector".into()), ("allowHeterogeneousChildren", "1".into())]);
        x.sep();
        for img in &s.images {
            x.structure("vectorChild");
            if let Some(v) = &img.guid {
                x.string("guid", v);
            }
            if let Some(r) = &img.visual {
                x.rep("visualReferenceRepresentation", r);
            }
            if let Some(r) = &img.projection {
                let n = match r.proj {
                    Some(ProjKind::Pinhole { .. }) => "pinholeRepresentation",
                    Some(ProjKind::Spherical { .. }) => "sphericalRepresentation",
                    _ => "cylindricalRepresentation",
                };
                x.rep(n, r);
            }
            if let Some(p) = &img.pose {
                x.pose(p);
            }
            for (n, v) in [
                ("associatedData3DGuid", &img.pc_guid),
                ("name", &img.name),
                ("description", &img.description),
                ("sensorVendor", &img.sensor_vendor),
                ("sensorModel", &img.sensor_model),
                ("sensorSerialNumber", &img.sensor_serial),
            ] {
                if let Some(v) = v {
                    x.string(n, v);
                }
            }
            if let Some(d) = &img.acquisition {
                x.dt("acquisitionDateTime", d);
            }
            x.close("vectorChild");
        }
        x.close("images2D");
    }
    x.close("e57Root");
    notes.append(&mut x.notes);
    if reversed_children {
        notes.push("children of every Structure (except prototypes, whose order is the record order) written in reverse order".into());
        return reverse_structure_children(&x.out);
    }
    x.out
}

/// The children of an E57 Structure are identified by their names, not by their position: the same
/// document with the child elements of every Structure in reverse order (separators stay where
/// they are). Prototypes keep their order - it is the order of the byte streams - and so do Vectors.
fn reverse_structure_children(xml: &str) -> String {
    fn emit(xml: &str, e: &crate::xml::Elem, out: &mut String) {
        let kids: Vec<&crate::xml::Elem> = e.child_elems().collect();
        if e.self_closing || kids.is_empty() {
            out.push_str(&xml[e.start..e.end]);
            return;
        }
        let reversed = e.attr("type") == Some("Structure") && e.local != "prototype";
        let mut pos = e.open_end + 1;
        out.push_str(&xml[e.start..pos]);
        for (i, k) in kids.iter().enumerate() {
            out.push_str(&xml[pos..k.start]);
            let pick = if reversed { kids[kids.len() - 1 - i] } else { kids[i] };
            emit(xml, pick, out);
            pos = k.end;
        }
        out.push_str(&xml[pos..e.end]);
    }
    match crate::xml::parse(xml) {
        Ok(doc) => {
            let mut out = String::with_capacity(xml.len());
            out.push_str(&xml[..doc.root.start]);
            emit(xml, &doc.root, &mut out);
            out.push_str(&xml[doc.root.end..]);
            out
        }
        Err(_) => xml.to_string(),
    }
}

/// logical bytes reserved for the XML when it is placed in front of the binary sections (30 pages)
pub const XML_RESERVE: usize = 30 * 1020;

/// Encode a scene. Offsets inside the scene (cloud file offsets, blob descriptors) are filled in.
pub fn encode(scene: &Scene, ch: &mut dyn Choose, k: Knobs) -> Encoded {
    let mut s = scene.clone();
    let mut e = Enc { ch, k, log: vec![0u8; 48], notes: Vec::new(), tail_without_packets: false, cur_streams: 0 };
    // XML first: a fixed area behind the header is reserved for the document (the rest of it stays
    // a zero gap); if the document turns out larger, it is appended as usual
    let xml_first = match k.xml_first {
        0 => false,
        1 => e.ch.choose("xml-before-sections", 2) == 1,
        _ => true,
    };
    if xml_first {
        e.log.resize(48 + XML_RESERVE, 0);
    }
    // section order: clouds first then image blobs (canonical) or images first
    let images_first = e.k.order && (!s.images.is_empty() && !s.clouds.is_empty()) && e.ch.choose("images-before-clouds", 2) == 1;
    let clouds_reversed = e.k.order && s.clouds.len() > 1 && e.ch.choose("clouds-reversed", 2) == 1;
    if images_first {
        e.notes.push("image sections before cloud sections".into());
    }
    if clouds_reversed {
        e.notes.push("cloud sections in reverse order".into());
    }
    let do_images = |e: &mut Enc, s: &mut Scene| {
        for (ii, img) in s.images.iter_mut().enumerate() {
            if let Some(r) = &mut img.visual {
                e.blob(&mut r.blob, &format!("image{ii}-visual"));
                if let Some(m) = &mut r.mask {
                    e.blob(m, &format!("image{ii}-visual-mask"));
                }
            }
            if let Some(r) = &mut img.projection {
                e.blob(&mut r.blob, &format!("image{ii}-projection"));
                if let Some(m) = &mut r.mask {
                    e.blob(m, &format!("image{ii}-projection-mask"));
                }
            }
        }
    };
    if images_first {
        do_images(&mut e, &mut s);
    }
    let order: Vec<usize> = if clouds_reversed { (0..s.clouds.len()).rev().collect() } else { (0..s.clouds.len()).collect() };
    for ci in order {
        let mut c = std::mem::take(&mut s.clouds[ci]);
        c.records = if c.records == 0 { c.points.len() as u64 } else { c.records };
        e.cloud(&mut c, ci);
        s.clouds[ci] = c;
    }
    if !images_first {
        do_images(&mut e, &mut s);
    }
    if !xml_first {
        e.gap("xml");
    } else if e.tail_without_packets && e.log.len() % page::PAYLOAD == 0 {
        // a cloud without packets whose data offset would be the very end of the file: whether an
        // offset equal to the file length is well-formed is debatable, so four padding bytes follow
        e.log.extend_from_slice(&[0u8; 4]);
    }
    let mut notes = std::mem::take(&mut e.notes);
    let Enc { ch, k, mut log, .. } = e;
    let xml = scene_xml(&s, ch, k, &mut notes);
    let xml_off;
    if xml_first && xml.len() <= XML_RESERVE {
        notes.push("XML section directly behind the file header, binary sections behind it".into());
        xml_off = page::log_to_phys(48);
        log[48..48 + xml.len()].copy_from_slice(xml.as_bytes());
    } else {
        xml_off = page::log_to_phys(log.len() as u64);
        log.extend_from_slice(xml.as_bytes());
    }
    let pages = (log.len() + page::PAYLOAD - 1) / page::PAYLOAD;
    let phys_len = (pages * page::PAGE) as u64;
    log[0..8].copy_from_slice(b"ASTM-E57");
    log[8..12].copy_from_slice(&1u32.to_le_bytes());
    log[12..16].copy_from_slice(&0u32.to_le_bytes());
    log[16..24].copy_from_slice(&phys_len.to_le_bytes());
    log[24..32].copy_from_slice(&xml_off.to_le_bytes());
    log[32..40].copy_from_slice(&(xml.len() as u64).to_le_bytes());
    log[40..48].copy_from_slice(&1024u64.to_le_bytes());
    Encoded { bytes: page::seal(&log), xml, cloud_offsets: s.clouds.iter().map(|c| c.file_offset).collect(), notes, scene: s }
}

/// the scene as the encoder completed it (offsets and descriptor lengths filled in)
pub fn complete(_scene: &Scene, enc: &Encoded) -> Scene {
    enc.scene.clone()
}
