#!/usr/bin/env python3
"""Model honesty: cross-check the e57spec XML parser against expat.

Usage: xml_xcheck.py <dir>   (dir holds doc_<n>.xml and doc_<n>.info written by `mc xmldump`)
For every document the infoset computed by expat (expanded names, sorted attributes, concatenated
character data of every element, child order) must equal the dump of the independent parser.
Exit 0 when all agree, 2 otherwise (a disagreement is a machinery error, not a verdict)."""
import glob, os, sys
import xml.parsers.expat as expat

def esc(s):
    return s.replace("\\", "\\\\").replace("\n", "\\n").replace("\t", "\\t").replace("\r", "\\r")

def infoset(data):
    p = expat.ParserCreate(namespace_separator="\x01")
    p.buffer_text = True
    root = None
    stack = []
    def start(name, attrs):
        nonlocal root
        ns, _, local = name.rpartition("\x01")
        a = []
        for k, v in attrs.items():
            ans, _, al = k.rpartition("\x01")
            a.append((ans, al, v))
        node = {"ns": ns, "local": local, "attrs": sorted(a), "text": [], "children": []}
        if stack:
            stack[-1]["children"].append(node)
        else:
            root = node
        stack.append(node)
    def end(name):
        stack.pop()
    def chars(d):
        if stack:
            stack[-1]["text"].append(d)
    p.StartElementHandler = start
    p.EndElementHandler = end
    p.CharacterDataHandler = chars
    p.Parse(data, True)
    out = []
    def dump(n, depth):
        ind = " " * depth
        out.append(f"{ind}E {{{n['ns']}}}{n['local']}\n")
        for ns, l, v in n["attrs"]:
            out.append(f"{ind} A {{{ns}}}{l}={esc(v)}\n")
        out.append(f"{ind} T {esc(''.join(n['text']))}\n")
        for c in n["children"]:
            dump(c, depth + 1)
    dump(root, 0)
    return "".join(out)

def main():
    d = sys.argv[1]
    docs = sorted(glob.glob(os.path.join(d, "doc_*.xml")))
    bad = 0
    for f in docs:
        data = open(f, "rb").read()
        want = open(f[:-4] + ".info", encoding="utf-8").read()
        try:
            got = infoset(data)
        except expat.ExpatError as e:
            if want.startswith("ERROR"):
                continue
            print(f"MACHINERY-ERROR expat rejects {f}: {e} (e57spec accepted it)")
            bad += 1
            continue
        if want.startswith("ERROR"):
            print(f"MACHINERY-ERROR e57spec rejects {f} ({want.strip()}) but expat accepts it")
            bad += 1
        elif got != want:
            gl, wl = got.splitlines(), want.splitlines()
            i = next((k for k in range(min(len(gl), len(wl))) if gl[k] != wl[k]), min(len(gl), len(wl)))
            print(f"MACHINERY-ERROR infoset differs for {f} at line {i}: expat '{gl[i] if i < len(gl) else ''}' vs e57spec '{wl[i] if i < len(wl) else ''}'")
            bad += 1
    print(f"xml_xcheck: {len(docs)} documents, {bad} disagreements")
    return 2 if bad else 0

if __name__ == "__main__":
    sys.exit(main())
