#!/usr/bin/env python3
"""Regenerate the stage table of DESIGN.md (between the STAGE-TABLE markers) from the registry
(`./check list`) and the quick-tier numbers of the committed evidence files."""
import json, os, re, subprocess
out = subprocess.run(["/verif/check", "list"], capture_output=True, text=True).stdout
rows, cur = [], None
for l in out.splitlines():
    m = re.match(r"^(C\d\d) \[", l)
    if m:
        cur = m.group(1); continue
    m = re.match(r"^\s+(c\d\d\.\S+)\s+bound q=(\d+) t=(\d+) tiers=(\d)\s+(.*)$", l)
    if m and cur:
        rows.append((cur, *m.groups()))
ev = {}
for f in os.listdir("/verif/evidence"):
    e = json.load(open(f"/verif/evidence/{f}"))
    if e.get("tier") != "quick": continue
    for st in e["coverage"].get("stages", []):
        ev[st.get("space")] = st
lines = ["| id | stage | deviation bound quick / thorough | tiers | quick executions (inner evaluations) | space |", "|---|---|---|---|---|---|"]
for pid, space, q, t, tiers, what in rows:
    st = ev.get(space, {})
    n = f"{st.get('executions', '-')} ({st.get('inner_evaluations', '-')})" if st else "thorough only" if tiers == "2" else "-"
    lines.append(f"| {pid} | `{space}` | {q} / {t} | {'quick+thorough' if tiers == '3' else 'thorough' if tiers == '2' else 'quick'} | {n} | {what} |")
extra = {"C07": "`c07::extra` (E4): all 1-/2-bit flips of a page through the real `PagedReader`, triples and bursts on the measured syndrome table, both CRC backends",
         "C11": "`c11::extra` (E2): BFS over 26 `PagedWriter` ops (depth 5 quick / 7 thorough), each history on a full-transfer and a half-transfer device, then all reader op sequences (depth 3 / 4) on every distinct device image",
         "C17": "`c17::extra` (E2): page-cache state BFS to the fixpoint on 7 file variants"}
for k, v in extra.items():
    lines.append(f"| {k} | extra | - | quick+thorough | see evidence `stages[-1]` | {v} |")
p = "/verif/DESIGN.md"
s = open(p).read()
a, b = "<!-- STAGE-TABLE-BEGIN -->", "<!-- STAGE-TABLE-END -->"
assert a in s and b in s
s = s[: s.index(a) + len(a)] + "\n" + "\n".join(lines) + "\n" + s[s.index(b):]
open(p, "w").write(s)
print(len(rows), "stages")
