#!/usr/bin/env python3
"""Generate /verif/MANIFEST.json from the table below (single source of truth for the interface)."""
import json, os, subprocess, sys

HERE = os.path.dirname(os.path.dirname(os.path.abspath(__file__)))

# id -> (category, technique, text, note, design_ref)
CLAIMED = {
 "C01": ("model_checking",
         "bounded-exhaustive enumeration of writer programs on the real writer/reader (stateless choice-point DFS, subprocess workers)",
         "Every writer program of the stated finite spaces (all 255 aligned section residues x prototypes x point counts; all API programs to depth 3/4 over a 30-op alphabet; point counts around 1x/2x/3x the natural packet capacity; hooked packet capacity 1..9 x every catalogue type incl. widths 0..64) is executed on the real E57Writer and read back with the real raw reader; the oracle is the harness's own record of the values handed in, compared bit-for-bit. Exhaustive within the stated catalogues and bounds.",
         "values are drawn from finite catalogues (boundaries, walking bits, float specials); programs are bounded in depth; rustc/std and the in-memory device are trusted",
         "DESIGN.md §5 C01"),
 "C02": ("model_checking",
         "bounded-exhaustive enumeration of writer programs; each produced file judged by an independent zero-dependency E57 decoder/validator (e57spec)",
         "Every program of the C01 spaces (255 residues, depth-3/4 programs x 3 finalize modes, hooked capacities x all catalogue types) and blob/image payload lengths 0..1023 is written by the real writer and must satisfy rules R1-R10 of the independent validator (size, page CRCs, header fields, XML well-formedness / namespaces / element names and types, offsets and section ids, section / packet lengths, alignment, exact stream byte counts, blob section-length convention, non-overlap) and decode with e57spec to exactly the content handed to the writer.",
         "the rule set encodes ASTM E2807 as exhibited by the foreign-written files in /repo/testdata (all validate cleanly); a few element names are from the standard from memory (DESIGN.md)",
         "DESIGN.md §5 C02"),
 "C03": ("model_checking",
         "deviation-bounded exhaustive DFS over the layout choice points of an independent encoder; every emitted file validated by the independent decoder and then read by the real reader",
         "10 scenes x all layouts with <=2 (thorough <=3) simultaneous deviations from canonical over: data packets per cloud, every byte cut of every record stream, index/ignored packets at every gap, data/index offsets, section order, gaps (every aligned residue in a dedicated stage), omitted default attributes, XML lexical forms; the real raw reader must return exactly the encoded scene.",
         "only layouts libE57Format accepts are generated; scenes are small (<=5 points per cloud)",
         "DESIGN.md §5 C03"),
 "C05": ("model_checking",
         "deviation-bounded exhaustive DFS over attribute subsets, state combinations, poses and packetisations of independently encoded files; real simple iterator vs an independent reference view under all 64 option vectors",
         "Every case (3 coordinate kinds x 6 poses x <=2/3 deviations over attribute presence, coordinate type, out-of-set state values at first/middle/last point, packets, cuts, index/ignored packets) is read under all 64 option vectors and compared point by point with a reference function written from the documentation; the failure clause is checked in both directions.",
         "tolerances 1e-9 (trig/pose) and one f32 ulp (normalisation); non-finite coordinates compare by variant only",
         "DESIGN.md §5 C05"),
 "C06": ("model_checking",
         "bounded-exhaustive enumeration (full product of blob length 0..1023 x 255 start residues, program DFS, descriptor tampering) on the real writer/reader",
         "All 261 120 (length, aligned start residue) pairs, multi-page lengths, every depth-<=3 program over blobs / all image kinds with and without masks / clouds with payload patterns unique per blob, and a menu of crafted descriptors and section-length patches are executed on the real code; payloads compared byte for byte; a crafted descriptor must yield Err or exactly `length` bytes as decoded by the independent page decoder.",
         "blob lengths above 1023 are sampled at page-boundary neighbourhoods and three long sizes only; tampering uses a fixed menu of descriptor lengths",
         "DESIGN.md §5 C06"),
 "C10": ("model_checking",
         "bounded-exhaustive enumeration of prototypes, unstorable values and API call orders on the real writer under catch_unwind, judged by a reference predicate of the documented rules",
         "Every prototype of length <=2 over 25 names x 14 types, every valid base plus <=2 extra records, every single-record mutation of the catalogue prototypes, 9 kinds of unstorable value at every position of a 9-point cloud, and every sequence of <=3/4 API sessions (incl. abandoned writers, double finalize, failing XML transformer) are executed; no call may panic, listed unstorable inputs must be rejected without side effects, and whenever finalize reports success the file must read back exactly.",
         "rejection is demanded only for the classes the statement lists; duplicates and other undocumented shapes are judged by no-panic and read-back only",
         "DESIGN.md §5 C10"),
 "C13": ("model_checking",
         "full product of 22 attribute types x 18 limit shapes x 4 attributes, each case holding every stored value of the range (or boundaries + mini-float lattice), read by the real simple iterator",
         "For every (type, limits, attribute) the whole stored-value list is read with normalisation on and off: every delivered value must be in [0,1] and not NaN, non-decreasing in the stored value, equal to clamp((v-lo)/(hi-lo)) within 2.4e-7 for the range the statement designates, 0 for degenerate ranges; with normalisation off the stored value as f32.",
         "ambiguous limit shapes accept any of the candidate ranges; non-range limits (NaN, lo>hi) only the invariants",
         "DESIGN.md §5 C13"),
 "C14": ("model_checking",
         "deviation-bounded exhaustive DFS (<=2 quick / <=3 thorough deviations) over attribute groups, types, value orders and limit overrides on the real writer/reader",
         "48 attribute-group subsets x 4 sequence kinds, with every combination of at most 2 (3) deviations over coordinate/index/colour/intensity types, value sets, limit overrides and all 6 orders of three distinct values per attribute; stored bounds compared numerically with an independent fold, limits with the declared type range or the override.",
         "NaN coordinates excluded; partial limit overrides not judged",
         "DESIGN.md §5 C14"),
}

ALL = ["C%02d" % i for i in range(1, 21)]

def main():
    hook_commits = subprocess.run(["git", "-C", "/repo", "log", "--format=%H", "--grep=verification hooks"], capture_output=True, text=True).stdout.split()
    checks = []
    for pid in ALL:
        if pid not in CLAIMED:
            continue
        cat, tech, text, note, ref = CLAIMED[pid]
        checks.append({
            "property_id": pid,
            "quick_cmd": f"./check {pid} quick",
            "thorough_cmd": f"./check {pid} thorough",
            "evidence_file": f"/verif/evidence/{pid}.json",
            "replay_cmd_template": "./check replay {path}",
            "engine": "mc",
            "level_claimed": {"category": cat, "text": text, "design_ref": ref},
            "level_note": note,
            "technique": tech,
        })
    na = [{"property_id": p, "reason": "check not built yet in this revision of /verif (planned, see DESIGN.md §5); no claim is made"} for p in ALL if p not in CLAIMED]
    man = {
        "version": 1,
        "setup_cmd": "./check setup",
        "hooks": {
            "guard": "--cfg e57_verif",
            "enable": "RUSTFLAGS=\"--cfg e57_verif\" (set by ./check for the harness build in /verif/.build; /repo/target is never touched)",
            "baseline_off_cmd": "cd /repo && cargo nextest run --workspace --no-fail-fast --offline || cargo test --workspace --no-fail-fast --offline",
            "source_commits": hook_commits,
            "add_only": True,
        },
        "engines": [
            {"name": "explore", "path": "/verif/engine/explore", "serves_properties": sorted(CLAIMED), "kind_free_text": "stateless choice-point DFS with deviation bound; cases run in subprocess workers; replay-twice determinism check"},
            {"name": "e57spec", "path": "/verif/engine/e57spec", "serves_properties": sorted(CLAIMED), "kind_free_text": "independent zero-dependency E57 codec (CRC-32C, pages, XML, packets, bit codec) used as oracle; validated against the foreign-written files in /repo/testdata"},
            {"name": "mc", "path": "/verif/engine/mc", "serves_properties": sorted(CLAIMED), "kind_free_text": "harness binary: spaces, oracles, instrumented devices, evidence writer"},
        ],
        "checks": checks,
        "not_applicable": na,
        "notes": "All checks are bounded-exhaustive explorations of the real code (model checking family); see DESIGN.md. Exit 2 from a check is a machinery error, never a verdict.",
    }
    with open(os.path.join(HERE, "MANIFEST.json"), "w") as f:
        json.dump(man, f, indent=1)
        f.write("\n")
    try:
        import jsonschema
        jsonschema.validate(man, json.load(open("/root/.vp/MANIFEST.schema.json")))
        print("MANIFEST.json valid:", len(checks), "checks,", len(na), "not_applicable")
    except ImportError:
        print("jsonschema not available; not validated")

if __name__ == "__main__":
    main()
