#!/usr/bin/env python3
"""Generate /verif/MANIFEST.json from the table below (single source of truth for the interface)."""
import json, os, subprocess, sys

HERE = os.path.dirname(os.path.dirname(os.path.abspath(__file__)))

# id -> (category, technique, text, note, design_ref)
CLAIMED = {
 "C01": ("model_checking",
         "bounded-exhaustive enumeration of writer programs on the real writer/reader (stateless choice-point DFS, subprocess workers)",
         "Every writer program of the stated finite spaces (all 255 aligned section residues x prototypes x point counts; all API programs to depth 3/4 over a 30-op alphabet and depth 4/5 over a 12-op sub-alphabet; counts crossing 255 / 65535 (clouds, points, packets, records per prototype); point counts around 1x/2x/3x the natural packet capacity; hooked packet capacity 1..9 x every catalogue type incl. widths 0..64) is executed on the real E57Writer and read back with the real raw reader; the oracle is the harness's own record of the values handed in, compared bit-for-bit. Exhaustive within the stated catalogues and bounds.",
         "values are drawn from finite catalogues (boundaries, walking bits, float specials); programs are bounded in depth; rustc/std and the in-memory device are trusted",
         "DESIGN.md §5 C01"),
 "C02": ("model_checking",
         "bounded-exhaustive enumeration of writer programs; each produced file judged by an independent zero-dependency E57 decoder/validator (e57spec)",
         "Every program of the C01 spaces (255 residues, depth-3/4 programs x 3 finalize modes, hooked capacities x all catalogue types) and blob/image payload lengths 0..1023 is written by the real writer and must satisfy rules R1-R10 of the independent validator (size, page CRCs, header fields, XML well-formedness / namespaces / element names and types, offsets and section ids, section / packet lengths, alignment, exact stream byte counts, blob section-length convention, non-overlap) and decode with e57spec to exactly the content handed to the writer.",
         "the rule set encodes ASTM E2807 as exhibited by the foreign-written files in /repo/testdata (all validate cleanly); a few element names are from the standard from memory (DESIGN.md)",
         "DESIGN.md §5 C02"),
 "C03": ("model_checking",
         "deviation-bounded exhaustive DFS over the layout choice points of an independent encoder; every emitted file validated by the independent decoder and then read by the real reader",
         "10 scenes x all layouts with <=2 (thorough <=3) simultaneous deviations from canonical over: data packets per cloud, every byte cut of every record stream, index/ignored packets at every gap, data/index offsets, section order, gaps (every aligned residue in a dedicated stage), omitted default attributes, XML lexical forms; the real raw reader must return exactly the encoded scene.",
         "only layouts libE57Format accepts are generated; scenes are small (<=5 points per cloud)",
         "DESIGN.md §5 C03"),
 "C04": ("model_checking",
         "bounded-exhaustive enumeration of metadata programs (presence lattice with deviation bound, full string and float catalogues) on the real writer/reader",
         "Presence lattice of 34 optional fields within <=3/4 toggles of all-absent and all-present x 5 image kinds x 3 finalize modes; every string of length <=3 over 12 XML-critical characters plus long ones in every string field; every float of the mini-float lattice plus specials in every float field; everything set must read back exactly; xml() equals the transformer output and the bytes stored in the file.",
         "carriage return excluded from strings; partial limit overrides not judged",
         "DESIGN.md §5 C04"),
 "C05": ("model_checking",
         "deviation-bounded exhaustive DFS over attribute subsets, state combinations, poses and packetisations of independently encoded files; real simple iterator vs an independent reference view under all 64 option vectors",
         "Every case (3 coordinate kinds x 6 poses x <=2/3 deviations over attribute presence, coordinate type, out-of-set state values at first/middle/last point, packets, cuts, index/ignored packets) is read under all 64 option vectors and compared point by point with a reference function written from the documentation; the failure clause is checked in both directions.",
         "tolerances 1e-9 (trig/pose) and one f32 ulp (normalisation); non-finite coordinates compare by variant only",
         "DESIGN.md §5 C05"),
 "C06": ("model_checking",
         "bounded-exhaustive enumeration (full product of blob length 0..1023 x 255 start residues, program DFS, descriptor tampering) on the real writer/reader",
         "All 261 120 (length, aligned start residue) pairs, multi-page lengths, every depth-<=3 program over blobs / all image kinds with and without masks / clouds with payload patterns unique per blob, and a menu of crafted descriptors and section-length patches are executed on the real code; payloads compared byte for byte; a crafted descriptor must yield Err or exactly `length` bytes as decoded by the independent page decoder.",
         "blob lengths above 1023 are sampled at page-boundary neighbourhoods and three long sizes only; tampering uses a fixed menu of descriptor lengths",
         "DESIGN.md §5 C06"),
 "C07": ("model_checking",
         "exhaustive single-bit (all files/pages/bytes) and two-bit flips through the real reader, bounded-exhaustive read histories on damaged files, measured CRC syndrome table for the 3-bit and burst clauses, cross-build comparison of both CRC backends",
         "F1: every single-bit flip of every byte of 5 small files against the whole operation list forwards and backwards; F2: all depth-3/4 read histories on files with one damaged page; F3: all 1-bit and 2-bit flips (quick: within 64-bit windows, thorough: all 33.5 M pairs) and a menu of checksum mis-encodings through the real page reader; F4: all triples and all bursts <=32 bits decided on the syndrome table measured with the crate's CRC (affinity verified on every executed pair); F6: identical per-case observations with and without the crc32c feature.",
         "3-bit/burst clauses rely on CRC affinity verified on executed pairs; burst positions in the CRC's own bit order; known finding: bursts straddling payload end and the big-endian checksum (format property)",
         "DESIGN.md §5 C07"),
 "C08": ("model_checking",
         "complete enumeration of a structure-aware single-mutation menu (thorough: pairs) over a 33-file seed corpus; every read entry point per mutant under catch_unwind in worker subprocesses",
         "For every seed (e57spec scenes incl. index/ignored packets, writer files, 14 bundled files) every item of the finite mutation menu is applied (header fields, every numeric/type XML slot, element delete/duplicate/move, prototype conspiracies, section and packet fields, payload flips, truncation/extension, unsealed flips, pathological XML documents) and validate_crc, raw_xml, new, listing, raw/simple iteration under 8/64 option vectors and blob extraction are run with overflow checks and debug assertions on; no panic, no abort.",
         "'all byte strings' is approximated by the <=1 (thorough <=2) mutation neighbourhood of the corpus; OOM/hangs are C09's",
         "DESIGN.md §5 C08"),
 "C09": ("model_checking",
         "the C08 enumeration with a counting global allocator and counting device: per-call budgets on allocated bytes, device reads, items yielded, plus a per-case watchdog and a live-byte cap",
         "Every call (open, each next(), each blob) of every mutant is metered: bytes allocated and peak live bytes <= 128*L + 8 MiB (open / XML), 64*L + 192 MiB (iterator step), L + 1 MiB (blob), wall time < 10 s per call, device bytes requested <= 4*L + 64 KiB (validate_crc 2*L), iterators yield <= recordCount items, each case finishes within the watchdog; a worker exceeding 2 GiB live bytes exits with a distinguished status and the case is reported.",
         "budgets are loose constants; the watchdog is a timeout, not a termination proof",
         "DESIGN.md §5 C09"),
 "C10": ("model_checking",
         "bounded-exhaustive enumeration of prototypes, unstorable values and API call orders on the real writer under catch_unwind, judged by a reference predicate of the documented rules",
         "Every prototype of length <=2 over 25 names x 16 types, every valid base plus <=2 extra records, every single-record mutation of the catalogue prototypes, 9 kinds of unstorable value at every position of a 9-point cloud, and every sequence of <=4/5 API sessions (incl. abandoned writers, double finalize, failing XML transformer) are executed; no call may panic, listed unstorable inputs must be rejected without side effects, and whenever finalize reports success the file must read back exactly.",
         "rejection is demanded only for the classes the statement lists; duplicates and other undocumented shapes are judged by no-panic and read-back only",
         "DESIGN.md §5 C10"),
 "C11": ("model_checking",
         "explicit-state BFS over real PagedWriter histories with exact canonical states (verification hooks), invariants on every transition and flush/drop point; exhaustive read-op sequences on every distinct device image",
         "All histories over a 26-op alphabet (10 write sizes, 12 seek targets incl. refused ones, flush, align, position, size) to depth 5 (thorough 7) with state merging; I1-I5 (page multiple, CRC of every page, payload == reference logical stream, position/size mapping, seek verdicts) after each op and on the image left by flush or drop; then every sequence of depth 3/4 over 16 reader ops on each distinct image.",
         "logical length capped at 4 pages; independent CRC implementation trusted",
         "DESIGN.md §5 C11"),
 "C12": ("model_checking",
         "full products over widths 0..64 x range shapes x anchors x packet capacities on the real writer (bytes vs independent bit codec) and reader (independently encoded streams cut at every byte); direct drive of the bit buffers for all values of widths <=12",
         "Writer: every width, 3 range shapes, 4 anchors, hooked capacity 1..16, Integer and ScaledInteger: the record's concatenated stream must equal e57spec's bit codec bit for bit with exactly ceil(N*w/8) bytes; reader: every byte cut (thorough: pairs of cuts) of independently encoded streams; natural-capacity cut for every width; direct drive: every value of every width <=12 at every position, every flush point and every append split.",
         "values inside the declared range; only same-width streams are driven through the buffers",
         "DESIGN.md §5 C12"),
 "C13": ("model_checking",
         "full product of 22 attribute types x 18 limit shapes x 4 attributes x 3 settings of the neighbouring channel's limits, each case holding every stored value of the range (or boundaries + mini-float lattice), read by the real simple iterator",
         "For every (type, limits, attribute) the whole stored-value list is read with normalisation on and off: every delivered value must be in [0,1] and not NaN, non-decreasing in the stored value, equal to clamp((v-lo)/(hi-lo)) within 2.4e-7 for the range the statement designates, 0 for degenerate ranges; with normalisation off the stored value as f32.",
         "ambiguous limit shapes accept any of the candidate ranges; non-range limits (NaN, lo>hi) only the invariants",
         "DESIGN.md §5 C13"),
 "C15": ("fault_enumeration",
         "exhaustive crash-point enumeration: every prefix of the device write log x every byte cut of the cut write, for every program of a bounded program space incl. re-finalize programs; real reader on every image",
         "For 14 hand-listed shapes and all programs of depth <=2/3 (plus a second finalize after metadata changes / added sections) every crash image is built and offered to the real reader: an accepted image must stem from inside a finalize, equal a completed file in its listing, and answer every read op (forwards and backwards) with Err or the completed result; writers dropped without finalize at every API position must leave a rejected device.",
         "in-order writes, prefix-torn writes (as the statement assumes)",
         "DESIGN.md §5 C15"),
 "C16": ("fault_enumeration",
         "exhaustive single-fault injection at every device-operation index and deviation-bounded exhaustive chunking schedules, writer and reader side",
         "Writer programs (14 shapes + depth <=2/3) and reader programs on 4 files: one run per device operation index with exactly that read/write/seek/flush failing - the call in progress must return Err, finalize Ok implies the fault-free bytes; all schedules with <=1/2 short transfers (1 byte, half, len-1) of device and blob-source transfers plus 3 uniform schedules must give identical bytes and results.",
         "one fault per run; short transfers never return 0 bytes",
         "DESIGN.md §5 C16"),
 "C17": ("model_checking",
         "bounded-exhaustive read histories (depth 3/4) on intact and damaged files, one-shot device fault at every device operation followed by every operation, and fixpoint BFS over the reader's page-cache states",
         "Every history over the read alphabet on 8 file variants, every (warm-up, faulted op, fault position, following op) combination with full and half-sized device reads, and a BFS that evaluates every operation in every reachable page-cache state (fixpoint reached); oracle: memoised result on a freshly opened reader.",
         "alphabet of ~20 ops per file; one fault per history",
         "DESIGN.md §5 C17"),
 "C18": ("model_checking",
         "full product of insertion positions x local names x foreign element shapes (and foreign attributes) spliced into real and independently encoded documents; real reader report vs report on the unmodified document",
         "6 base documents x every child position of every container element outside prototypes x 88 local names (every name the reader looks up) x 4 shapes, foreign attributes before and after the standard attributes of every element, and extension attributes named like standard ones / odd accepted names at every prototype position: the reader's report about standard content (root fields, descriptors, points, blobs) must not change and extension attributes must come back with prefix and name.",
         "inserted content is truly foreign (prefixed, namespace declared on the inserted element); extension names starting with a digit or dash were a genuine defect, repaired (fix #28)",
         "DESIGN.md §5 C18"),
 "C19": ("model_checking",
         "bounded-exhaustive corpus (layout-deviation files, all depth-2/3 program outputs, metadata-rich files, bundled files) x differential oracle through the real reader/writer; cross-process determinism by executing a stage twice",
         "Every corpus file that follows the writer's documented rules is copied through the public API: read(copy(F)) == read(F), copy(copy(F)) byte-identical to copy(F), repeated writes byte-identical, also between separate worker processes.",
         "writer-computed bounds are not compared with foreign originals; partial limits are dropped by design",
         "DESIGN.md §5 C19"),
 "C20": ("model_checking",
         "exhaustive value lattice and line-shape enumeration through the built tool binaries (subprocesses), page-damage enumeration for the CRC tool, byte comparison of extract/unpack output with library results",
         "XYZ -> E57 -> XYZ for every finite f32 of the mini-float lattice + specials in three spellings and every colour value, line shapes within 2 deviations, line counts around the packet capacity; e57-check-crc exit status for every single damaged page / truncation of 17 files; e57-extract-xml and e57-unpack output vs raw_xml, xml(), raw values and blob bytes, intact and with every page damaged.",
         "clean single-space separated tokens, finite coordinates",
         "DESIGN.md §5 C20"),
 "C14": ("model_checking",
         "deviation-bounded exhaustive DFS (<=2 quick / <=3 thorough deviations) over attribute groups, types, value orders and limit overrides on the real writer/reader",
         "48 attribute-group subsets x 4 sequence kinds, with every combination of at most 2 (3) deviations over coordinate/index/colour/intensity types, value sets, limit overrides and all 6 orders of three distinct values per attribute; stored bounds compared numerically with an independent fold, limits with the declared type range or the override.",
         "NaN coordinates excluded; partial limit overrides not judged",
         "DESIGN.md §5 C14"),
}

ALL = ["C%02d" % i for i in range(1, 21)]

def main():
    hook_commits = subprocess.run(["git", "-C", "/repo", "log", "--format=%H", "--grep=verification hooks"], capture_output=True, text=True).stdout.split()
    # the registry is the authoritative list of spaces: its stage descriptions are appended
    import re
    listing = subprocess.run([os.path.join(HERE, "check"), "list"], capture_output=True, text=True).stdout
    stages, cur = {}, None
    for l in listing.splitlines():
        m = re.match(r"^(C\d\d) \[", l)
        if m:
            cur = m.group(1); stages[cur] = []; continue
        m = re.match(r"^\s+(c\d\d\.\S+)\s+bound q=(\d+) t=(\d+) tiers=(\d)\s+(.*)$", l)
        if m and cur:
            tier = {"3": "", "2": " [thorough only]", "1": " [quick only]"}[m.group(4)]
            stages[cur].append(f"{m.group(1)}{tier}: {m.group(5)}")
    checks = []
    for pid in ALL:
        if pid not in CLAIMED:
            continue
        cat, tech, text, note, ref = CLAIMED[pid]
        if stages.get(pid):
            text = text + " Spaces enumerated (registry): " + " | ".join(stages[pid])
        checks.append({
            "property_id": pid,
            "quick_cmd": f"./check {pid} quick",
            "thorough_cmd": f"./check {pid} thorough",
            "evidence_file": f"/verif/evidence/{pid}.json",
            "replay_cmd_template": "./check replay {path}",
            "engine": "mc",
            "level_claimed": {"category": cat, "text": text, "design_ref": ref},
            "level_note": note,
            "technique": tech,
        })
    na = [{"property_id": p, "reason": "check not built yet in this revision of /verif (planned, see DESIGN.md §5); no claim is made"} for p in ALL if p not in CLAIMED]
    man = {
        "version": 1,
        "setup_cmd": "./check setup",
        "hooks": {
            "guard": "--cfg e57_verif",
            "enable": "RUSTFLAGS=\"--cfg e57_verif\" (set by ./check for the harness build in /verif/.build; /repo/target is never touched)",
            "baseline_off_cmd": "cd /repo && cargo nextest run --workspace --no-fail-fast --offline || cargo test --workspace --no-fail-fast --offline",
            "source_commits": hook_commits,
            "add_only": True,
        },
        "engines": [
            {"name": "explore", "path": "/verif/engine/explore", "serves_properties": sorted(CLAIMED), "kind_free_text": "stateless choice-point DFS with deviation bound; cases run in subprocess workers; replay-twice determinism check"},
            {"name": "e57spec", "path": "/verif/engine/e57spec", "serves_properties": sorted(CLAIMED), "kind_free_text": "independent zero-dependency E57 codec (CRC-32C, pages, XML, packets, bit codec) used as oracle; validated against the foreign-written files in /repo/testdata"},
            {"name": "mc", "path": "/verif/engine/mc", "serves_properties": sorted(CLAIMED), "kind_free_text": "harness binary: spaces, oracles, instrumented devices, evidence writer"},
        ],
        "checks": checks,
        "not_applicable": na,
        "notes": "All checks are bounded-exhaustive explorations of the real code (model checking family); see DESIGN.md. Exit 2 from a check is a machinery error, never a verdict.",
    }
    with open(os.path.join(HERE, "MANIFEST.json"), "w") as f:
        json.dump(man, f, indent=1)
        f.write("\n")
    try:
        import jsonschema
        jsonschema.validate(man, json.load(open("/root/.vp/MANIFEST.schema.json")))
        print("MANIFEST.json valid:", len(checks), "checks,", len(na), "not_applicable")
    except ImportError:
        print("jsonschema not available; not validated")

if __name__ == "__main__":
    main()
