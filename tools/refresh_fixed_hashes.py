#!/usr/bin/env python3
"""Rewrite the commit hashes in known_findings.json 'fixed' entries after /repo history was rewritten
(matches commits by subject line)."""
import json, re, subprocess
def git(*a): return subprocess.run(["git","-C","/repo",*a],capture_output=True,text=True).stdout.strip()
new = {}
for l in git("log","--format=%h %s").splitlines():
    h,s = l.split(" ",1); new[s]=h
p="/verif/known_findings.json"; j=json.load(open(p)); out=[]
for e in j["fixed"]:
    m=re.match(r"(fixed: property=\w+ )([0-9a-f]{7,})( .*)", e)
    if m:
        subj=git("log","-1","--format=%s",m.group(2))
        if subj in new: e=m.group(1)+new[subj]+m.group(3)
        else: print("no match for", m.group(2), subj)
    out.append(e)
j["fixed"]=out; json.dump(j,open(p,"w"),indent=1)
missing=[s for s,h in new.items() if s.startswith("fix:") and not any(h in e for e in out)]
print("fix commits without an entry:", missing)
