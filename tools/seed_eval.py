#!/usr/bin/env python3
"""Verify a seeded fault delivered by a sub-agent and run the /verif checks against it.

  seed_eval.py <ID> <k> [checks...]

1. in the scratch worktree /tmp/seed/<ID> (moved to /repo's HEAD): demo passes on the clean tree,
   patch applies, the 85-test suite passes with the patch, the demo fails with the patch;
2. apply the patch to /repo, run the listed checks (default: all claimed in MANIFEST.json), undo;
3. write /verif/seeded/<ID>-<k>/{patch.diff,demo.rs,meta.json}.
"""
import json, os, shutil, subprocess, sys, time

def sh(cmd, cwd=None, env=None, timeout=3600):
    e = dict(os.environ)
    if env: e.update(env)
    p = subprocess.run(cmd, shell=True, cwd=cwd, env=e, capture_output=True, text=True, timeout=timeout)
    return p.returncode, p.stdout + p.stderr

def main():
    pid, k = sys.argv[1], sys.argv[2]
    checks = sys.argv[3:]
    src = os.environ.get("SEED_SRC", "/tmp/seed/out") + f"/{pid}"
    wt = os.environ.get("SEED_WT", "/tmp/seed") + f"/{pid}"
    koff = int(os.environ.get("SEED_KOFF", "0"))
    patch = f"{src}/patch{k}.diff"
    demo = f"{src}/demo{k}.rs"
    env = {"CARGO_TARGET_DIR": f"{wt}/target", "CARGO_NET_OFFLINE": "true"}
    res = {"property": pid, "k": int(k)}
    if not os.path.isdir(wt):
        sh(f"git -C /repo worktree add -q --detach {wt} HEAD")
    sh("git reset -q --hard HEAD && git clean -fdq tests && git checkout -q --detach main", cwd=wt)
    head = sh("git rev-parse --short HEAD", cwd=wt)[1].strip()
    res["repo_head"] = head
    # clean tree + demo
    shutil.copy(demo, f"{wt}/tests/seeded_demo.rs")
    dflags = os.environ.get("SEED_DEMO_FLAGS", "")  # e.g. "--features crc32c" for demos of the accelerated backend
    rc, out = sh(f"cargo test --offline -p e57 {dflags} --test seeded_demo 2>&1 | tail -15", cwd=wt, env=env)
    res["demo_clean_passes"] = ("test result: ok" in out) and ("FAILED" not in out)
    os.remove(f"{wt}/tests/seeded_demo.rs")
    # patch applies
    rc, out = sh(f"git apply --3way {patch} 2>&1 || git apply {patch}", cwd=wt)
    rc2, st = sh("git status --short", cwd=wt)
    res["patch_applies"] = bool(st.strip()) and "conflict" not in out.lower()
    if not res["patch_applies"]:
        res["apply_output"] = out[-500:]
        print(json.dumps(res, indent=1)); return 1
    rc, out = sh("cargo nextest run --workspace --no-fail-fast --offline 2>&1 | tail -3", cwd=wt, env=env)
    res["suite_with_patch"] = out.strip().splitlines()[-1] if out.strip() else ""
    res["suite_passes_with_patch"] = "85 passed" in out and "failed" not in out
    shutil.copy(demo, f"{wt}/tests/seeded_demo.rs")
    rc, out = sh(f"cargo test --offline -p e57 {dflags} --test seeded_demo 2>&1 | tail -25", cwd=wt, env=env)
    res["demo_fails_with_patch"] = "FAILED" in out or "panicked" in out
    res["demo_failure_excerpt"] = "\n".join(l for l in out.splitlines() if "panicked" in l or "assert" in l.lower())[:600]
    os.remove(f"{wt}/tests/seeded_demo.rs")
    sh("git diff HEAD > /tmp/seed/current.patch", cwd=wt)  # noqa
    sh("git reset -q --hard HEAD && git clean -fdq tests", cwd=wt)
    sh("rm -f *.e57", cwd=wt)
    # run the checks with the patch applied: against /repo itself, or (SEED_SCRATCH=1) against a
    # scratch worktree of /repo with a scratch copy of /verif whose engine points to it
    scratch = os.environ.get("SEED_SCRATCH") == "1"
    repo, verif = "/repo", "/verif"
    envx = {}
    if scratch:
        repo, verif = "/var/tmp/seedrepo", "/var/tmp/seedverif"
        if not os.path.isdir(repo):
            sh(f"git -C /repo worktree add -q --detach {repo} HEAD")
        sh("git reset -q --hard && git checkout -q --detach main", cwd=repo)
        vsrc = os.environ.get("SEED_VERIF_SRC") or "/verif"  # a frozen copy keeps first verdicts independent of later edits
        assert os.path.isfile(os.path.join(vsrc, "check")), f"{vsrc} is not a copy of /verif"
        sh(f"mkdir -p {verif} && rsync -a --delete --exclude .build --exclude .work --exclude .git --exclude replays --exclude evidence {vsrc}/ {verif}/")
        sh(f"sed -i 's|path = \"/repo\"|path = \"{repo}\"|' {verif}/engine/mc/Cargo.toml")
        envx = {"E57_REPO": repo}
    st = sh(f"git -C {repo} status --short")[1].strip()
    if st:
        print(f"refusing: {repo} has local changes:\n" + st); return 2
    if not checks:
        man = json.load(open("/verif/MANIFEST.json"))
        checks = [c["property_id"] for c in man["checks"]]
    rc, out = sh(f"git -C {repo} apply /tmp/seed/current.patch")
    caught = {}
    try:
        if rc != 0:
            res["apply_to_repo_failed"] = out
        else:
            for c in checks:
                t0 = time.time()
                rc, out = sh(f"./check {c} quick 2>/dev/null", cwd=verif, env=envx, timeout=900)
                sigs = [l.split("signature:")[1].strip() for l in out.splitlines() if "signature:" in l]
                caught[c] = {"exit": rc, "violation_lines": out.count("VIOLATION property="), "signatures": sigs[:4], "wall_s": round(time.time() - t0, 1)}
                print(f"  {c}: exit {rc} violations {caught[c]['violation_lines']} {sigs[:2]}", flush=True)
    finally:
        sh(f"git -C {repo} checkout -- .")
    res["checks"] = caught
    res["caught_by"] = [c for c, v in caught.items() if v["exit"] == 1]
    res["machinery_errors"] = [c for c, v in caught.items() if v["exit"] not in (0, 1)]
    ok = res["demo_clean_passes"] and res["suite_passes_with_patch"] and res["demo_fails_with_patch"]
    res["confirmed"] = ok
    out_dir = f"/verif/seeded/{pid}-{int(k) + koff}"
    if ok:
        os.makedirs(out_dir, exist_ok=True)
        shutil.copy("/tmp/seed/current.patch", f"{out_dir}/patch.diff")
        shutil.copy(demo, f"{out_dir}/demo.rs")
        meta_md = open(f"{src}/meta{k}.md").read() if os.path.exists(f"{src}/meta{k}.md") else ""
        meta = {
            "breaks_property": pid,
            "needs_to_manifest": meta_md,
            "what_was_run": {
                "repo_head": head,
                "demo_on_clean_tree": "pass" if res["demo_clean_passes"] else "FAIL",
                "suite_with_patch": res["suite_with_patch"],
                "demo_with_patch": "fails" if res["demo_fails_with_patch"] else "passes",
                "demo_failure_excerpt": res["demo_failure_excerpt"],
                "verif_quick_checks_with_patch": caught,
            },
            "caught_by": res["caught_by"],
        }
        json.dump(meta, open(f"{out_dir}/meta.json", "w"), indent=1)
    print(json.dumps({k2: v for k2, v in res.items() if k2 != "checks"}, indent=1))
    return 0

if __name__ == "__main__":
    sys.exit(main())
