#!/usr/bin/env python3
"""Regression seeds from the repaired defects: for every "fix:" commit of /repo listed in
known_findings.json, apply the REVERSE of that commit to a scratch worktree of /repo's HEAD, run the
pinned test suite there (it must still pass: the defect was invisible to it) and run the quick check
of the property the fix belongs to (it must report a VIOLATION: a fixed entry suppresses nothing).

  revert_eval.py [hash...]        (default: all fixed entries)

Scratch locations: /var/tmp/seedrepo (worktree), /var/tmp/seedverif (copy of /verif whose engine
points to the worktree). Result table: /verif/seeded/reverts.json
"""
import json, os, re, subprocess, sys, time

REPO, VERIF = "/var/tmp/seedrepo", "/var/tmp/seedverif"

def sh(cmd, cwd=None, env=None, timeout=3600):
    e = dict(os.environ)
    if env: e.update(env)
    p = subprocess.run(cmd, shell=True, cwd=cwd, env=e, capture_output=True, text=True, timeout=timeout)
    return p.returncode, p.stdout + p.stderr

def main():
    kf = json.load(open("/verif/known_findings.json"))
    entries = []
    for e in kf["fixed"]:
        m = re.match(r"fixed: property=(\w+) ([0-9a-f]{7,}) (.*)", e)
        if m:
            entries.append(m.groups())
    want = sys.argv[1:]
    if want:
        entries = [e for e in entries if e[1] in want]
    if not os.path.isdir(REPO):
        sh(f"git -C /repo worktree add -q --detach {REPO} HEAD")
    sh(f"mkdir -p {VERIF} && rsync -a --delete --exclude .build --exclude .work --exclude .git --exclude replays --exclude evidence /verif/ {VERIF}/")
    sh(f"sed -i 's|path = \"/repo\"|path = \"{REPO}\"|' {VERIF}/engine/mc/Cargo.toml")
    out_path = "/verif/seeded/reverts.json"
    table = json.load(open(out_path)) if os.path.exists(out_path) and want else {}
    for prop, h, what in entries:
        sh("git reset -q --hard && git clean -fdq && git checkout -q --detach main", cwd=REPO)
        subj = sh(f"git -C /repo log -1 --format=%s {h}")[1].strip()
        row = {"property": prop, "fix": subj, "defect": what[:200]}
        sh(f"git -C /repo diff {h} {h}~1 > /var/tmp/revert.patch")
        rc, out = sh("git apply --3way /var/tmp/revert.patch 2>&1", cwd=REPO)
        st = sh("git status --short", cwd=REPO)[1]
        failed = rc != 0 or "conflict" in out.lower() or any(l.startswith(("UU", "AA", "U ", " U")) for l in st.splitlines())
        manual = f"/verif/seeded/reverts-manual/{h}.diff"
        if failed and os.path.exists(manual):
            # a later repair touches the same lines: hand-written re-introduction of the defect on HEAD
            sh("git reset -q --hard && git clean -fdq", cwd=REPO)
            rc, out = sh(f"git apply {manual} 2>&1", cwd=REPO)
            failed = rc != 0
            row["manual_reintroduction"] = True
        if failed:
            row["reverse_applies"] = False
            row["note"] = "a later fix touches the same lines; not evaluated"
            table[h] = row
            print(h, prop, "reverse patch does not apply", flush=True)
            continue
        row["reverse_applies"] = True
        sh("git reset -q", cwd=REPO)  # unstage, keep the working tree change
        rc, out = sh("cargo nextest run --workspace --no-fail-fast --offline 2>&1 | tail -3", cwd=REPO, env={"CARGO_TARGET_DIR": "/var/tmp/seedrepo-target", "CARGO_NET_OFFLINE": "true"})
        row["suite"] = out.strip().splitlines()[-1].strip() if out.strip() else ""
        row["suite_passes"] = "85 passed" in out and "failed" not in out
        t0 = time.time()
        rc, out = sh(f"./check {prop} quick 2>/dev/null", cwd=VERIF, env={"E57_REPO": REPO}, timeout=1200)
        sigs = [l.split("signature:")[1].strip() for l in out.splitlines() if "signature:" in l]
        row["check_exit"] = rc
        row["signatures"] = sigs[:4]
        row["wall_s"] = round(time.time() - t0, 1)
        row["caught"] = rc == 1
        table[h] = row
        print(h, prop, "suite:", row["suite_passes"], "check exit", rc, sigs[:2], flush=True)
        json.dump(table, open(out_path, "w"), indent=1)
    sh("git reset -q --hard && git clean -fdq", cwd=REPO)
    json.dump(table, open(out_path, "w"), indent=1)
    return 0

if __name__ == "__main__":
    sys.exit(main())
