#!/usr/bin/env python3
"""Mechanical mutation campaign against the checks (a measurement of the machinery, not a check).

Token-level mutants of /repo's sources (relational / arithmetic / boolean operator swaps, off-by-one
constants, min<->max, deleted statements, negated conditions) are generated at EVERY site of the
non-test, non-hook code; a deterministic shuffle (fixed seed) decides the order in which they are
tried, so an interrupted campaign has covered an unbiased subset.  Each mutant goes through

  1. build + the pinned suite in a scratch worktree   -> "stillborn" / "killed by suite" are dropped,
  2. the quick checks, most relevant property first, then all others, until one reports a VIOLATION
                                                      -> "caught by <check>" or "survivor".

Survivors are what matters: each one is either an equivalent mutant (no property changes) or a gap.
Nothing here touches /repo: scratch worktree /var/tmp/mutrepo, copy of /verif in /var/tmp/mutverif.

  mutation_campaign.py gen                      write /var/tmp/mutants.json (all sites, shuffled)
  mutation_campaign.py run <from> <to> [jobs]   evaluate mutants [from, to); results appended to
                                                /verif/seeded/mutants.jsonl
  mutation_campaign.py filter <from> <to> <slot>  only step 1, in its own worktree /var/tmp/mutf<slot>
                                                (several slots run side by side; "run" uses their verdicts)
  mutation_campaign.py one <index>              evaluate one mutant verbosely (all checks, no early stop)
"""
import json, os, random, re, subprocess, sys, time

TAG = os.environ.get("MUT_TAG", "")  # second and later batches: MUT_TAG=2 keeps lists and results apart

SRC = "/repo"
REPO, VERIF, TARGET = "/var/tmp/mutrepo", "/var/tmp/mutverif", "/var/tmp/mutrepo-target"
ALL = [f"C{i:02d}" for i in range(1, 21)]
ORDER = {
    "paged_writer.rs": ["C11", "C02", "C16", "C15", "C06", "C01"],
    "paged_reader.rs": ["C11", "C07", "C08", "C17", "C03", "C06"],
    "bitpack.rs": ["C12", "C01", "C03", "C08"], "bs_read.rs": ["C12", "C03", "C08", "C01"],
    "bs_write.rs": ["C12", "C01", "C02"], "crc32.rs": ["C07", "C02"],
    "blob.rs": ["C06", "C02", "C08", "C09", "C17"], "bounds.rs": ["C14", "C04", "C03"],
    "cv_section.rs": ["C03", "C02", "C08", "C01"], "packet.rs": ["C03", "C02", "C08", "C09", "C01"],
    "date_time.rs": ["C04", "C03", "C18"], "e57_reader.rs": ["C03", "C08", "C09", "C07", "C17", "C04", "C15"],
    "e57_writer.rs": ["C02", "C04", "C10", "C15", "C16"], "extension.rs": ["C10", "C04", "C18", "C01"],
    "header.rs": ["C02", "C08", "C15", "C03"], "image_writer.rs": ["C04", "C06", "C10", "C16"],
    "images.rs": ["C04", "C03", "C18", "C06"], "limits.rs": ["C14", "C04", "C13", "C03"],
    "pc_reader_raw.rs": ["C01", "C03", "C09", "C17"], "pc_reader_simple.rs": ["C05", "C13", "C09", "C17", "C08"],
    "pc_writer.rs": ["C01", "C14", "C10", "C02", "C12", "C19"], "point.rs": ["C05"],
    "pointcloud.rs": ["C04", "C03", "C18", "C01"], "queue_reader.rs": ["C03", "C12", "C09", "C08", "C01"],
    "record.rs": ["C10", "C12", "C01", "C04", "C03", "C13"], "root.rs": ["C04", "C03", "C02"],
    "transform.rs": ["C04", "C05"], "xml.rs": ["C04", "C03", "C18", "C08", "C09", "C19"],
    "main.rs": ["C20"],
}
FILES = [f"src/{f}" for f in ORDER if f != "main.rs"] + [
    f"tools/{t}/src/main.rs" for t in ["e57-from-xyz", "e57-to-xyz", "e57-check-crc", "e57-extract-xml", "e57-unpack"]]

SWAPS = [
    (r" < ", " <= "), (r" <= ", " < "), (r" > ", " >= "), (r" >= ", " > "),
    (r" == ", " != "), (r" != ", " == "), (r" && ", " || "), (r" \|\| ", " && "),
    (r" \+ ", " - "), (r" - ", " + "), (r" \+= ", " -= "), (r" -= ", " += "),
    (r" \* ", " + "), (r" / ", " * "), (r" % ", " / "), (r" << ", " >> "), (r" >> ", " << "),
    (r" & ", " | "), (r" \| ", " & "),
    (r"\.min\(", ".max("), (r"\.max\(", ".min("), (r"\btrue\b", "false"), (r"\bfalse\b", "true"),
    (r" \+ 1\b", ""), (r" - 1\b", ""), (r" \+ 1\b", " + 2"), (r" - 1\b", " - 2"),
    (r"\b0\b", "1"), (r"\b1\b", "0"), (r"\b1\b", "2"), (r"\b4\b", "3"), (r"\b8\b", "7"), (r"\b8\b", "9"),
    (r"\b64\b", "63"), (r"\b32\b", "31"), (r"\b1020\b", "1019"), (r"\b1024\b", "1023"),
    (r"\bas i64\b", "as i32 as i64"), (r"\bas u64\b", "as u32 as u64"),
    (r"\.saturating_sub\(", ".wrapping_sub("), (r"\.checked_add\(", ".checked_sub("),
    (r"\.is_some\(\)", ".is_none()"), (r"\.is_none\(\)", ".is_some()"), (r"\.is_empty\(\)", ".is_empty() == false"),
    (r"\bif (?!let\b)", "if !"),  # negated condition (first operand only; still a condition change)
]


def code_regions(text):
    """Yield (line_no, start_offset, line) for lines of non-test, non-hook, non-comment code."""
    off, skip_block, depth_at = 0, False, 0
    lines = text.split("\n")
    in_tests = False
    pending_cfg = False
    brace_skip = None
    depth = 0
    for no, line in enumerate(lines, 1):
        s = line.strip()
        if s.startswith("#[cfg(test)]"):
            in_tests = True          # test modules sit at the end of each file
        if s.startswith("#[cfg(e57_verif)]"):
            pending_cfg = True
        usable = not in_tests and brace_skip is None and not pending_cfg
        if pending_cfg and "{" in line and not s.startswith("#["):
            brace_skip = depth
            pending_cfg = False
        elif pending_cfg and s.endswith(";") and not s.startswith("#["):
            pending_cfg = False
        depth += line.count("{") - line.count("}")
        if brace_skip is not None and depth <= brace_skip and "}" in line:
            brace_skip = None
            usable = False
        if usable and s and not s.startswith(("//", "/*", "* ", "*/", "#[", "#!", "use ", "pub use ", "mod ", "pub mod ")):
            yield no, off, line
        off += len(line) + 1


def in_string_or_comment(line, pos):
    q, i = False, 0
    while i < pos:
        c = line[i]
        if c == "\\" and q:
            i += 2
            continue
        if c == '"':
            q = not q
        if not q and line.startswith("//", i):
            return True
        i += 1
    return q


def gen():
    out = []
    for f in FILES:
        text = open(os.path.join(SRC, f), newline="").read()
        for no, off, line in code_regions(text):
            for pat, rep in SWAPS:
                for m in re.finditer(pat, line):
                    if in_string_or_comment(line, m.start()):
                        continue
                    if pat.startswith(r"\b") and pat[2].isdigit():
                        # numeric literal: not part of an identifier, a float, a type suffix or an index like .0
                        a, b = m.start(), m.end()
                        if (a > 0 and (line[a - 1] in "._" or line[a - 1].isalnum())) or (b < len(line) and (line[b] in "._" or line[b].isalnum())):
                            continue
                    out.append({"file": f, "line": no, "start": off + m.start(), "end": off + m.end(),
                                "old": m.group(0), "new": rep if not pat.startswith(r"\bif ") else "if !",
                                "text": line.strip()[:160], "kind": "swap"})
            s = line.strip()
            # statement deletion: simple assignments and calls on one line
            if re.match(r"^(self\.)?[a-z_][\w\.\[\]]*(\(.*\))?( [+\-|&]?= .*)?;$", s) and not s.startswith(("let ", "return", "break", "continue")):
                a = off + (len(line) - len(line.lstrip()))
                out.append({"file": f, "line": no, "start": a, "end": a + len(s), "old": s, "new": "",
                            "text": s[:160], "kind": "delete"})
    random.Random(57 + (int(TAG) if TAG.isdigit() else 0)).shuffle(out)
    for i, m in enumerate(out):
        m["index"] = i
    head = subprocess.run(f"git -C {SRC} rev-parse --short HEAD", shell=True, capture_output=True, text=True).stdout.strip()
    for m in out:
        m["repo_head"] = head
    json.dump(out, open(f"/var/tmp/mutants{TAG}.json", "w"))
    by = {}
    for m in out:
        by[m["file"]] = by.get(m["file"], 0) + 1
    print(len(out), "mutants;", json.dumps(by))


def sh(cmd, cwd=None, env=None, timeout=3600):
    """run a shell command in its own process group; on timeout the whole group is killed (a mutant
    may loop forever inside a test process that would otherwise survive its parent)"""
    import signal
    e = dict(os.environ)
    e.update({"CARGO_NET_OFFLINE": "true"})
    if env:
        e.update(env)
    p = subprocess.Popen(cmd, shell=True, cwd=cwd, env=e, stdout=subprocess.PIPE, stderr=subprocess.STDOUT, text=True, start_new_session=True)
    try:
        out, _ = p.communicate(timeout=timeout)
        return p.returncode, out
    except subprocess.TimeoutExpired:
        try:
            os.killpg(p.pid, signal.SIGKILL)
        except ProcessLookupError:
            pass
        p.communicate()
        return 124, "timeout"


def prepare():
    if not os.path.isdir(REPO):
        sh(f"git -C {SRC} worktree add -q --detach {REPO} HEAD")
    sh("git reset -q --hard && git checkout -q --detach main", cwd=REPO)
    sh(f"mkdir -p {VERIF} && rsync -a --delete --exclude .build --exclude .work --exclude .git --exclude replays --exclude evidence --exclude seeded /verif/ {VERIF}/")
    sh(f"sed -i 's|path = \"/repo\"|path = \"{REPO}\"|' {VERIF}/engine/mc/Cargo.toml")


def apply(m, repo):
    sh("git reset -q --hard && git clean -fdq", cwd=repo)
    p = os.path.join(repo, m["file"])
    t = open(p, newline="").read()
    assert t[m["start"]:m["end"]] == m["old"], (t[m["start"]:m["end"]], m["old"])
    open(p, "w", newline="").write(t[:m["start"]] + m["new"] + t[m["end"]:])


def prefilter(m, repo, target, jobs):
    """build + pinned suite; returns 'stillborn' / 'killed-by-suite' / 'passes-suite'"""
    apply(m, repo)
    rc, out = sh(f"cargo build -j{jobs} --offline --workspace --all-targets 2>&1 | tail -5", cwd=repo, env={"CARGO_TARGET_DIR": target})
    if "error" in out and "could not compile" in out:
        return "stillborn"
    rc, out = sh(f"cargo nextest run -j{jobs} --workspace --no-fail-fast --offline 2>&1 | tail -3", cwd=repo, env={"CARGO_TARGET_DIR": target, "CARGO_BUILD_JOBS": str(jobs)}, timeout=300)
    # nextest runs every test in a process group of its own: a mutant that loops forever survives
    # the kill of our group, so whatever still runs from this target directory is removed by name
    sh(f"pkill -9 -f '{target}/debug/deps/' ; true")
    if not ("85 passed" in out and "failed" not in out and "timed out" not in out):
        return "killed-by-suite"
    return "passes-suite"


def known_prefilter():
    import glob
    k = {}
    for p in glob.glob(f"/var/tmp/mutfilter{TAG}_*.jsonl"):
        for l in open(p):
            r = json.loads(l)
            k[r["index"]] = r["verdict"]
    return k


def evaluate(m, stop_early=True, pre=None):
    row = {k: m[k] for k in ("index", "file", "line", "old", "new", "text", "kind", "repo_head")}
    v = pre or prefilter(m, REPO, TARGET, 16)
    if v != "passes-suite":
        row["verdict"] = v
        return row
    apply(m, REPO)
    order = ORDER[os.path.basename(m["file"])]
    if stop_early:
        # campaign mode: the checks of the properties anchored in the file, then the general round-trip /
        # validator / sweep checks; `one <index>` runs all twenty
        order = order + [c for c in ("C01", "C02", "C03", "C04", "C08", "C19") if c not in order and not m["file"].startswith("tools/")]
    else:
        order = order + [c for c in ALL if c not in order]
    row["checks"] = {}
    row["verdict"] = "survivor"
    for c in order:
        t0 = time.time()
        rc, out = sh(f"./check {c} quick 2>/dev/null", cwd=VERIF, env={"E57_REPO": REPO}, timeout=1500)
        sigs = [l.split("signature:")[1].strip() for l in out.splitlines() if "signature:" in l]
        row["checks"][c] = {"exit": rc, "wall_s": round(time.time() - t0, 1), "signatures": sigs[:3]}
        if rc == 1:
            if row["verdict"] == "survivor":
                row["verdict"] = "caught"
                row["caught_by"] = c
                row["position_in_order"] = order.index(c)
            if stop_early:
                break
        elif rc != 0:
            row.setdefault("machinery_exits", []).append(c)
    return row


def main():
    if sys.argv[1] == "gen":
        return gen()
    muts = json.load(open(f"/var/tmp/mutants{TAG}.json"))
    if sys.argv[1] == "filter":
        a, b, slot = int(sys.argv[2]), int(sys.argv[3]), sys.argv[4]
        repo, target = f"/var/tmp/mutf{slot}", f"/var/tmp/mutf{slot}-target"
        if not os.path.isdir(repo):
            sh(f"git -C {SRC} worktree add -q --detach {repo} HEAD")
        sh("git reset -q --hard && git checkout -q --detach main", cwd=repo)
        with open(f"/var/tmp/mutfilter{TAG}_{slot}.jsonl", "a") as f:
            for m in muts[a:b]:
                v = prefilter(m, repo, target, 4)
                f.write(json.dumps({"index": m["index"], "verdict": v}) + "\n")
                f.flush()
        sh("git reset -q --hard && git clean -fdq", cwd=repo)
        return
    prepare()
    if sys.argv[1] == "one":
        print(json.dumps(evaluate(muts[int(sys.argv[2])], stop_early=False), indent=1))
    else:
        a, b = int(sys.argv[2]), int(sys.argv[3])
        with open(f"/verif/seeded/mutants{TAG}.jsonl", "a") as f:
            done = set()
            if os.path.exists(f"/verif/seeded/mutants{TAG}.jsonl"):
                done = {json.loads(l)["index"] for l in open(f"/verif/seeded/mutants{TAG}.jsonl")}
            for m in muts[a:b]:
                if m["index"] in done:
                    continue
                pre = known_prefilter().get(m["index"])
                row = evaluate(m, pre=pre)
                f.write(json.dumps(row) + "\n")
                f.flush()
                print(row["index"], row["file"], row["line"], repr(row["old"]), "->", repr(row["new"]), row["verdict"], row.get("caught_by", ""), flush=True)
    sh("git reset -q --hard && git clean -fdq", cwd=REPO)


if __name__ == "__main__":
    main()
